# -*- coding: utf-8 -*-
"""Scratch directories for the checks: /dev/shm when usable, else tempfile; always removed."""
import contextlib
import os
import shutil
import tempfile


def _base():
    for cand in ("/dev/shm", None):
        try:
            d = tempfile.mkdtemp(prefix="nixpy-verif-", dir=cand)
            return d
        except OSError:
            continue
    raise RuntimeError("no usable scratch directory")


@contextlib.contextmanager
def workdir(tag=""):
    d = _base()
    try:
        yield d
    finally:
        shutil.rmtree(d, ignore_errors=True)


class FilePool:
    """Hands out fresh file paths inside a scratch directory and removes them on request."""

    def __init__(self, root):
        self.root = root
        self.n = 0

    def new(self, suffix=".nix"):
        self.n += 1
        return os.path.join(self.root, "f%06d%s" % (self.n, suffix))

    @staticmethod
    def drop(path):
        try:
            os.remove(path)
        except OSError:
            pass
