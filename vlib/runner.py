# -*- coding: utf-8 -*-
"""
Runner for the nixpy property checks (see DESIGN.md 3.1, 3.5, 3.6).

A property module ``props/cNN.py`` provides

    ID, RULE, ASSUMPTIONS                       (strings / list of strings)
    shards(tier, seed) -> [spec, ...]           JSON-able dicts, one per worker task
    run_shard(spec, ctx)                        explores; reports through ctx
    replay(case, ctx)                           re-runs exactly one case (no Hypothesis)

``ctx`` is a :class:`Collector`.  Exit codes: 0 held / only known findings,
1 unknown violation (``VIOLATION property=<id> replay=<path>``), 2 harness error.
"""
import hashlib
import importlib
import json
import multiprocessing
import os
import sys
import time
import traceback

from . import scratch
from . import shrink as shrinker

VERIF = os.path.dirname(os.path.dirname(os.path.abspath(__file__)))
NCPU = 16


def evidence_dir():
    # mutant / scratch runs redirect their evidence so that the committed files are only ever
    # written by runs against /repo itself
    return os.environ.get("NIXPY_VERIF_EVIDENCE_DIR") or os.path.join(VERIF, "evidence")


def canon(obj):
    return json.dumps(obj, sort_keys=True, ensure_ascii=True, default=_default)


def _default(o):
    import numpy as np
    if isinstance(o, np.generic):
        return o.item()
    if isinstance(o, np.ndarray):
        return o.tolist()
    if isinstance(o, (set, frozenset)):
        return sorted(o)
    if isinstance(o, bytes):
        return o.decode("latin-1")
    if isinstance(o, tuple):
        return list(o)
    return repr(o)


def case_hash(case):
    return hashlib.sha1(canon(case).encode()).digest()[:8]


class Collector:
    """Per-worker accumulator of cases, classes, samples and violations."""

    MAX_PER_KEY = 6
    MAX_SAMPLES = 6

    def __init__(self, prop_id, tier, seed, workdir=None):
        self.prop_id = prop_id
        self.tier = tier
        self.seed = seed
        self.workdir = workdir
        self.evaluations = 0
        self.nontrivial = set()
        self.classes = {}
        self.samples = []
        self.violations = {}      # key -> {"n": int, "cases": [(size, case, detail)]}
        self.extra = {}
        self.exhaustive = None

    # -- cases ---------------------------------------------------------
    def case(self, case, nontrivial=True, classes=(), sample=None):
        """Count one generated case; ``case`` must be JSON-able (it is hashed)."""
        self.evaluations += 1
        for c in classes:
            self.classes[c] = self.classes.get(c, 0) + 1
        if nontrivial:
            h = case_hash(case)
            if h not in self.nontrivial:
                self.nontrivial.add(h)
                if len(self.samples) < self.MAX_SAMPLES:
                    self.samples.append(case if sample is None else sample)

    def bulk(self, evaluations, nontrivial_hashes=(), classes=None):
        self.evaluations += evaluations
        self.nontrivial.update(nontrivial_hashes)
        for k, v in (classes or {}).items():
            self.classes[k] = self.classes.get(k, 0) + v

    def count(self, cls, n=1):
        self.classes[cls] = self.classes.get(cls, 0) + n

    def note(self, key, value):
        self.extra[key] = value

    def add(self, key, n=1):
        self.extra[key] = self.extra.get(key, 0) + n

    # -- violations ----------------------------------------------------
    def violation(self, key, case, detail):
        ent = self.violations.setdefault(key, {"n": 0, "cases": []})
        ent["n"] += 1
        size = len(canon(case))
        cases = ent["cases"]
        if len(cases) < self.MAX_PER_KEY or size < cases[-1][0]:
            cases.append((size, case, detail))
            cases.sort(key=lambda t: t[0])
            del cases[self.MAX_PER_KEY:]

    def keys(self):
        return set(self.violations)

    def export(self):
        return {
            "evaluations": self.evaluations,
            "nontrivial": list(self.nontrivial),
            "classes": self.classes,
            "samples": self.samples,
            "violations": self.violations,
            "extra": self.extra,
            "exhaustive": self.exhaustive,
        }


def _worker(args):
    modname, spec, prop_id, tier, seed = args
    os.environ.setdefault("PYTHONHASHSEED", "0")
    ctx = None
    try:
        mod = importlib.import_module(modname)
        with scratch.workdir(prop_id) as wd:
            ctx = Collector(prop_id, tier, seed, wd)
            mod.run_shard(spec, ctx)
            out = ctx.export()
        # make it picklable / JSON-clean early so that errors surface here
        json.loads(canon({"s": out["samples"], "c": out["classes"], "x": out["extra"]}))
        return out
    except BaseException:
        err = {"error": traceback.format_exc(), "spec": spec}
        # violations established before the harness tripped stay true (a tree that breaks the property often
        # breaks the harness' own assumptions a moment later)
        try:
            if ctx is not None and ctx.violations:
                part = ctx.export()
                json.loads(canon({"s": part["samples"], "c": part["classes"], "x": part["extra"]}))
                err["partial"] = part
        except BaseException:
            pass
        return err


def _merge(results):
    tot = {"evaluations": 0, "nontrivial": set(), "classes": {}, "samples": [],
           "violations": {}, "extra": {}, "exhaustive": None}
    for r in results:
        tot["evaluations"] += r["evaluations"]
        tot["nontrivial"].update(r["nontrivial"])
        for k, v in r["classes"].items():
            tot["classes"][k] = tot["classes"].get(k, 0) + v
        for k, v in r["extra"].items():
            if isinstance(v, (int, float)) and not isinstance(v, bool):
                tot["extra"][k] = tot["extra"].get(k, 0) + v
            elif isinstance(v, list):
                tot["extra"].setdefault(k, [])
                tot["extra"][k].extend(v)
                del tot["extra"][k][20:]
            elif isinstance(v, dict):
                d = tot["extra"].setdefault(k, {})
                for kk, vv in v.items():
                    if isinstance(vv, (int, float)) and not isinstance(vv, bool):
                        d[kk] = d.get(kk, 0) + vv
                    else:
                        d[kk] = vv
            else:
                tot["extra"][k] = v
        tot["samples"].extend(r["samples"][:2])
        for k, ent in r["violations"].items():
            t = tot["violations"].setdefault(k, {"n": 0, "cases": []})
            t["n"] += ent["n"]
            t["cases"].extend(tuple(c) for c in ent["cases"])
            t["cases"].sort(key=lambda c: c[0])
            del t["cases"][Collector.MAX_PER_KEY:]
        tot["shards"] = tot.get("shards", 0) + 1
        if r.get("exhaustive"):
            tot["shards_exhaustive"] = tot.get("shards_exhaustive", 0) + 1
    # 'exhaustive' only when every shard enumerated its finite sub-domain completely; mixed runs
    # (enumerated grid + sampled remainder) say so in exhaustive_part
    tot["exhaustive"] = bool(tot.get("shards")) and tot.get("shards_exhaustive", 0) == tot.get("shards")
    return tot


def load_known(prop_id):
    path = os.path.join(VERIF, "known_findings.json")
    if not os.path.exists(path):
        return {}
    with open(path) as fh:
        data = json.load(fh)
    out = {}
    for ent in data.get("findings", []):
        if ent.get("property") == prop_id and ent.get("status") == "open":
            out[ent["key"]] = ent
    return out


def _replay_keys(mod, prop_id, tier, seed, case):
    with scratch.workdir(prop_id) as wd:
        ctx = Collector(prop_id, tier, seed, wd)
        mod.replay(case, ctx)
    return ctx


def write_evidence(prop_id, tier, seed, level, tot, rule, assumptions, wall,
                   nviol, known_hits, extra_cov=None):
    cov = {
        "evaluations": int(tot["evaluations"]),
        "distinct_nontrivial": int(len(tot["nontrivial"])),
        "rule": rule,
        "samples": json.loads(canon(tot["samples"][:8])) or ["<none>"],
        "classes": dict(sorted(tot["classes"].items())),
        "known_finding_hits": known_hits,
    }
    cov["exhaustive"] = bool(tot.get("exhaustive"))
    if tot.get("shards_exhaustive"):
        cov["exhaustive_part"] = ("%d of %d shards enumerated a finite sub-domain completely (see rule); the other "
                                  "shards are generated samples" % (tot["shards_exhaustive"], tot.get("shards", 0)))
    for k, v in tot["extra"].items():
        cov[k] = json.loads(canon(v))
    if extra_cov:
        cov.update(extra_cov)
    ev = {
        "property_id": prop_id, "tier": tier, "seed": int(seed), "level": level,
        "coverage": cov, "assumptions": list(assumptions),
        "wall_s": round(wall, 2), "violations": int(nviol),
    }
    os.makedirs(evidence_dir(), exist_ok=True)
    path = os.path.join(evidence_dir(), "%s.json" % prop_id)
    tmp = path + ".tmp"
    with open(tmp, "w") as fh:
        json.dump(ev, fh, indent=1, sort_keys=True)
        fh.write("\n")
    os.replace(tmp, path)
    _validate(ev)
    return path


def _validate(ev):
    schema_path = "/root/.vp/EVIDENCE.schema.json"
    try:
        import jsonschema
        if os.path.exists(schema_path):
            with open(schema_path) as fh:
                jsonschema.validate(ev, json.load(fh))
            return
    except ImportError:
        pass
    cov = ev["coverage"]
    assert isinstance(cov["evaluations"], int) and cov["evaluations"] >= 1, "no evaluations"
    assert isinstance(cov["distinct_nontrivial"], int) and cov["distinct_nontrivial"] >= 2, \
        "fewer than 2 distinct non-trivial cases"
    assert isinstance(cov["rule"], str) and isinstance(cov["samples"], list) and cov["samples"]


def corpus_cases(prop_id):
    d = os.path.join(VERIF, "corpus", prop_id)
    out = []
    if os.path.isdir(d):
        for fn in sorted(os.listdir(d)):
            if fn.endswith(".json"):
                with open(os.path.join(d, fn)) as fh:
                    out.append((fn, json.load(fh)))
    return out


def main(argv=None):
    argv = list(sys.argv[1:] if argv is None else argv)
    if not argv:
        print("usage: check <ID> [--tier quick|thorough] [--replay PATH]", file=sys.stderr)
        return 2
    prop_id = argv.pop(0).upper()
    tier = os.environ.get("VERIF_TIER") or "quick"
    replay_path = None
    while argv:
        a = argv.pop(0)
        if a == "--tier":
            tier = argv.pop(0)
        elif a == "--replay":
            replay_path = argv.pop(0)
        else:
            print("unknown argument %r" % a, file=sys.stderr)
            return 2
    if tier not in ("quick", "thorough"):
        tier = "quick"
    try:
        seed = int(os.environ.get("VERIF_SEED", "1"))
    except ValueError:
        seed = 1
    os.environ["PYTHONHASHSEED"] = os.environ.get("PYTHONHASHSEED", "0")
    modname = "props.%s" % prop_id.lower()
    t0 = time.time()
    try:
        mod = importlib.import_module(modname)
    except Exception:
        traceback.print_exc()
        print("HARNESS-ERROR property=%s cannot import check module" % prop_id)
        return 2
    level = getattr(mod, "LEVEL", "exploration")
    known = load_known(prop_id)

    try:
        if replay_path:
            with open(replay_path) as fh:
                rec = json.load(fh)
            case = rec["case"] if isinstance(rec, dict) and "case" in rec else rec
            ctx = _replay_keys(mod, prop_id, tier, seed, case)
            bad = [k for k in ctx.violations if k not in known]
            for k in ctx.violations:
                d = ctx.violations[k]["cases"][0][2]
                print("replay: key=%s detail=%s" % (k, canon(d)[:600]))
            for k in sorted(set(ctx.violations) & set(known)):
                print("KNOWN-FINDING: property=%s %s %s" % (prop_id, k, known[k].get("what", "")))
            if bad:
                print("VIOLATION property=%s replay=%s" % (prop_id, replay_path))
                return 1
            print("replay: property %s held on %s" % (prop_id, replay_path))
            return 0

        # replay files of earlier runs of this property are stale once it is re-run
        rdir = os.path.join(evidence_dir(), "replays")
        if os.path.isdir(rdir):
            for fn in os.listdir(rdir):
                if fn.startswith(prop_id + "-"):
                    os.remove(os.path.join(rdir, fn))
        specs = mod.shards(tier, seed)
        jobs = [(modname, spec, prop_id, tier, seed) for spec in specs]
        nproc = max(1, min(NCPU, len(jobs), int(os.environ.get("VERIF_JOBS", NCPU))))
        if nproc == 1:
            results = [_worker(j) for j in jobs]
        else:
            mpctx = multiprocessing.get_context("fork")
            with mpctx.Pool(nproc, maxtasksperchild=None) as pool:
                results = pool.map(_worker, jobs, chunksize=1)
        errs = [r for r in results if "error" in r]
        if errs:
            print(errs[0]["error"], file=sys.stderr)
            partial = [r["partial"] for r in errs if "partial" in r]
            if not partial:
                print("HARNESS-ERROR property=%s worker failed (spec=%s)" %
                      (prop_id, canon(errs[0]["spec"])[:300]))
                return 2
            print("HARNESS-NOTE property=%s %d worker(s) failed after recording violations; those are reported "
                  "(spec=%s)" % (prop_id, len(errs), canon(errs[0]["spec"])[:200]))
            results = [r for r in results if "error" not in r] + partial
        tot = _merge(results)

        # regression corpus (saved failing inputs of fixed / known defects) replayed every run
        corpus_n = 0
        for fn, rec in corpus_cases(prop_id):
            case = rec["case"] if isinstance(rec, dict) and "case" in rec else rec
            ctx = _replay_keys(mod, prop_id, tier, seed, case)
            corpus_n += 1
            tot["evaluations"] += 1
            tot["nontrivial"].add(case_hash(case))
            for k, ent in ctx.violations.items():
                t = tot["violations"].setdefault(k, {"n": 0, "cases": []})
                t["n"] += ent["n"]
                t["cases"].extend(ent["cases"])
                t["cases"].sort(key=lambda c: c[0])
        tot["extra"]["corpus_replayed"] = corpus_n

        known_hits = {}
        unknown = {}
        for k, ent in tot["violations"].items():
            if k in known:
                known_hits[k] = ent["n"]
            else:
                unknown[k] = ent
        for k in sorted(known):
            print("KNOWN-FINDING: property=%s %s %s (hits this run: %d)" %
                  (prop_id, k, known[k].get("what", ""), known_hits.get(k, 0)))

        replays = []
        # total shrink budget is shared between the finding keys so that a tree with many
        # simultaneous violations still reports within the tier's time frame
        total = 160 if tier == "quick" else 900
        budget = max(12, total // max(1, len(unknown)))
        for k in sorted(unknown):
            size, case, detail = unknown[k]["cases"][0]
            small, sdetail = case, detail
            if getattr(mod, "SHRINK", True):
                def still(c, _k=k):
                    valid = getattr(mod, "valid", None)
                    if valid is not None and not valid(c):
                        return None     # shrinking must stay inside the property's input domain
                    try:
                        ctx2 = _replay_keys(mod, prop_id, tier, seed, c)
                    except Exception:
                        return None
                    if _k in ctx2.violations:
                        return ctx2.violations[_k]["cases"][0][2]
                    return None
                first = still(case)
                if first is not None:
                    small, sdetail = shrinker.shrink(case, still, budget=budget,
                                                     hints=getattr(mod, "SHRINK_HINTS", None))
                    if sdetail is None:
                        sdetail = first
                else:
                    sdetail = dict(detail=detail, note="did not reproduce in the parent process; "
                                                       "original case kept unshrunk")
            rec = {"property": prop_id, "key": k, "seed": seed, "tier": tier,
                   "case": small, "detail": sdetail, "occurrences": unknown[k]["n"]}
            rdir = os.path.join(evidence_dir(), "replays")
            os.makedirs(rdir, exist_ok=True)
            rpath = os.path.join(rdir, "%s-%s.json" % (
                prop_id, hashlib.sha1(k.encode()).hexdigest()[:10]))
            with open(rpath, "w") as fh:
                fh.write(canon(rec))
                fh.write("\n")
            replays.append((k, rpath, sdetail))

        wall = time.time() - t0
        write_evidence(prop_id, tier, seed, level, tot, mod.RULE,
                       getattr(mod, "ASSUMPTIONS", []), wall,
                       sum(e["n"] for e in unknown.values()), known_hits,
                       {"violation_keys": sorted(unknown)} if unknown else None)
        print("%s tier=%s seed=%d evaluations=%d distinct_nontrivial=%d wall=%.1fs" % (
            prop_id, tier, seed, tot["evaluations"], len(tot["nontrivial"]), wall))
        if replays:
            for k, rpath, det in replays:
                print("violation key=%s occurrences=%d detail=%s" % (
                    k, unknown[k]["n"], canon(det)[:800]))
            for k, rpath, det in replays:
                print("VIOLATION property=%s replay=%s" % (prop_id, os.path.relpath(rpath, VERIF)))
            return 1
        return 0
    except Exception:
        traceback.print_exc()
        print("HARNESS-ERROR property=%s" % prop_id)
        return 2
