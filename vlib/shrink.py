# -*- coding: utf-8 -*-
"""
Generic minimiser for JSON-able cases (DESIGN 3.4): delta debugging on lists
(chunk removal), then per-value simplification (ints toward 0, shorter strings,
dropping optional dict keys).  ``still(case)`` returns a detail object when the
case still violates the *same finding key*, else None.  Bounded by evaluations.
"""
import copy


class _Budget(Exception):
    pass


def shrink(case, still, budget=150, hints=None):
    state = {"n": 0, "best": case, "detail": None}
    hints = hints or {}
    keep_keys = set(hints.get("keep_keys", ()))

    def test(c):
        if state["n"] >= budget:
            raise _Budget()
        state["n"] += 1
        try:
            d = still(c)
        except Exception:
            d = None
        if d is not None:
            state["best"] = c
            state["detail"] = d
            return True
        return False

    def paths(obj, pre=()):
        yield pre, obj
        if isinstance(obj, list):
            for i, v in enumerate(obj):
                for r in paths(v, pre + (i,)):
                    yield r
        elif isinstance(obj, dict):
            for k in sorted(obj):
                for r in paths(obj[k], pre + (k,)):
                    yield r

    def get(obj, path):
        for p in path:
            obj = obj[p]
        return obj

    def put(obj, path, val):
        if not path:
            return val
        obj = copy.deepcopy(obj)
        cur = obj
        for p in path[:-1]:
            cur = cur[p]
        cur[path[-1]] = val
        return obj

    def ddmin_list(path):
        lst = get(state["best"], path)
        if not isinstance(lst, list) or not lst:
            return
        n = 2
        while len(lst) >= 1:
            chunk = max(1, len(lst) // n)
            reduced = False
            i = 0
            while i < len(lst):
                cand = lst[:i] + lst[i + chunk:]
                if test(put(state["best"], path, cand)):
                    lst = cand
                    reduced = True
                else:
                    i += chunk
            if not reduced:
                if chunk == 1:
                    break
                n = min(len(lst), n * 2)
            elif len(lst) == 0:
                break

    def simplify_values():
        changed = True
        rounds = 0
        while changed and rounds < 3:
            changed = False
            rounds += 1
            for path, val in list(paths(state["best"])):
                try:
                    cur = get(state["best"], path)
                except (KeyError, IndexError, TypeError):
                    continue
                if cur != val:
                    continue
                cands = []
                if isinstance(val, bool) or val is None:
                    continue
                if isinstance(val, int):
                    if val != 0:
                        cands = [0, val // 2, val - 1 if val > 0 else val + 1]
                elif isinstance(val, float):
                    if val != 0.0 and val == val:
                        cands = [0.0, float(int(val))] if val != float(int(val)) else [0.0]
                elif isinstance(val, str):
                    if len(val) > 1 and (not path or path[-1] not in keep_keys):
                        cands = [val[:1], val[: len(val) // 2]]
                elif isinstance(val, dict):
                    for k in sorted(val):
                        if k in keep_keys:
                            continue
                        c = dict(val)
                        del c[k]
                        cands.append(c)
                for c in cands:
                    if c == val:
                        continue
                    if test(put(state["best"], path, c)):
                        changed = True
                        break

    try:
        # lists, outermost first
        seen = 0
        while True:
            lists = [p for p, v in paths(state["best"]) if isinstance(v, list) and len(v) > 0]
            if seen >= len(lists):
                break
            ddmin_list(lists[seen])
            seen += 1
        simplify_values()
    except _Budget:
        pass
    return state["best"], state["detail"]
