# -*- coding: utf-8 -*-
"""Hypothesis driver and shared strategies."""
from hypothesis import HealthCheck, Phase, given, seed as hseed, settings
from hypothesis import strategies as st


def generate(strategy, n, seed, fn, shrink=False, skip_minimal=None):
    """
    Draw ``n`` examples from ``strategy`` (a pure function of ``seed``) and call ``fn`` on each.
    ``fn`` must not raise for property violations - it reports them through its collector - so
    that generation continues behind the first failure (DESIGN 3.5).

    Hypothesis always starts with the minimal example of the strategy; with 16+ shards of a few
    cases each that would spend a large share of the budget on one identical case, so every
    shard but the first (seed % 1000 == 0) draws one more example and skips the first.
    """
    phases = [Phase.generate] + ([Phase.shrink] if shrink else [])
    if skip_minimal is None:
        skip_minimal = int(seed) % 1000 != 0
    state = {"first": True}

    @hseed(int(seed))
    @settings(max_examples=int(n) + (1 if skip_minimal else 0), database=None, deadline=None,
              derandomize=False, phases=phases, report_multiple_bugs=False,
              suppress_health_check=list(HealthCheck))
    @given(strategy)
    def _run(x):
        if state["first"]:
            state["first"] = False
            if skip_minimal:
                return
        fn(x)

    _run()


def weighted(alternatives):
    """
    Uniform choice among the listed strategies (repeat an entry to weight it).  Unlike
    st.one_of this does not flatten nested one_of's, so an entry that itself has many
    alternatives (e.g. 'link' = 10 owner/role pairs) is not 10 times as likely as a simple one.
    """
    alternatives = list(alternatives)
    return st.integers(0, len(alternatives) - 1).flatmap(lambda i: alternatives[i])


# names ---------------------------------------------------------------------------------

# incl. a combining accent (U+0301) and compatibility singletons (OHM SIGN U+2126, ANGSTROM SIGN U+212B) next to
# their canonical twins: names are compared as code point sequences, never after any Unicode normalisation
NAME_ALPHA = st.sampled_from(list("abcxyzABZ019 _-.:µéüß日本λ😀e\u0301\u2126\u03a9\u212b\u00c5"))


def names(max_size=12):
    return st.text(alphabet=NAME_ALPHA, min_size=1, max_size=max_size).filter(
        lambda s: s not in (".", "..") and "/" not in s and "\x00" not in s)


def attr_text():
    """attribute strings: None / '' / ASCII / non-ASCII"""
    return st.one_of(st.none(), st.just(""), st.text(alphabet=NAME_ALPHA, max_size=10))
