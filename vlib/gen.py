# -*- coding: utf-8 -*-
"""Hypothesis driver and shared strategies."""
from hypothesis import HealthCheck, Phase, given, seed as hseed, settings
from hypothesis import strategies as st


def generate(strategy, n, seed, fn, shrink=False):
    """
    Draw ``n`` examples from ``strategy`` (a pure function of ``seed``) and call ``fn`` on each.
    ``fn`` must not raise for property violations - it reports them through its collector - so
    that generation continues behind the first failure (DESIGN 3.5).
    """
    phases = [Phase.generate] + ([Phase.shrink] if shrink else [])

    @hseed(int(seed))
    @settings(max_examples=int(n), database=None, deadline=None, derandomize=False,
              phases=phases, report_multiple_bugs=False,
              suppress_health_check=list(HealthCheck))
    @given(strategy)
    def _run(x):
        fn(x)

    _run()


# names ---------------------------------------------------------------------------------

NAME_ALPHA = st.sampled_from(list("abcxyzABZ019 _-.:µéüß日本λ😀"))


def names(max_size=12):
    return st.text(alphabet=NAME_ALPHA, min_size=1, max_size=max_size).filter(
        lambda s: s not in (".", "..") and "/" not in s and "\x00" not in s)


def attr_text():
    """attribute strings: None / '' / ASCII / non-ASCII"""
    return st.one_of(st.none(), st.just(""), st.text(alphabet=NAME_ALPHA, max_size=10))
