# -*- coding: utf-8 -*-
"""
Canonical walk of everything observable through nixio's public API (DESIGN 3.3).

``walk(nixfile)`` returns a JSON-able tree.  For each object every ``property``
defined on its class (and bases) is enumerated by introspection, minus a short
denylist; values are canonicalised:

* owning containers      -> ordered list of child walks
* link containers        -> ordered list of {"ref": id}
* role links (an entity as attribute value: metadata, positions, ...) -> {"ref": id}
* ndarrays               -> {"dtype", "shape", "sha1", "values" (<= 64 elements)}
* floats                 -> {"f": repr} (NaN / -0.0 safe)
* getter raising         -> {"raises": "<ExceptionClass>"}
"""
import enum
import hashlib
import inspect
import warnings

import numpy as np

DENY = {
    "file",                     # back reference to the File
    "parent", "parent_block", "parent_source",           # derived; C13 checks them directly
    "referring_objects", "referring_blocks", "referring_groups", "referring_data_arrays",
    "referring_tags", "referring_multi_tags", "referring_sources",
    "auto_update_timestamps",   # session switch, not stored state
    "valid", "debug_message",
}
DENY_PER_KIND = {
    "DataArray": {"data"},      # deprecated alias returning self
}
_PROPS_CACHE = {}


def class_props(cls):
    names = _PROPS_CACHE.get(cls)
    if names is None:
        names = sorted(n for n, m in inspect.getmembers(cls, lambda m: isinstance(m, property))
                       if not n.startswith("_"))
        _PROPS_CACHE[cls] = names
    return names


def cfloat(x):
    return {"f": repr(float(x))}


def carray(arr):
    arr = np.asarray(arr)
    out = {"dtype": str(arr.dtype), "shape": list(arr.shape)}
    if arr.dtype == object or arr.dtype.kind in "US":
        flat = [x.decode() if isinstance(x, bytes) else str(x) for x in arr.ravel().tolist()]
        out["sha1"] = hashlib.sha1("\x00".join(flat).encode("utf-8", "surrogatepass")).hexdigest()
        if len(flat) <= 64:
            out["values"] = flat
    elif arr.dtype.fields:
        rows = [cval(tuple(r)) for r in arr.ravel().tolist()] if arr.size <= 64 else None
        out["sha1"] = hashlib.sha1(repr(arr.tolist()).encode("utf-8", "surrogatepass")).hexdigest()
        if rows is not None:
            out["values"] = rows
    else:
        out["sha1"] = hashlib.sha1(np.ascontiguousarray(arr).tobytes()).hexdigest()
        if arr.size <= 64:
            out["values"] = [cval(x) for x in arr.ravel().tolist()]
    return out


def cval(v):
    """canonical form of a plain value"""
    if v is None or isinstance(v, (bool, str)):
        return v
    if isinstance(v, (np.bool_,)):
        return bool(v)
    if isinstance(v, (int, np.integer)):
        return int(v)
    if isinstance(v, (float, np.floating)):
        return cfloat(v)
    if isinstance(v, bytes):
        try:
            return v.decode()
        except UnicodeDecodeError:
            return {"bytes": v.hex()}
    if isinstance(v, enum.Enum):
        return v.value
    if isinstance(v, np.ndarray):
        return carray(v)
    if isinstance(v, (tuple, list)):
        return [cval(x) for x in v]
    if isinstance(v, np.dtype):
        return str(v)
    if isinstance(v, type):
        try:
            return str(np.dtype(v))
        except TypeError:
            return v.__name__
    if isinstance(v, np.void):
        return [cval(x) for x in v.tolist()]
    return {"repr": repr(v)}


class Walker:
    def __init__(self, timestamps=True, data=True, seen=False, top_id=None):
        # the walked entity itself: when a digest would have to describe it (a link cycle leading back to it),
        # ``cyclic`` is set - such digests are not comparable between a source and its (renamed, re-id'd) copy
        self.top_id = top_id
        self.cyclic = False
        self.timestamps = timestamps
        self.data = data
        # seen=True: every link ({"ref": id}) also carries "seen", a digest of what is visible THROUGH that link
        # (the target's attributes, the names of its children and link targets, its data) - free of ids,
        # timestamps and the target's own name, so that it is comparable between a source and its copy
        self.seen = seen
        import nixio
        from nixio.container import Container, LinkContainer
        from nixio.dimensions import Dimension, DimensionContainer, DimensionLink
        from nixio.entity import Entity
        from nixio.feature import Feature
        self.nixio = nixio
        self.Container = Container
        self.LinkContainer = LinkContainer
        self.DimensionContainer = DimensionContainer
        self.Dimension = Dimension
        self.DimensionLink = DimensionLink
        self.Entity = Entity
        self.Feature = Feature

    def ref(self, x):
        if not self.seen:
            return {"ref": x.id}
        import json
        try:
            dig = hashlib.sha1(json.dumps(self.summary(x, top=True), sort_keys=True).encode("utf-8")).hexdigest()[:16]
        except Exception as exc:  # noqa
            dig = "raises " + type(exc).__name__
        return {"ref": x.id, "seen": dig}

    def _label(self, x):
        if isinstance(x, self.Feature):
            try:
                return "feature:%s:%s" % (x.data.name, x.link_type.value)
            except Exception as exc:  # noqa
                return "feature:raises " + type(exc).__name__
        if self.top_id is not None and getattr(x, "id", None) == self.top_id:
            self.cyclic = True
            return "%s:<top>" % type(x).__name__
        return "%s:%s" % (type(x).__name__, getattr(x, "name", None))

    def summary(self, o, top=False):
        """shallow, id-free description of ``o`` as seen through the handle at hand"""
        kind = type(o).__name__
        node = {"kind": kind}
        deny = DENY_PER_KIND.get(kind, ())
        for name in class_props(type(o)):
            if name in DENY or name in deny or name in ("id", "created_at", "updated_at") or (top and name == "name"):
                continue
            try:
                with warnings.catch_warnings():
                    warnings.simplefilter("ignore")
                    v = getattr(o, name)
                    if isinstance(v, self.DimensionContainer):
                        node[name] = [self.summary(d) for d in v]
                    elif isinstance(v, (self.LinkContainer, self.Container)):
                        node[name] = [self._label(x) for x in v]
                    elif isinstance(v, (self.Entity, self.Feature)):
                        node[name] = self._label(v)
                    elif isinstance(v, (self.Dimension, self.DimensionLink)):
                        node[name] = self.summary(v)
                    else:
                        node[name] = cval(v)
            except Exception as exc:  # noqa
                node[name] = {"raises": type(exc).__name__}
        if self.data and kind in ("DataArray", "DataFrame"):
            try:
                with warnings.catch_warnings():
                    warnings.simplefilter("ignore")
                    node["payload"] = carray(o[:])["sha1"]
            except Exception as exc:  # noqa
                node["payload"] = {"raises": type(exc).__name__}
        if kind == "Section":
            # properties are owned content without links of their own: values belong to what is seen
            try:
                node["props"] = [[p.name, cval(list(p.values))] for p in o.props]
            except Exception as exc:  # noqa
                node["props"] = {"raises": type(exc).__name__}
            # ... and so does what the section inherits along its chain of links (every further hop)
            try:
                chain, cur, visited = [], o, {o.id}
                for _ in range(8):
                    nxt = cur.link
                    if nxt is None or nxt.id in visited:
                        break
                    if self.top_id is not None and nxt.id == self.top_id:
                        self.cyclic = True
                        break
                    visited.add(nxt.id)
                    chain.append([[p.name, cval(list(p.values))] for p in nxt.props])
                    cur = nxt
                node["link-chain"] = chain
            except Exception as exc:  # noqa
                node["link-chain"] = {"raises": type(exc).__name__}
        return node

    def value(self, v):
        if isinstance(v, self.LinkContainer):
            return [self.ref(x) for x in v]
        if isinstance(v, self.Container):
            return [self.obj(x) for x in v]
        if isinstance(v, (self.Entity, self.Feature)):
            return self.ref(v)
        if isinstance(v, self.DimensionLink):
            return self.obj(v)
        if isinstance(v, self.Dimension):
            return self.obj(v)
        return cval(v)

    def obj(self, o):
        kind = type(o).__name__
        node = {"kind": kind}
        deny = DENY_PER_KIND.get(kind, ())
        for name in class_props(type(o)):
            if name in DENY or name in deny:
                continue
            if not self.timestamps and name in ("created_at", "updated_at"):
                continue
            try:
                with warnings.catch_warnings():
                    warnings.simplefilter("ignore")
                    v = getattr(o, name)
                    node[name] = self.value(v)
            except Exception as exc:  # recorded, not propagated (e.g. positions after delete)
                node[name] = {"raises": type(exc).__name__}
        if self.data and kind in ("DataArray", "DataFrame"):
            try:
                with warnings.catch_warnings():
                    warnings.simplefilter("ignore")
                    node["payload"] = carray(o[:])
            except Exception as exc:
                node["payload"] = {"raises": type(exc).__name__}
        return node

    def file(self, f):
        return self.obj(f)


def walk(nixfile, timestamps=True, data=True, seen=False):
    return Walker(timestamps, data, seen).file(nixfile)


def walk_obj(obj, timestamps=True, data=True, seen=False):
    return Walker(timestamps, data, seen, getattr(obj, "id", None) if seen else None).obj(obj)


# ------------------------------------------------------------------ comparison helpers

def diff(a, b, path=""):
    """first difference between two walks as (path, a, b), or None"""
    if type(a) is not type(b):
        return (path, a, b)
    if isinstance(a, dict):
        for k in sorted(set(a) | set(b)):
            if k not in a:
                return ("%s/%s" % (path, k), "<absent>", b[k])
            if k not in b:
                return ("%s/%s" % (path, k), a[k], "<absent>")
            d = diff(a[k], b[k], "%s/%s" % (path, k))
            if d:
                return d
        return None
    if isinstance(a, list):
        if len(a) != len(b):
            return ("%s[len]" % path, _brief(a), _brief(b))
        for i, (x, y) in enumerate(zip(a, b)):
            d = diff(x, y, "%s[%d]" % (path, i))
            if d:
                return d
        return None
    return None if a == b else (path, a, b)


def _brief(lst):
    out = []
    for x in lst:
        if isinstance(x, dict):
            out.append(x.get("name") or x.get("ref") or x.get("id") or x.get("kind"))
        else:
            out.append(x)
    return {"len": len(lst), "items": out[:12]}


def brief(v, limit=300):
    import json
    s = json.dumps(v, sort_keys=True, default=repr)
    return s if len(s) <= limit else s[:limit] + "..."


def entities(node, out=None):
    """all dict nodes that have an 'id' (owned entities), depth-first"""
    if out is None:
        out = []
    if isinstance(node, dict):
        if "id" in node and "kind" in node:
            out.append(node)
        for v in node.values():
            entities(v, out)
    elif isinstance(node, list):
        for v in node:
            entities(v, out)
    return out


def refs(node, out=None):
    if out is None:
        out = []
    if isinstance(node, dict):
        if "ref" in node and set(node) <= {"ref", "seen"}:
            out.append(node["ref"])
        else:
            for v in node.values():
                refs(v, out)
    elif isinstance(node, list):
        for v in node:
            refs(v, out)
    return out
