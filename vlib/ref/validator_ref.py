# -*- coding: utf-8 -*-
"""
Reference validator for C14, working on the construction RECIPE of a file (a JSON-able
"model"), never on the file.  Written from the English definitions of the validator's
catalogue (property statement C14 + DESIGN 4/C14); shares no code with nixio.

Model
-----
    file    = {"blocks": [block], "sections": [section]}
    block   = {"name", "type", "arrays": [array], "frames": [frame], "tags": [tag], "mtags": [mtag],
               "groups": [group], "sources": [source]}
    frame   = {"name", "type", "cols": [{"name", "dtype": "str"|"float"}], "rows": int,
               "tail": [bool]  (appended rows: True = continues the ascending values, False = a value
                                below all others), "units": None | [None|str per column]}
              (frames are not validated themselves; they provide labels / ticks / units to descriptors)
    array   = {"name", "type", "shape": [int], "data": "ramp"|"rev"|"flat", "unit": None|str,
               "dims": [dim]}
    dim     = {"k": "set", "labels": None|[str]}
            | {"k": "sampled", "interval": float|None, "unit": None|str, "offset": None|float}
            | {"k": "range", "ticks": [float], "unit": None|str}
            | {"k": "range", "link": <name of a 1-D array of the same block>}   (ticks and unit
                                                         are those of the linked array)
            | {"k": "range", "flink": {"frame": name, "col": int}}   (ticks = the float column, unit =
                                                         the unit of that column or none)
            | {"k": "set", "flink": {"frame": name, "col": int}}     (labels = the column)
    tag     = {"name", "type", "position": [float], "extent": None|[float], "units": None|[str],
               "refs": [array name], "features": [[array name, link type]]}
    mtag    = {"name", "type", "positions": array name, "extents": None|array name,
               "units": None|[str], "refs": [...], "features": [...]}
    group   = {"name", "type", "arrays": [names], "tags": [names], "mtags": [names]}
    source  = {"name", "type", "sources": [source]}
    section = {"name", "type", "props": [{"name", "values", "unit"}], "sections": [section]}

Objects are addressed by path strings:
    block:B   array:B/A   tag:B/T   mtag:B/M   group:B/G   source:B/S1/S2   section:M1/M2

``expected(model)`` returns {path: {"conds": [ids], "required": [[msg, ...], ...], "allowed": [msg]}}
for every object with at least one catalogue condition.  Each entry of "required" is a group of
alternative messages of which at least one has to be reported; "allowed" are co-reports that
may but need not appear.  An object whose "required" is empty may or may not be reported.
"""
import copy
import json

from . import units_ref

# ---------------------------------------------------------------- message texts (the validator's
# observable vocabulary; literal copies so that a changed text is noticed)

MSG = {
    "no-type": "no type set",
    "dim-count": "data dimensionality does not match number of defined dimensions",
    "ticks-count": ("number of ticks in RangeDimension ({}) differs from the number of data entries "
                    "along the corresponding data dimension"),
    "labels-count": ("number of labels in SetDimension ({}) differs from the number of data entries "
                     "along the corresponding data dimension"),
    "no-ticks": "ticks for dimension {} are not set",
    "unsorted-ticks": "ticks for dimension {} are not sorted",
    "axis-unit": ("unit for dimension {} is set but it is not an atomic SI unit "
                  "(Note: composite units are not supported)"),
    "no-interval": "sampling interval for dimension {} is not set",
    "bad-interval": "sampling interval for dimension {} is not valid (interval > 0)",
    "no-position": "position is not set",
    "position-rank": ("number of entries in position does not match number of dimensions in all "
                      "referenced DataArrays"),
    "extent-rank": ("number of entries in extent does not match number of dimensions in all "
                    "referenced DataArrays"),
    "position-extent": "number of entries in position and extent do not match",
    "units-count": ("some of the referenced DataArrays' dimensions don't have units where the Tag has; "
                    "make sure that all references have the same number of dimensions as the Tag has "
                    "units and that each dimension has a unit set"),
    "units-unconvertible": ("some of the referenced DataArrays' dimensions have units that are not "
                            "convertible to the units set in the Tag (Note: composite units are not "
                            "supported)"),
    "tag-unit": "unit is invalid: not an atomic SI (Note: composite units are not supported)",
    "no-positions": "positions are not set",
    "positions-rank": ("number of entries (in 2nd dim) in positions does not match number of dimensions "
                       "in all referenced DataArrays"),
    "extents-rank": ("number of entries (in 2nd dim) in extents does not match number of dimensions in "
                     "all referenced DataArrays"),
    "positions-extents": "number of entries in positions and extents do not match",
}


def msg(cond, idx=None):
    text = MSG[cond]
    return text.format(idx) if "{}" in text else text


def cond_of_message(text):
    """reverse lookup (dimension index ignored) -> condition id or 'unknown-message'"""
    for cond, templ in MSG.items():
        if "{}" in templ:
            head, tail = templ.split("{}")
            if text.startswith(head) and text.endswith(tail) and \
                    text[len(head):len(text) - len(tail)].isdigit():
                return cond
        elif text == templ:
            return cond
    return "unknown-message"


# ---------------------------------------------------------------- units (English definitions)

def is_atomic_si(u):
    """prefix? unit power? with the documented prefix / unit tables"""
    return bool(u) and len(units_ref.decompositions(u)) >= 1


def is_compound_si(u):
    return bool(u) and units_ref.is_compound_ref(u)


def is_si(u):
    return is_atomic_si(u) or is_compound_si(u)


def pair_status(tag_unit, axis_unit):
    """
    'ok' / 'bad' / 'unspecified' for one (tag unit, axis unit) pair; '' stands for 'no unit'.
    Convertible = both recognised atomic SI units with the same base unit and the same power.
    Pairs involving a compound unit are unspecified (the library documents that composite
    units are not supported by this test).
    """
    tag_unit = tag_unit or ""
    axis_unit = axis_unit or ""
    if tag_unit == "" and axis_unit == "":
        return "ok"
    if is_compound_si(tag_unit) and not is_atomic_si(tag_unit):
        return "unspecified"
    if is_compound_si(axis_unit) and not is_atomic_si(axis_unit):
        return "unspecified"
    if tag_unit == "" or axis_unit == "":
        return "bad"
    if not (is_atomic_si(tag_unit) and is_atomic_si(axis_unit)):
        return "bad"
    pa, pb = units_ref.parse(tag_unit), units_ref.parse(axis_unit)
    if pa is None or pb is None:
        return "unspecified"        # ambiguous spelling; not generated
    return "ok" if (pa[1], pa[2]) == (pb[1], pb[2]) else "bad"


# ---------------------------------------------------------------- model access

def path_of(kind, *names):
    return "%s:%s" % (kind, "/".join(names))


def find_array(block, name):
    for a in block["arrays"]:
        if a["name"] == name:
            return a
    raise KeyError(name)


def data_vector(arr):
    """values of a 1-D array by its data flavour"""
    n = arr["shape"][0]
    if arr["data"] == "ramp":
        return [float(i) for i in range(n)]
    if arr["data"] == "rev":
        return [float(n - 1 - i) for i in range(n)]
    return [0.0] * n


def find_frame(block, name):
    for fr in block.get("frames", []):
        if fr["name"] == name:
            return fr
    raise KeyError(name)


def frame_rows(fr):
    return fr["rows"] + len(fr.get("tail", []))


def column_values(fr, col):
    """values of a frame column: base rows ascending, appended rows per their flag"""
    n = fr["rows"]
    if fr["cols"][col]["dtype"] == "str":
        return ["r%d" % i for i in range(frame_rows(fr))]
    vals = [0.25 + 0.5 * i for i in range(n)]
    for k, ascending in enumerate(fr.get("tail", [])):
        vals.append(0.25 + 0.5 * (n + k) if ascending else -1.0 - k)
    return vals


def is_linked(dim):
    return "link" in dim or "flink" in dim


def dim_ticks(block, dim):
    if "link" in dim:
        return data_vector(find_array(block, dim["link"]))
    if "flink" in dim:
        return column_values(find_frame(block, dim["flink"]["frame"]), dim["flink"]["col"])
    return list(dim["ticks"])


def dim_labels(block, dim):
    if "flink" in dim:
        return column_values(find_frame(block, dim["flink"]["frame"]), dim["flink"]["col"])
    return list(dim.get("labels") or [])


def dim_unit(block, dim):
    """unit of a descriptor as a tag sees it: '' for set axes and for axes without unit"""
    if dim["k"] == "set":
        return ""
    if "link" in dim:
        return find_array(block, dim["link"])["unit"] or ""
    if "flink" in dim:
        fr = find_frame(block, dim["flink"]["frame"])
        return (fr["units"][dim["flink"]["col"]] or "") if fr.get("units") else ""
    return dim.get("unit") or ""


def iter_sources(srcs, prefix):
    for s in srcs:
        p = prefix + [s["name"]]
        yield p, s
        for r in iter_sources(s.get("sources", []), p):
            yield r


def iter_sections(secs, prefix):
    for s in secs:
        p = prefix + [s["name"]]
        yield p, s
        for r in iter_sections(s.get("sections", []), p):
            yield r


def objects(model):
    """every validated object: (path, kind, obj, block-or-None)"""
    for b in model["blocks"]:
        yield path_of("block", b["name"]), "block", b, b
        for g in b.get("groups", []):
            yield path_of("group", b["name"], g["name"]), "group", g, b
        for a in b["arrays"]:
            yield path_of("array", b["name"], a["name"]), "array", a, b
        for t in b.get("tags", []):
            yield path_of("tag", b["name"], t["name"]), "tag", t, b
        for m in b.get("mtags", []):
            yield path_of("mtag", b["name"], m["name"]), "mtag", m, b
        for p, s in iter_sources(b.get("sources", []), [b["name"]]):
            yield path_of("source", *p), "source", s, b
    for p, s in iter_sections(model.get("sections", []), []):
        yield path_of("section", *p), "section", s, None


# ---------------------------------------------------------------- the catalogue

class _Acc:
    def __init__(self):
        self.conds = []
        self.required = []
        self.allowed = []

    def need(self, cond, idx=None, alt=()):
        self.conds.append(cond if idx is None else "%s" % cond)
        self.required.append([msg(cond, idx)] + [msg(c, idx) for c in alt])

    def may(self, cond, idx=None):
        self.allowed.append(msg(cond, idx))

    def result(self):
        if not self.required and not self.allowed:
            return None
        return {"conds": sorted(set(self.conds)), "required": self.required,
                "allowed": sorted(set(self.allowed))}


def _entity(acc, obj):
    # name, id and creation date cannot be missing in a file made through the API
    if not obj["type"]:
        acc.need("no-type")


def _array(acc, block, arr):
    rank = len(arr["shape"])
    dims = arr["dims"]
    if len(dims) != rank:
        acc.need("dim-count")                      # missing or surplus descriptors
    # a descriptor describes the data dimension of the same position; surplus ones describe nothing
    for i, (dim, extent) in enumerate(zip(dims, arr["shape"]), 1):
        k = dim["k"]
        if k == "range":
            ticks = dim_ticks(block, dim)
            if len(ticks) == 0:
                acc.need("no-ticks", i)
                acc.may("ticks-count", i)          # documented co-report
            else:
                if len(ticks) != extent:
                    acc.need("ticks-count", i)
                if any(not (a < b) for a, b in zip(ticks, ticks[1:])):
                    acc.need("unsorted-ticks", i)
            u = dim_unit(block, dim)
            if u and not is_atomic_si(u):
                acc.need("axis-unit", i)
        elif k == "sampled":
            iv = dim["interval"]
            if iv is None:
                acc.need("no-interval", i)
            elif iv == 0:
                acc.need("no-interval", i, alt=("bad-interval",))   # "missing or not positive"
            elif iv < 0:
                acc.need("bad-interval", i)
            u = dim_unit(block, dim)
            if u and not is_atomic_si(u):
                acc.need("axis-unit", i)
        elif k == "set":
            labels = dim_labels(block, dim)
            if labels and len(labels) != extent:
                acc.need("labels-count", i)
        else:
            raise ValueError("unknown descriptor kind %r" % (k,))


def _units(acc, block, tagobj, refs):
    units = list(tagobj.get("units") or [])
    if refs:
        if any(len(r["dims"]) != len(units) for r in refs):
            acc.need("units-count")
        statuses = []
        for r in refs:
            for tu, dim in zip(units, r["dims"]):
                statuses.append(pair_status(tu, dim_unit(block, dim)))
        if "bad" in statuses:
            acc.need("units-unconvertible")
        elif "unspecified" in statuses:
            acc.may("units-unconvertible")
    if any(u and not is_si(u) for u in units):
        acc.need("tag-unit")


def _tag(acc, block, tag):
    refs = [find_array(block, n) for n in tag["refs"]]
    pos = list(tag.get("position") or [])
    ext = list(tag.get("extent") or [])
    if not pos:
        acc.need("no-position")
    if refs:
        ranks = [len(r["shape"]) for r in refs]
        if any(len(pos) != rk for rk in ranks):
            if pos:
                acc.need("position-rank")
            else:
                acc.may("position-rank")           # documented co-report of an empty position
        if ext:
            if len(ext) != len(pos):
                if pos:
                    acc.need("position-extent")
                else:
                    acc.may("position-extent")
            if any(len(ext) != rk for rk in ranks):
                acc.need("extent-rank")
    _units(acc, block, tag, refs)


def entry_width(shape):
    """number of coordinates per position in a positions / extents array"""
    return 1 if len(shape) == 1 else shape[1]


def _mtag(acc, block, mtag):
    refs = [find_array(block, n) for n in mtag["refs"]]
    pshape = find_array(block, mtag["positions"])["shape"]
    empty = pshape[0] == 0
    if empty:
        acc.need("no-positions")
    if refs:
        ranks = [len(r["shape"]) for r in refs]
        if any(entry_width(pshape) != rk for rk in ranks):
            if empty:
                acc.may("positions-rank")
            else:
                acc.need("positions-rank")
        if mtag.get("extents"):
            eshape = find_array(block, mtag["extents"])["shape"]
            if eshape[0] == 0:
                # an empty extents array: whether it counts as "set" is unspecified
                acc.may("positions-extents")
                acc.may("extents-rank")
            else:
                if list(eshape) != list(pshape):
                    acc.need("positions-extents")
                if any(entry_width(eshape) != rk for rk in ranks):
                    acc.need("extents-rank")
    _units(acc, block, mtag, refs)


def expected(model):
    out = {}
    for path, kind, obj, block in objects(model):
        acc = _Acc()
        _entity(acc, obj)
        if kind == "array":
            _array(acc, block, obj)
        elif kind == "tag":
            _tag(acc, block, obj)
        elif kind == "mtag":
            _mtag(acc, block, obj)
        res = acc.result()
        if res is not None:
            out[path] = res
    return out


# ---------------------------------------------------------------- structure check (input domain)

LINK_TYPES = ("tagged", "untagged", "indexed")


def _name_ok(n):
    return isinstance(n, str) and n != "" and "/" not in n and n not in (".", "..") and "\x00" not in n


def _num(x):
    return isinstance(x, (int, float)) and not isinstance(x, bool) and x == x and abs(x) < 1e9


def _unit_ok(u):
    return u is None or (isinstance(u, str) and u != "" and " " not in u)


def check_structure(model, allow_empty_arrays=False):
    """raises ValueError when the model cannot be built; returns None otherwise"""
    def req(cond, what):
        if not cond:
            raise ValueError(what)

    req(isinstance(model, dict) and isinstance(model.get("blocks"), list), "blocks")
    req(1 <= len(model["blocks"]) <= 4, "block count")
    bnames = [b.get("name") for b in model["blocks"]]
    req(len(set(bnames)) == len(bnames), "duplicate block")
    for b in model["blocks"]:
        req(_name_ok(b["name"]) and isinstance(b["type"], str), "block name/type")
        anames = [a["name"] for a in b["arrays"]]
        req(len(set(anames)) == len(anames), "duplicate array")
        fnames = [fr["name"] for fr in b.get("frames", [])]
        req(len(set(fnames)) == len(fnames), "duplicate frame")
        for fr in b.get("frames", []):
            req(_name_ok(fr["name"]) and isinstance(fr["type"], str) and fr["type"] != "", "frame name/type")
            cn = [c["name"] for c in fr["cols"]]
            req(1 <= len(cn) <= 4 and len(set(cn)) == len(cn) and all(_name_ok(x) for x in cn), "columns")
            req(all(c["dtype"] in ("str", "float") for c in fr["cols"]), "column dtype")
            req(isinstance(fr["rows"], int) and not isinstance(fr["rows"], bool) and 1 <= fr["rows"] <= 8, "rows")
            req(all(isinstance(x, bool) for x in fr.get("tail", [])) and len(fr.get("tail", [])) <= 2, "tail")
            u = fr.get("units")
            req(u is None or (isinstance(u, list) and len(u) == len(cn) and all(_unit_ok(x) for x in u)),
                "frame units")
        for a in b["arrays"]:
            req(_name_ok(a["name"]) and isinstance(a["type"], str), "array name/type")
            sh = a["shape"]
            req(isinstance(sh, list) and 1 <= len(sh) <= 3, "rank")
            lo = 0 if allow_empty_arrays else 1
            req(all(isinstance(n, int) and not isinstance(n, bool) and lo <= n <= 8 for n in sh), "extent")
            req(all(n >= 1 for n in sh[1:]), "extent")
            req(a["data"] in ("ramp", "rev", "flat"), "data flavour")
            req(_unit_ok(a["unit"]), "array unit")
            req(isinstance(a["dims"], list) and len(a["dims"]) <= 5, "dims")
            for d in a["dims"]:
                k = d["k"]
                if "flink" in d:
                    req(k in ("set", "range") and set(d) == {"k", "flink"}, "flink keys")
                    req(d["flink"]["frame"] in fnames, "flink frame")
                    fr = find_frame(b, d["flink"]["frame"])
                    c = d["flink"]["col"]
                    req(isinstance(c, int) and not isinstance(c, bool) and 0 <= c < len(fr["cols"]), "flink col")
                    req(fr["cols"][c]["dtype"] == ("str" if k == "set" else "float"), "flink column type")
                elif k == "set":
                    lab = d.get("labels")
                    req(lab is None or (isinstance(lab, list) and all(isinstance(x, str) for x in lab)),
                        "labels")
                elif k == "sampled":
                    req(d["interval"] is None or _num(d["interval"]), "interval")
                    req(_unit_ok(d.get("unit")), "unit")
                    req(d.get("offset") is None or _num(d["offset"]), "offset")
                elif k == "range":
                    if "link" in d:
                        req(d["link"] in anames, "link target")
                        tgt = find_array(b, d["link"])
                        req(len(tgt["shape"]) == 1, "link target rank")
                        req(set(d) == {"k", "link"}, "link keys")
                    else:
                        t = d["ticks"]
                        req(isinstance(t, list) and all(_num(x) for x in t), "ticks")
                        req(all(x <= y for x, y in zip(t, t[1:])), "ticks descending (refused by the API)")
                        req(_unit_ok(d.get("unit")), "unit")
                else:
                    req(False, "descriptor kind")
        for role in ("tags", "mtags", "groups"):
            names = [t["name"] for t in b.get(role, [])]
            req(len(set(names)) == len(names), "duplicate " + role)
        for t in b.get("tags", []) + b.get("mtags", []):
            req(_name_ok(t["name"]) and isinstance(t["type"], str), "tag name/type")
            req(all(r in anames for r in t["refs"]) and len(set(t["refs"])) == len(t["refs"]), "refs")
            u = t.get("units")
            req(u is None or (isinstance(u, list) and all(isinstance(x, str) and " " not in x for x in u)),
                "units")
            fe = t.get("features", [])
            req(all(isinstance(x, list) and len(x) == 2 and x[0] in anames and x[1] in LINK_TYPES
                    for x in fe), "features")
            for x in fe:
                req(find_array(b, x[0])["shape"][0] >= 1, "feature data empty")
        for t in b.get("tags", []):
            p = t.get("position")
            req(isinstance(p, list) and all(_num(x) for x in p), "position")
            e = t.get("extent")
            req(e is None or (isinstance(e, list) and all(_num(x) for x in e)), "extent")
        for m in b.get("mtags", []):
            req(m["positions"] in anames, "positions")
            req(m.get("extents") is None or m["extents"] in anames, "extents")
            req(len(find_array(b, m["positions"])["shape"]) <= 2, "positions rank")
            if m.get("extents"):
                req(len(find_array(b, m["extents"])["shape"]) <= 2, "extents rank")
        tnames = [t["name"] for t in b.get("tags", [])]
        mnames = [t["name"] for t in b.get("mtags", [])]
        for g in b.get("groups", []):
            req(_name_ok(g["name"]) and isinstance(g["type"], str), "group")
            req(all(x in anames for x in g.get("arrays", [])), "group arrays")
            req(all(x in tnames for x in g.get("tags", [])), "group tags")
            req(all(x in mnames for x in g.get("mtags", [])), "group mtags")
            for role in ("arrays", "tags", "mtags"):
                req(len(set(g.get(role, []))) == len(g.get(role, [])), "group dup")

        def chk_sources(srcs, depth):
            req(depth <= 4, "source depth")
            ns = [s["name"] for s in srcs]
            req(len(set(ns)) == len(ns), "duplicate source")
            for s in srcs:
                req(_name_ok(s["name"]) and isinstance(s["type"], str), "source")
                chk_sources(s.get("sources", []), depth + 1)
        chk_sources(b.get("sources", []), 1)

    def chk_sections(secs, depth):
        req(depth <= 4, "section depth")
        ns = [s["name"] for s in secs]
        req(len(set(ns)) == len(ns), "duplicate section")
        for s in secs:
            req(_name_ok(s["name"]) and isinstance(s["type"], str), "section")
            pn = [p["name"] for p in s.get("props", [])]
            req(len(set(pn)) == len(pn), "duplicate prop")
            for p in s.get("props", []):
                req(_name_ok(p["name"]), "prop name")
                v = p["values"]
                req(isinstance(v, list) and len(v) >= 1, "prop values")
                req(all(isinstance(x, str) for x in v) or all(isinstance(x, bool) for x in v) or
                    all(isinstance(x, int) and not isinstance(x, bool) and abs(x) < 2 ** 40 for x in v) or
                    all(isinstance(x, float) and x == x and abs(x) < 1e12 for x in v), "prop value types")
                req(_unit_ok(p.get("unit")), "prop unit")
            chk_sections(s.get("sections", []), depth + 1)
    chk_sections(model.get("sections", []), 1)


def link_lengths_ok(model):
    """every linked descriptor finds as many values as its data dimension is long (base recipes)"""
    for b in model["blocks"]:
        for a in b["arrays"]:
            for d, n in zip(a["dims"], a["shape"]):
                if "link" in d and find_array(b, d["link"])["shape"][0] != n:
                    return False
                if "flink" in d and frame_rows(find_frame(b, d["flink"]["frame"])) != n:
                    return False
    return True


# ---------------------------------------------------------------- injections

NON_SI_AXIS = ["sillyvolts", "xyz"]
COMPOUND_AXIS = ["mV/s", "s*V", "ms*V"]
NON_SI_TAG = ["abc", "furlong"]
FOREIGN = ["mV", "ms", "kHz", "mmol"]         # atomic units used to break convertibility
FOREIGN_CLASS = {"mV": "V", "ms": "s", "kHz": "Hz", "mmol": "mol"}


def case_twin(u):
    """second <-> siemens: the one pair of SI base symbols that differ by case alone (ms / mS are not convertible)"""
    p = units_ref.parse(u) if u else None
    if p and p[1] in ("s", "S") and not p[2]:
        return p[0] + ("S" if p[1] == "s" else "s")
    return None


def _incr(n, start=0.5, step=1.5):
    return [start + step * i for i in range(n)]


def _entity_targets(model):
    for path, kind, obj, _ in objects(model):
        yield path, obj


def _new_name(block, stem):
    names = {a["name"] for a in block["arrays"]}
    i = 0
    while "%s%d" % (stem, i) in names:
        i += 1
    return "%s%d" % (stem, i)


def _base_of(u):
    p = units_ref.parse(u) if u else None
    return p[1] if p else None


def enumerate_injections(model):
    """
    All injections applicable to ``model`` (finite, deterministic order).  Every injection names its
    target by block name / object name so that it survives the removal of unrelated objects.
    """
    out = []
    for path, obj in _entity_targets(model):
        if obj["type"]:
            out.append({"kind": "empty-type", "at": path})
    for b in model["blocks"]:
        bn = b["name"]
        link_targets = set()
        for a in b["arrays"]:
            for d in a["dims"]:
                if "link" in d:
                    link_targets.add(d["link"])
        for a in b["arrays"]:
            an = a["name"]
            rank = len(a["shape"])
            base = {"blk": bn, "arr": an}
            for j in range(len(a["dims"])):
                out.append(dict(base, kind="dim-drop", j=j))
            if len(a["dims"]) <= rank:
                for spec in ({"k": "set", "labels": None},
                             {"k": "sampled", "interval": 1.0, "unit": None, "offset": None},
                             {"k": "sampled", "interval": 0.5, "unit": "ms", "offset": None},
                             {"k": "range", "ticks": [0.0, 1.0], "unit": "s"}):
                    out.append(dict(base, kind="dim-add", spec=spec))
            for j, (d, n) in enumerate(zip(a["dims"], a["shape"])):
                k = d["k"]
                if k == "range" and is_linked(d):
                    # replacing linked ticks by explicit ones (the descriptor keeps no unit of its own)
                    out.append(dict(base, kind="ticks", j=j, ticks=_incr(n)))
                    out.append(dict(base, kind="ticks", j=j, ticks=_incr(n + 1)))
                if k == "range" and not is_linked(d):
                    if d["ticks"]:
                        out.append(dict(base, kind="ticks", j=j, ticks=[]))
                    out.append(dict(base, kind="ticks", j=j, ticks=_incr(n + 1)))
                    if n >= 2:
                        out.append(dict(base, kind="ticks", j=j, ticks=_incr(n - 1)))
                        rep = _incr(n)
                        rep[1] = rep[0]
                        out.append(dict(base, kind="ticks", j=j, ticks=rep))          # not strictly increasing
                        rep2 = _incr(n + 1)
                        rep2[-1] = rep2[-2]
                        out.append(dict(base, kind="ticks", j=j, ticks=rep2))         # both
                if k == "range" and "link" in d:
                    tgt = find_array(b, d["link"])
                    if tgt["shape"][0] >= 2:
                        for fl in ("rev", "flat"):
                            if tgt["data"] != fl:
                                out.append(dict(base, kind="link-data", j=j, data=fl))
                    # the linked array grows / shrinks: the tick count no longer matches the described data
                    for newn in (tgt["shape"][0] + 1, tgt["shape"][0] - 1):
                        if newn >= 1:
                            out.append(dict(base, kind="link-resize", j=j, n=newn))
                if k == "set" and not is_linked(d):
                    for cnt in (n + 1, n - 1):
                        if cnt >= 1:
                            out.append(dict(base, kind="labels", j=j, labels=["L%d" % i for i in range(cnt)]))
                if k == "sampled":
                    for v in (0, 0.0, -1.5, -1, None):
                        out.append(dict(base, kind="interval", j=j, value=v))
                if k in ("sampled", "range"):
                    cur = dim_unit(b, d)
                    cands = NON_SI_AXIS[:1] + COMPOUND_AXIS + [None]
                    cands += [u for u in FOREIGN if FOREIGN_CLASS[u] != _base_of(cur)][:2]
                    if j % 2:
                        cands = NON_SI_AXIS[1:] + cands[1:]
                    if case_twin(cur):
                        cands.append(case_twin(cur))
                    for u in cands:
                        if (u or "") != cur:
                            out.append(dict(base, kind="axis-unit", j=j, unit=u))
        used_frames = {d["flink"]["frame"] for a in b["arrays"] for d in a["dims"] if "flink" in d}
        for fr in b.get("frames", []):
            if fr["name"] in used_frames and len(fr.get("tail", [])) < 2:
                for asc in (True, False):
                    out.append({"blk": bn, "frame": fr["name"], "kind": "frame-append-row", "ascending": asc})
        for role in ("tags", "mtags"):
            for t in b.get(role, []):
                base = {"blk": bn, role[:-1]: t["name"]}
                units = list(t.get("units") or [])
                # unit list injections
                variants = []
                if units:
                    variants.append(units[:-1])
                    variants.append([])
                    for i, u in enumerate(units):
                        variants.append(units[:i] + [NON_SI_TAG[i % 2]] + units[i + 1:])
                        forg = [x for x in FOREIGN if FOREIGN_CLASS[x] != _base_of(u)]
                        variants.append(units[:i] + [forg[i % len(forg)]] + units[i + 1:])
                        if u:
                            variants.append(units[:i] + [""] + units[i + 1:])
                        if case_twin(u):
                            variants.append(units[:i] + [case_twin(u)] + units[i + 1:])
                        # the very string a referenced array carries on this axis when that string is no SI unit:
                        # identical, and still not convertible
                        for rn in t["refs"]:
                            ra = find_array(b, rn)
                            if ra is not None and i < len(ra["dims"]):
                                au = dim_unit(b, ra["dims"][i])
                                if au and au != u and units_ref.parse(au) is None and "*" not in au and "/" not in au:
                                    variants.append(units[:i] + [au] + units[i + 1:])
                variants.append(units + [""])
                variants.append(units + ["ms"])
                for v in variants:
                    if v != units:
                        out.append(dict(base, kind="units", units=v))
                # references
                for a in b["arrays"]:
                    if a["name"] not in t["refs"]:
                        out.append(dict(base, kind="add-ref", arr=a["name"]))
                if role == "tags":
                    pos = list(t.get("position") or [])
                    ext = list(t.get("extent") or [])
                    for v in ([], pos[:-1], pos + [1.0]):
                        if v != pos:
                            out.append(dict(base, kind="position", value=v))
                    for v in (ext[:-1] if ext else None, ext + [2.0], [1.0] * (len(pos) + 2)):
                        if v is not None and v != ext and v:
                            out.append(dict(base, kind="extent", value=v))
                else:
                    pshape = find_array(b, t["positions"])["shape"]
                    n, w = pshape[0], entry_width(pshape)
                    pshapes = [[0], [max(n, 1), w + 1], [max(n, 1)]]
                    if w >= 2:
                        pshapes.append([max(n, 1), w - 1])
                    for sh in pshapes:
                        if sh != list(pshape):
                            out.append(dict(base, kind="positions", shape=sh))
                    eshapes = [[n + 1] + list(pshape[1:]), [max(n, 1), w + 1], [max(n, 1)]]
                    if w == 1 and len(pshape) == 1:
                        eshapes.append([max(n, 1), 1])
                    cur_e = find_array(b, t["extents"])["shape"] if t.get("extents") else None
                    for sh in eshapes:
                        if sh != list(pshape) and sh != cur_e and sh[0] >= 1:
                            out.append(dict(base, kind="extents", shape=sh))
    seen, uniq = set(), []
    for inj in out:
        key = json.dumps(inj, sort_keys=True)
        if key not in seen:
            seen.add(key)
            uniq.append(inj)
    return uniq


def apply_injection(model, inj):
    """returns a new model; raises KeyError/ValueError when the target does not exist"""
    m = copy.deepcopy(model)
    kind = inj["kind"]
    if kind == "empty-type":
        for path, obj in _entity_targets(m):
            if path == inj["at"]:
                obj["type"] = ""
                return m
        raise KeyError(inj["at"])
    b = [x for x in m["blocks"] if x["name"] == inj["blk"]]
    if not b:
        raise KeyError(inj["blk"])
    b = b[0]
    if kind == "frame-append-row":
        fr = find_frame(b, inj["frame"])
        fr["tail"] = list(fr.get("tail", [])) + [bool(inj["ascending"])]
        return m
    if "arr" in inj and kind not in ("add-ref",):
        a = find_array(b, inj["arr"])
        if kind == "dim-drop":
            del a["dims"][inj["j"]]
        elif kind == "dim-add":
            a["dims"].append(copy.deepcopy(inj["spec"]))
        else:
            d = a["dims"][inj["j"]]
            if kind == "ticks":
                if d["k"] != "range":
                    raise ValueError("ticks target")
                if is_linked(d):
                    if not inj["ticks"]:
                        raise ValueError("linked ticks cannot be replaced by nothing")
                    a["dims"][inj["j"]] = {"k": "range", "ticks": list(inj["ticks"]), "unit": None}
                else:
                    d["ticks"] = list(inj["ticks"])
            elif kind == "link-data":
                find_array(b, d["link"])["data"] = inj["data"]
            elif kind == "link-resize":
                find_array(b, d["link"])["shape"] = [int(inj["n"])]
            elif kind == "labels":
                if d["k"] != "set" or is_linked(d):
                    raise ValueError("labels target")
                d["labels"] = list(inj["labels"])
            elif kind == "interval":
                if d["k"] != "sampled":
                    raise ValueError("interval target")
                d["interval"] = inj["value"]
            elif kind == "axis-unit":
                if d["k"] == "set":
                    raise ValueError("unit target")
                if "link" in d:
                    find_array(b, d["link"])["unit"] = inj["unit"]     # the unit lives in the linked array
                elif "flink" in d:
                    fr = find_frame(b, d["flink"]["frame"])            # ... or in the frame's unit list
                    units = list(fr["units"]) if fr.get("units") else [None] * len(fr["cols"])
                    units[d["flink"]["col"]] = inj["unit"]
                    fr["units"] = units
                else:
                    d["unit"] = inj["unit"]
            else:
                raise ValueError(kind)
        return m
    role = "tags" if "tag" in inj else "mtags"
    name = inj["tag"] if "tag" in inj else inj["mtag"]
    t = [x for x in b[role] if x["name"] == name]
    if not t:
        raise KeyError(name)
    t = t[0]
    if kind == "units":
        t["units"] = list(inj["units"]) or None
    elif kind == "add-ref":
        find_array(b, inj["arr"])
        if inj["arr"] in t["refs"]:
            raise ValueError("already referenced")
        t["refs"].append(inj["arr"])
    elif kind == "position":
        t["position"] = list(inj["value"])
    elif kind == "extent":
        t["extent"] = list(inj["value"])
    elif kind in ("positions", "extents"):
        sh = list(inj["shape"])
        nm = _new_name(b, "inj_" + kind[:3])
        b["arrays"].append({"name": nm, "type": "injected", "shape": sh, "data": "ramp", "unit": None,
                            "dims": [{"k": "set", "labels": None} for _ in sh]})
        t[kind] = nm
    else:
        raise ValueError(kind)
    return m


def final_model(case):
    m = case["file"]
    for inj in case.get("inj", []):
        m = apply_injection(m, inj)
    return m
