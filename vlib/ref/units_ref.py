# -*- coding: utf-8 -*-
"""
Reference SI unit grammar for C09, written from the property statement and the
documented tables (20 metric prefixes, the base-unit table, integer powers).
It deliberately shares no code with nixio.util.units: decomposition is done by
exhaustive enumeration of (prefix, unit, power) splits, and factors are exact
rationals.
"""
from fractions import Fraction

PREFIX_EXP = {"": 0, "y": -24, "z": -21, "a": -18, "f": -15, "p": -12, "n": -9, "u": -6,
              "m": -3, "c": -2, "d": -1, "da": 1, "h": 2, "k": 3, "M": 6, "G": 9,
              "T": 12, "P": 15, "E": 18, "Z": 21, "Y": 24}
PREFIXES = sorted(PREFIX_EXP, key=lambda p: PREFIX_EXP[p])
UNITS = ["m", "g", "s", "A", "K", "mol", "cd", "Hz", "N", "Pa", "J", "W", "C", "V", "F",
         "S", "Wb", "T", "H", "lm", "lx", "Bq", "Gy", "Sv", "kat", "l", "L", "Ohm", "%",
         "dB", "rad"]


def _is_power(txt):
    """'^' sign? nonzero-leading digits"""
    if not txt.startswith("^"):
        return False
    body = txt[1:]
    if body[:1] in "+-":
        body = body[1:]
    return body.isdigit() and body[0] != "0" and body.isascii()


def decompositions(s):
    """all (prefix, unit, power-text-without-caret) with prefix+unit+power == s"""
    out = []
    for p in PREFIX_EXP:
        if not s.startswith(p):
            continue
        rest = s[len(p):]
        for u in UNITS:
            if not rest.startswith(u):
                continue
            tail = rest[len(u):]
            if tail == "":
                out.append((p, u, ""))
            elif _is_power(tail):
                out.append((p, u, tail[1:]))
    return out


def parse(s):
    d = decompositions(s)
    return d[0] if len(d) == 1 else None


def factor(prefix_a, prefix_b, power_txt):
    """exact scaling factor from prefix_a*unit^p to prefix_b*unit^p"""
    p = int(power_txt) if power_txt else 1
    e = (PREFIX_EXP[prefix_a] - PREFIX_EXP[prefix_b]) * p
    return Fraction(10) ** e


def is_compound_ref(s):
    """atomic ((*|/) atomic)+ , whole string"""
    import re
    parts = re.split(r"[*/]", s)
    return len(parts) >= 2 and all(len(decompositions(p)) >= 1 for p in parts)
