# -*- coding: utf-8 -*-
"""
Operation programs (DESIGN 3.2): a history is a JSON list of ops; entity references are small
integers resolved modulo the current population of that kind in a skeleton model, so every op of
every generated or shrunk program is applicable.  The interpreter applies each op to the real
file and - on success - to the skeleton model.
"""
import os

import numpy as np

KINDS = ("block", "section", "prop", "group", "array", "frame", "tag", "mtag", "source", "feature")

# container attribute on the parent, per child kind
CONTAINER = {"block": "blocks", "section": "sections", "prop": "props", "group": "groups",
             "array": "data_arrays", "frame": "data_frames", "tag": "tags", "mtag": "multi_tags",
             "source": "sources", "feature": "features"}
# link lists: owner kind -> {role: target kind}
LINK_ROLES = {
    "group": {"data_arrays": "array", "data_frames": "frame", "tags": "tag", "multi_tags": "mtag",
              "sources": "source"},
    "tag": {"references": "array", "sources": "source"},
    "mtag": {"references": "array", "sources": "source"},
    "array": {"sources": "source"},
}
META_KINDS = ("block", "group", "array", "frame", "tag", "mtag", "source")

DTYPES = ["int8", "int16", "int32", "int64", "uint8", "uint16", "uint32", "uint64",
          "float32", "float64", "bool", "str"]


class Ent:
    __slots__ = ("kind", "name", "id", "parent", "alive", "children", "links", "single",
                 "attrs", "info", "handle", "serial")

    def __init__(self, kind, name, id_, parent, serial):
        self.kind = kind
        self.name = name
        self.id = id_
        self.parent = parent
        self.alive = True
        self.children = {}
        self.links = {}
        self.single = {}
        self.attrs = {}
        self.info = {}
        self.handle = None
        self.serial = serial

    def block(self):
        e = self
        while e is not None and e.kind != "block":
            e = e.parent
        return e

    def path(self):
        p, e = [], self
        while e is not None:
            p.append("%s:%s" % (e.kind, e.name))
            e = e.parent
        return "/".join(reversed(p))

    def descendants(self):
        out = []
        for lst in self.children.values():
            for c in lst:
                out.append(c)
                out.extend(c.descendants())
        return out


def make_data(dtype, shape, fill, seed=0):
    """deterministic test data; every element distinct where the type allows"""
    n = int(np.prod(shape)) if len(shape) else 1
    if dtype == "str":
        pool = ["", "a", "ü", "日本", "x y", "😀", "λ/µ", "long" * 5]
        arr = np.array([pool[(i + seed) % len(pool)] + (str(i) if fill == "ramp" else "")
                        for i in range(n)], dtype=object)
        return arr.reshape(shape)
    if dtype == "bool":
        return np.array([(i + seed) % 3 == 0 for i in range(n)], dtype=bool).reshape(shape)
    dt = np.dtype(dtype)
    if fill == "zeros":
        return np.zeros(shape, dtype=dt)
    if fill == "ext":
        if dt.kind in "iu":
            ii = np.iinfo(dt)
            vals = [ii.min, ii.max, 0, 1, ii.max - 1, ii.min + 1]
        else:
            fi = np.finfo(dt)
            vals = [fi.max, -fi.max, fi.tiny, -0.0, 0.0, np.nan, np.inf, -np.inf, fi.eps, fi.smallest_subnormal]
        return np.array([vals[(i + seed) % len(vals)] for i in range(n)], dtype=dt).reshape(shape)
    if dt.kind == "u":
        base = (np.arange(n, dtype=np.int64) + seed * 7 + 1) % (np.iinfo(dt).max + 1 if dt.itemsize < 8 else 2 ** 62)
        return base.astype(dt).reshape(shape)
    if dt.kind == "i":
        hi = np.iinfo(dt).max
        base = ((np.arange(n, dtype=np.int64) + seed * 7 + 1) % (2 * min(hi, 2 ** 40))) - min(hi, 2 ** 40)
        if fill == "neg":
            base = -np.abs(base) - 1
        return np.clip(base, np.iinfo(dt).min, hi).astype(dt).reshape(shape)
    base = (np.arange(n, dtype=np.float64) + seed) * 0.25 - 1.0
    if fill == "neg":
        base = -np.abs(base) - 0.5
    return base.astype(dt).reshape(shape)


class Interp:
    """Applies op programs to a nixio file and keeps the skeleton model."""

    def __init__(self, path, clock=None, auto_ts=True, compression=None, policy="fresh", mode="w"):
        # handle policy: "fresh" = obtain a new handle for every op (by the op's 'how');
        # "cached" = one retained handle per entity for the whole session (as a long-lived program
        # would); "two" = two retained handles per entity used alternately.  The property says the
        # state is independent of how many handles to the same entity were used.
        self.policy = policy
        self._retained = {}
        self._turn = {}
        import nixio
        self.nixio = nixio
        self.path = path
        self.clock = clock
        self.auto_ts = auto_ts
        self.mode = "w"
        self.file_compression = compression
        kw = {}
        if compression is not None:
            kw["compression"] = getattr(nixio.Compression, compression)
        self.f = nixio.File.open(path, nixio.FileMode.Overwrite if mode == "w" else nixio.FileMode.ReadWrite,
                                 auto_update_timestamps=auto_ts, **kw)
        self.root = Ent("file", "", self.f.id, None, 0)
        self.root.handle = self.f
        self.serial = 0
        self.ents = []            # all Ent ever created (alive or not), creation order
        self.log = []             # (op index, status)
        self.stats = {}
        self.cached_ok = True
        # False: the real file may hold entities the skeleton does not know (C12's valid retries), so
        # positional strategies (index / negative index) would address other entities than the model's
        self.positional_ok = True

    # ------------------------------------------------------------------ model helpers
    def alive(self, kind, pred=None):
        return [e for e in self.ents if e.alive and e.kind == kind and (pred is None or pred(e))]

    def pick(self, kind, idx, pred=None):
        lst = self.alive(kind, pred)
        if not lst or idx is None:
            return None
        return lst[int(idx) % len(lst)]

    def _new(self, kind, name, id_, parent, handle=None):
        self.serial += 1
        e = Ent(kind, name, id_, parent, self.serial)
        e.handle = handle
        self.ents.append(e)
        parent.children.setdefault(CONTAINER[kind], []).append(e)
        return e

    def _kill(self, ent):
        dead = [ent] + ent.descendants()
        ids = set()
        for d in dead:
            d.alive = False
            ids.add(d.id)
        if ent.parent is not None:
            lst = ent.parent.children.get(CONTAINER[ent.kind], [])
            if ent in lst:
                lst.remove(ent)
        for e in self.ents:
            if not e.alive:
                continue
            for role, lst in e.links.items():
                e.links[role] = [x for x in lst if x.alive]
            for role, tgt in list(e.single.items()):
                if tgt is not None and tgt != "dangling" and not tgt.alive:
                    e.single[role] = "dangling" if role in ("positions", "data") else None
            if e.kind == "array":
                for d in e.info.get("dims", []):
                    if d.get("link") not in (None, "dangling") and not d["link"].alive:
                        d["link"] = "dangling"
        return ids

    # ------------------------------------------------------------------ handles
    def container_of(self, ent):
        par = self.handle(ent.parent, "name") if ent.parent is not self.root else self.f
        return getattr(par, CONTAINER[ent.kind])

    def handle(self, ent, how="name"):
        """obtain a handle to ``ent`` by the requested strategy (parents always by name)"""
        if ent is self.root:
            return self.f
        if self.policy != "fresh" and how != "_raw":
            key = ent.serial
            slots = self._retained.setdefault(key, [])
            want = 1 if self.policy == "cached" else 2
            if len(slots) < want:
                if not slots and ent.handle is not None:
                    slots.append(ent.handle)
                else:
                    slots.append(self.handle(ent, "_raw"))
            turn = self._turn.get(key, 0)
            self._turn[key] = turn + 1
            return slots[turn % len(slots)]
        if how == "_raw":
            how = "name"
        if how in ("index", "neg") and not self.positional_ok:
            how = "name"
        if how == "cached" and ent.handle is not None and self.cached_ok:
            return ent.handle
        cont = self.container_of(ent)
        if how in ("name", "cached", "obj") and ent.kind != "feature":
            return cont[ent.name]
        if how == "id" or ent.kind == "feature":
            if how in ("index", "neg"):
                pass
            else:
                return cont[ent.id]
        sib = ent.parent.children[CONTAINER[ent.kind]]
        pos = sib.index(ent)
        if how == "neg":
            return cont[pos - len(sib)]
        return cont[pos]

    # ------------------------------------------------------------------ session
    def reopen(self, mode="a"):
        self.f.close()
        for e in self.ents:
            e.handle = None
        self._retained = {}
        nixio = self.nixio
        m = nixio.FileMode.ReadWrite if mode == "a" else nixio.FileMode.ReadOnly
        self.f = nixio.File.open(self.path, m, auto_update_timestamps=self.auto_ts)
        self.root.handle = self.f
        self.mode = mode

    def close(self):
        try:
            self.f.close()
        except Exception:  # noqa
            pass

    # ------------------------------------------------------------------ running
    def run(self, program, on_step=None):
        for i, op in enumerate(program):
            st = self.step(op)
            self.log.append(st)
            if on_step is not None:
                on_step(i, op, st)
        return self.log

    def step(self, op):
        name = op["op"]
        fn = getattr(self, "op_" + name)
        try:
            res = fn(op)
        except Exception as exc:   # the real call raised: model untouched
            st = "raised:" + type(exc).__name__
            self.stats[st] = self.stats.get(st, 0) + 1
            self.last_exc = exc
            return st
        st = "skip" if res is False else "ok"
        key = "%s:%s" % (st, name)
        self.stats[key] = self.stats.get(key, 0) + 1
        return st

    # ------------------------------------------------------------------ creation ops
    def _ensure_block(self, idx):
        blk = self.pick("block", idx)
        if blk is None:
            h = self.f.create_block("auto-block", "auto")
            blk = self._new("block", "auto-block", h.id, self.root, h)
        return blk

    def op_mk_block(self, op):
        kw = {}
        if op.get("compression"):
            kw["compression"] = getattr(self.nixio.Compression, op["compression"])
        h = self.f.create_block(op["name"], op["type"], **kw)
        e = self._new("block", op["name"], h.id, self.root, h)
        e.attrs["type"] = op["type"]

    def op_mk_section(self, op):
        par = self.pick("section", op.get("p")) if op.get("p") is not None else None
        if par is None:
            h = self.f.create_section(op["name"], op["type"])
            e = self._new("section", op["name"], h.id, self.root, h)
        else:
            h = self.handle(par, op.get("how", "name")).create_section(op["name"], op["type"])
            e = self._new("section", op["name"], h.id, par, h)
        e.attrs["type"] = op["type"]

    def op_mk_prop(self, op):
        sec = self.pick("section", op["sec"])
        if sec is None:
            h = self.f.create_section("auto-sec", "auto")
            sec = self._new("section", "auto-sec", h.id, self.root, h)
        vals = op["vals"]
        if op.get("dtype"):
            DT = self.nixio.DataType
            arg = {"bool": DT.Bool, "int": DT.Int64, "float": DT.Double, "str": DT.String}[op["dtype"]]
        else:
            arg = vals
        h = self.handle(sec, op.get("how", "name")).create_property(op["name"], arg)
        e = self._new("prop", op["name"], h.id, sec, h)
        e.info["vals"] = [] if op.get("dtype") else list(vals)
        e.info["ptype"] = op.get("dtype") or _ptype(vals[0])

    def op_mk_group(self, op):
        blk = self._ensure_block(op["blk"])
        h = self.handle(blk, op.get("how", "name")).create_group(op["name"], op["type"])
        e = self._new("group", op["name"], h.id, blk, h)
        e.attrs["type"] = op["type"]

    def op_mk_array(self, op):
        blk = self._ensure_block(op["blk"])
        bh = self.handle(blk, op.get("how", "name"))
        shape = tuple(op["shape"])
        dtype = op.get("dtype", "float64")
        data = make_data(dtype, shape, op.get("fill", "ramp"), op.get("seed", 0))
        kw = {}
        if op.get("compression"):
            kw["compression"] = getattr(self.nixio.Compression, op["compression"])
        nd = self.nixio.DataType.String if dtype == "str" else np.dtype(dtype)
        if op.get("via", "data") == "data":
            if dtype == "str":
                h = bh.create_data_array(op["name"], op["type"], dtype=nd, data=data, **kw)
            else:
                h = bh.create_data_array(op["name"], op["type"], data=data, **kw)
        else:
            h = bh.create_data_array(op["name"], op["type"], dtype=nd, shape=shape, **kw)
            if data.size:
                if op["via"] == "shape+direct":
                    h.write_direct(data)
                else:
                    h[:] = data
        e = self._new("array", op["name"], h.id, blk, h)
        e.attrs["type"] = op["type"]
        e.info.update(dtype=dtype, shape=shape, dims=[])
        if "unit" in op:
            h.unit = op["unit"]
            e.attrs["unit"] = op["unit"] or None
        if "label" in op:
            h.label = op["label"]
            e.attrs["label"] = op["label"]

    def op_mk_frame(self, op):
        blk = self._ensure_block(op["blk"])
        bh = self.handle(blk, op.get("how", "name"))
        from collections import OrderedDict
        py = {"int": int, "float": float, "str": str, "bool": bool}
        cols = OrderedDict((n, py.get(t) or np.dtype(t).type) for n, t in op["cols"])
        rows = [tuple(r) for r in op.get("rows", [])]
        h = bh.create_data_frame(op["name"], op["type"], col_dict=cols, data=rows or None)
        e = self._new("frame", op["name"], h.id, blk, h)
        e.attrs["type"] = op["type"]
        e.info.update(cols=list(op["cols"]), rows=rows)

    # frames: units, one more column, more rows (the table itself is C16's subject; here the ops exist so that
    # histories of the other checks contain them)
    def op_frame_units(self, op):
        fr = self.pick("frame", op["t"])
        if fr is None:
            return False
        h = self.handle(fr, op.get("how", "name"))
        ncol = len(fr.info["cols"])
        units = None if op.get("units") is None else [op["units"][i % len(op["units"])] for i in range(ncol)]
        h.units = units
        fr.attrs["units"] = units

    def op_frame_add_col(self, op):
        fr = self.pick("frame", op["t"])
        if fr is None or any(c[0] == op["name"] for c in fr.info["cols"]):
            return False
        h = self.handle(fr, op.get("how", "name"))
        nrows = len(fr.info["rows"])
        col = [int(op.get("seed", 0)) + i for i in range(nrows)]
        h.append_column(col, op["name"], datatype=int)
        fr.info["cols"] = list(fr.info["cols"]) + [[op["name"], "int"]]
        fr.info["rows"] = [tuple(r) + (col[i],) for i, r in enumerate(fr.info["rows"])]
        if fr.attrs.get("units") is not None:
            fr.attrs["units"] = list(fr.attrs["units"]) + [None]

    def op_frame_add_rows(self, op):
        fr = self.pick("frame", op["t"])
        if fr is None:
            return False
        h = self.handle(fr, op.get("how", "name"))
        rows = []
        for k in range(int(op.get("n", 1))):
            row = []
            for j, (_, t) in enumerate(fr.info["cols"]):
                v = int(op.get("seed", 0)) + k + j
                row.append({"int": v, "float": v + 0.5, "str": "r%d" % v, "bool": bool(v % 2)}.get(t, v))
            rows.append(tuple(row))
        h.append_rows(rows)
        fr.info["rows"] = list(fr.info["rows"]) + rows

    def op_mk_tag(self, op):
        blk = self._ensure_block(op["blk"])
        h = self.handle(blk, op.get("how", "name")).create_tag(op["name"], op["type"], list(op["pos"]))
        e = self._new("tag", op["name"], h.id, blk, h)
        e.attrs["type"] = op["type"]
        e.attrs["position"] = [float(x) for x in op["pos"]]

    def op_mk_mtag(self, op):
        blk = self._ensure_block(op["blk"])
        bh = self.handle(blk, op.get("how", "name"))
        if isinstance(op.get("pos"), list):
            h = bh.create_multi_tag(op["name"], op["type"], positions=op["pos"],
                                    extents=op.get("ext"))
            pe = self._new("array", op["name"] + "-positions", h.positions.id, blk, None)
            pe.info.update(dtype="float64", shape=tuple(np.shape(op["pos"])), dims=[])
            pe.attrs["type"] = op["type"] + "-positions"
            ee = None
            if op.get("ext") is not None:
                ee = self._new("array", op["name"] + "-extents", h.extents.id, blk, None)
                ee.info.update(dtype="float64", shape=tuple(np.shape(op["ext"])), dims=[])
                ee.attrs["type"] = op["type"] + "-extents"
        else:
            pe = self.pick("array", op.get("pos", 0), lambda a: a.parent is blk and a.info["dtype"] != "str")
            if pe is None:
                return False
            h = bh.create_multi_tag(op["name"], op["type"], positions=self.handle(pe))
            ee = None
        e = self._new("mtag", op["name"], h.id, blk, h)
        e.attrs["type"] = op["type"]
        e.single["positions"] = pe
        e.single["extents"] = ee

    def op_mk_source(self, op):
        blk = self._ensure_block(op["blk"])
        par = self.pick("source", op.get("p"), lambda s: s.block() is blk) if op.get("p") is not None else None
        ph = self.handle(par or blk, op.get("how", "name"))
        h = ph.create_source(op["name"], op["type"])
        e = self._new("source", op["name"], h.id, par or blk, h)
        e.attrs["type"] = op["type"]

    def op_mk_feature(self, op):
        owner = self.pick(op.get("on", "tag"), op["t"])
        if owner is None:
            return False
        blk = owner.parent
        tk = "frame" if op.get("frame") else "array"
        da = self.pick(tk, op["da"], lambda a: a.parent is blk)
        if da is None:
            return False
        lt = op.get("lt", "untagged")
        h = self.handle(owner, op.get("how", "name")).create_feature(self.handle(da), lt)
        e = self._new("feature", h.id, h.id, owner, h)
        e.single["data"] = da
        e.attrs["link_type"] = lt

    def op_mk_dim(self, op):
        da = self.pick("array", op["da"])
        if da is None:
            return False
        h = self.handle(da, op.get("how", "name"))
        kind = op["kind"]
        if kind == "sampled":
            h.append_sampled_dimension(op["interval"], label=op.get("label"), unit=op.get("unit"),
                                       offset=op.get("offset"))
            da.info["dims"].append({"kind": "sampled", "link": None,
                                    "attrs": {"sampling_interval": op["interval"], "offset": op.get("offset")}})
        elif kind == "range":
            h.append_range_dimension(ticks=op.get("ticks"), label=op.get("label"), unit=op.get("unit"))
            da.info["dims"].append({"kind": "range", "link": None,
                                    "attrs": {"ticks": list(op["ticks"])} if op.get("ticks") else {}})
        elif kind == "set":
            h.append_set_dimension(op.get("labels"))
            da.info["dims"].append({"kind": "set", "link": None})
        elif kind == "self":
            shape = da.info["shape"]
            index = op.get("index")
            if index is None:
                h.append_range_dimension_using_self()
            else:
                index = [(-1 if i == op.get("axis", 0) % len(shape) else (int(x) % max(shape[i], 1)))
                         for i, x in enumerate((list(index) + [0] * len(shape))[:len(shape)])]
                h.append_range_dimension_using_self(index)
            da.info["dims"].append({"kind": "range", "link": da})
        else:
            raise KeyError(kind)

    def op_dim_link(self, op):
        da = self.pick("array", op["da"], lambda a: a.info.get("dims"))
        if da is None:
            return False
        dims = da.info["dims"]
        di = op.get("dim", 0) % len(dims)
        if dims[di]["kind"] == "sampled":
            return False
        # dimension links stay inside the block (as every documented use does)
        tgt = self.pick("array", op["target"], lambda a: a.parent is da.parent and len(a.info["shape"]) >= 1 and
                        (dims[di]["kind"] == "set" or a.info["dtype"] not in ("str", "bool")))
        if tgt is None:
            return False
        shape = tgt.info["shape"]
        axis = op.get("axis", 0) % len(shape)
        index = [(-1 if i == axis else (int(x) % max(shape[i], 1)))
                 for i, x in enumerate((list(op.get("index", [])) + [0] * len(shape))[:len(shape)])]
        h = self.handle(da, op.get("how", "name"))
        h.dimensions[di].link_data_array(self.handle(tgt), index)
        dims[di]["link"] = tgt
        (dims[di].get("attrs") or {}).pop("ticks", None)

    def op_del_dims(self, op):
        da = self.pick("array", op["da"])
        if da is None:
            return False
        self.handle(da, op.get("how", "name")).delete_dimensions()
        da.info["dims"] = []

    # ------------------------------------------------------------------ attributes
    def op_set(self, op):
        ent = self.pick(op["k"], op["t"])
        if ent is None:
            return False
        h = self.handle(ent, op.get("how", "name"))
        attr, val = op["attr"], op["val"]
        if attr == "link_type":
            h.link_type = val
        elif attr == "odml_type":
            h.odml_type = self.nixio.property.OdmlType(val)
        else:
            setattr(h, attr, val)
        ent.attrs[attr] = val
        return True

    DIM_ATTRS = {"sampled": ("sampling_interval", "offset", "unit", "label"),
                 "range": ("ticks", "unit", "label"), "set": ("labels", "label")}

    def resolve_set_dim(self, op):
        """(array, descriptor index) a set_dim op addresses: among the descriptors that HAVE the attribute"""
        cands = [(a, i) for a in self.alive("array") for i, d in enumerate(a.info.get("dims", []))
                 if op["attr"] in self.DIM_ATTRS[d["kind"]]]
        if not cands:
            return None, None
        return cands[(op["da"] * 7 + op.get("dim", 0)) % len(cands)]

    def op_set_dim(self, op):
        da, di = self.resolve_set_dim(op)
        if da is None:
            return False
        dims = da.info["dims"]
        kind = dims[di]["kind"]
        attr = op["attr"]
        val = op["val"]
        h = self.handle(da, op.get("how", "name")).dimensions[di]
        setattr(h, attr, val)
        if attr in ("sampling_interval", "offset"):
            dims[di].setdefault("attrs", {})[attr] = val
        if attr == "ticks":
            dims[di].setdefault("attrs", {})["ticks"] = list(val)
        link = dims[di].get("link")
        if attr == "ticks":
            dims[di]["link"] = None
        elif kind == "range" and attr in ("unit", "label") and link not in (None, "dangling"):
            # a linked range dimension forwards unit/label to the linked array (C05)
            link.attrs[attr] = val
        return True

    def op_force_ts(self, op):
        ent = self.pick(op["k"], op["t"]) if op["k"] != "file" else self.root
        if ent is None or ent.kind in ("feature",):
            return False
        h = self.handle(ent, op.get("how", "name"))
        if op.get("which", "updated") == "created":
            h.force_created_at(op.get("time"))
            if op.get("time") is not None and ent is not self.root:
                ent.attrs["created_at"] = int(op["time"])     # nothing else ever changes a creation time
        else:
            h.force_updated_at(op.get("time"))

    # ------------------------------------------------------------------ links
    def op_link(self, op):
        owner = self.pick(op["k"], op["t"])
        if owner is None:
            return False
        role = op["role"]
        tkind = LINK_ROLES[owner.kind][role]
        blk = owner.block()
        tgt = self.pick(tkind, op["target"], lambda e: e.block() is blk)
        if tgt is None:
            return False
        lst = getattr(self.handle(owner, op.get("how", "name")), role)
        th = self.handle(tgt)
        if op.get("by") == "id":
            # appending by id string resolves inside the link list itself in nixio; use the object
            lst.append(th)
        else:
            lst.append(th)
        cur = owner.links.setdefault(role, [])
        if tgt in cur:
            owner.info.setdefault("relinked", set()).add(role)
        else:
            cur.append(tgt)

    def op_unlink(self, op):
        owner = self.pick(op["k"], op["t"], lambda e: e.links.get(op["role"]))
        if owner is None:
            return False
        role = op["role"]
        cur = owner.links[role]
        tgt = cur[op.get("which", 0) % len(cur)]
        lst = getattr(self.handle(owner, op.get("how", "name")), role)
        by = op.get("by", "obj")
        if by == "obj":
            del lst[self.handle(tgt)]
        elif by == "id":
            del lst[tgt.id]
        elif by == "name" and sum(1 for x in cur if x.name == tgt.name) == 1:
            del lst[tgt.name]
        elif by == "name":
            # several members of that name (sources of different tree levels): the name does not say which
            del lst[tgt.id]
        else:
            # position inside the list: ask the real list where the target is (re-appends may
            # keep or move an entry - both accepted, see DESIGN 3.7)
            ids = [x.id for x in lst]
            del lst[ids.index(tgt.id)]
        cur.remove(tgt)

    def op_set_meta(self, op):
        ent = self.pick(op["k"], op["t"])
        sec = self.pick("section", op["sec"])
        if ent is None or sec is None:
            return False
        self.handle(ent, op.get("how", "name")).metadata = self.handle(sec)
        ent.single["metadata"] = sec

    def op_del_meta(self, op):
        ent = self.pick(op["k"], op["t"])
        if ent is None:
            return False
        h = self.handle(ent, op.get("how", "name"))
        del h.metadata
        ent.single["metadata"] = None

    def op_set_pos(self, op):
        mt = self.pick("mtag", op["t"])
        if mt is None:
            return False
        da = self.pick("array", op["da"], lambda a: a.parent is mt.parent and a.info["dtype"] != "str")
        if da is None:
            return False
        h = self.handle(mt, op.get("how", "name"))
        if op.get("role", "positions") == "positions":
            h.positions = self.handle(da)
            mt.single["positions"] = da
        else:
            h.extents = self.handle(da)
            mt.single["extents"] = da

    def op_clear_ext(self, op):
        mt = self.pick("mtag", op["t"], lambda m: m.single.get("extents") is not None)
        if mt is None:
            return False
        self.handle(mt, op.get("how", "name")).extents = None
        mt.single["extents"] = None

    def op_sec_link(self, op):
        sec = self.pick("section", op["t"])
        tgt = self.pick("section", op["target"], lambda s: s is not sec)
        if sec is None or tgt is None:
            return False
        self.handle(sec, op.get("how", "name")).link = self.handle(tgt)
        sec.single["link"] = tgt

    def op_set_featdata(self, op):
        ft = self.pick("feature", op["t"])
        if ft is None:
            return False
        blk = ft.parent.parent
        da = self.pick("array", op["da"], lambda a: a.parent is blk)
        if da is None:
            return False
        self.handle(ft).data = self.handle(da)
        ft.single["data"] = da

    # ------------------------------------------------------------------ data
    def op_write(self, op):
        da = self.pick("array", op["da"])
        if da is None:
            return False
        data = make_data(da.info["dtype"], da.info["shape"], op.get("fill", "neg"), op.get("seed", 1))
        h = self.handle(da, op.get("how", "name"))
        if not data.size:
            return False
        if op.get("direct"):
            h.write_direct(data)
        else:
            h[:] = data

    def op_append(self, op):
        da = self.pick("array", op["da"])
        if da is None:
            return False
        shape = list(da.info["shape"])
        axis = op.get("axis", 0) % len(shape)
        add = list(shape)
        add[axis] = op.get("n", 1)
        data = make_data(da.info["dtype"], tuple(add), op.get("fill", "ramp"), op.get("seed", 3))
        self.handle(da, op.get("how", "name")).append(data, axis=axis)
        shape[axis] += add[axis]
        da.info["shape"] = tuple(shape)

    def op_resize(self, op):
        da = self.pick("array", op["da"])
        if da is None:
            return False
        shape = da.info["shape"]
        new = tuple(max(0, int(x)) for x in (list(op["shape"]) + list(shape))[:len(shape)])
        self.handle(da, op.get("how", "name")).data_extent = new
        da.info["shape"] = new

    def op_prop_set(self, op):
        pr = self.pick("prop", op["t"])
        if pr is None:
            return False
        vals = _coerce(pr.info["ptype"], op["vals"])
        self.handle(pr, op.get("how", "name")).values = vals
        pr.info["vals"] = list(vals)

    def op_prop_set_other(self, op):
        """an ATTEMPT to store values of another type than the property's: refused with TypeError (nothing changes)
        or - should a version accept it - the values and their type are what was written last"""
        pr = self.pick("prop", op["t"])
        if pr is None:
            return False
        other = [t for t in ("int", "float", "str", "bool") if t != pr.info["ptype"]]
        nt = other[int(op.get("seed", 0)) % len(other)]
        vals = _coerce(nt, op["vals"])
        if not vals or (nt == "str" and vals == [""]):
            return False
        try:
            self.handle(pr, op.get("how", "name")).values = vals
        except TypeError:
            self.stats["prop_set_other:refused"] = self.stats.get("prop_set_other:refused", 0) + 1
            return None
        self.stats["prop_set_other:accepted"] = self.stats.get("prop_set_other:accepted", 0) + 1
        pr.info["vals"] = list(vals)
        pr.info["ptype"] = nt

    def op_prop_ext(self, op):
        pr = self.pick("prop", op["t"])
        if pr is None:
            return False
        vals = _coerce(pr.info["ptype"], op["vals"])
        if not vals:
            return False
        self.handle(pr, op.get("how", "name")).extend_values(vals)
        pr.info["vals"] = pr.info["vals"] + list(vals)

    def op_prop_clear(self, op):
        pr = self.pick("prop", op["t"])
        if pr is None:
            return False
        h = self.handle(pr, op.get("how", "name"))
        if op.get("via") == "none":
            h.values = None
        elif op.get("via") == "empty":
            h.values = []
        else:
            h.delete_values()
        pr.info["vals"] = []

    # ------------------------------------------------------------------ delete
    def op_del(self, op):
        ent = self.pick(op["k"], op["t"])
        if ent is None:
            return False
        how = op.get("how", "name")
        if how in ("index", "neg") and not self.positional_ok:
            how = "name"
        cont = self.container_of(ent)
        sib = ent.parent.children[CONTAINER[ent.kind]]
        pos = sib.index(ent)
        if how == "obj-link":
            # the object handed over was obtained through a link (list member / metadata slot), not from ``cont``
            h = None
            for o in self.ents:
                if not o.alive or h is not None:
                    continue
                for role, lst in o.links.items():
                    if ent in lst:
                        h = getattr(self.handle(o), role)[ent.id]
                        break
                else:
                    for role, tgt in o.single.items():
                        if tgt is ent and role == "metadata":
                            h = getattr(self.handle(o), role)
                            break
            self.del_variant = "through-link" if h is not None else "own"
            del cont[h if h is not None else self.handle(ent)]
        elif how == "obj-top":
            # the object is handed to the container at the top of its tree (block.sources / file.sections), which is
            # not its direct parent when the entity is nested
            top = cont
            self.del_variant = "own"
            if ent.kind == "source" and ent.parent.kind == "source":
                top = self.handle(ent.block()).sources
                self.del_variant = "top-container"
            elif ent.kind == "section" and ent.parent is not self.root:
                top = self.f.sections
                self.del_variant = "top-container"
            del top[self.handle(ent)]
        elif how == "obj":
            del cont[self.handle(ent)]
        elif how == "id" or ent.kind == "feature" and how == "name":
            del cont[ent.id]
        elif how == "index":
            del cont[pos]
        elif how == "neg":
            del cont[pos - len(sib)]
        else:
            del cont[ent.name]
        self.last_deleted = self._kill(ent)

    # ------------------------------------------------------------------ session ops
    def op_flush(self, op):
        self.f.flush()

    def op_reopen(self, op):
        self.reopen(op.get("mode", "a"))
        if op.get("mode") == "r":
            self.reopen("a")

    def op_auto_ts(self, op):
        self.auto_ts = bool(op["on"])
        self.f.auto_update_timestamps = self.auto_ts

    def op_tick(self, op):
        if self.clock is not None:
            self.clock.advance(op.get("dt", 1))


def _ptype(v):
    if isinstance(v, bool):
        return "bool"
    if isinstance(v, int):
        return "int"
    if isinstance(v, float):
        return "float"
    return "str"


def _coerce(ptype, vals):
    out = []
    for v in vals:
        if ptype == "bool":
            out.append(bool(v))
        elif ptype == "int":
            out.append(int(v) if not isinstance(v, str) else len(v))
        elif ptype == "float":
            out.append(float(v) if not isinstance(v, str) else float(len(v)))
        else:
            out.append(v if isinstance(v, str) else str(v))
    return out
