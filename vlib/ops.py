# -*- coding: utf-8 -*-
"""Hypothesis strategies producing op programs for vlib.interp (DESIGN 3.2)."""
from hypothesis import strategies as st

from . import gen
from .interp import DTYPES, LINK_ROLES, META_KINDS

IDX = st.integers(0, 7)
HOW = st.sampled_from(["name", "name", "id", "index", "neg", "cached"])
TYPES = st.sampled_from(["t", "nix.type", "ü-typ", "a b"])
UNITS = st.sampled_from([None, "mV", "s", "ms", "Hz", "kHz", "uA", "V"])
TEXT = gen.attr_text()
SMALLF = st.integers(-40, 40).map(lambda i: i / 8.0)
# numeric attributes take Python ints as well as floats; an int followed by a fractional value (and vice versa)
# must not be squeezed into the type stored first
NUM = st.one_of(SMALLF, SMALLF, st.integers(-4, 4))


def fixed(**kw):
    return st.fixed_dictionaries({k: (v if isinstance(v, st.SearchStrategy) else st.just(v))
                                  for k, v in kw.items()})


def names(pool=None):
    if pool:
        return st.one_of(st.sampled_from(pool), gen.names())
    return gen.names()


def shapes(max_rank=3, max_extent=4, allow_zero=True):
    lo = 0 if allow_zero else 1
    return st.lists(st.integers(lo, max_extent), min_size=1, max_size=max_rank)


def prop_vals():
    return st.one_of(
        st.lists(st.booleans(), min_size=1, max_size=4),
        st.lists(st.one_of(st.integers(-5, 5), st.sampled_from([2 ** 63 - 1, -2 ** 63])), min_size=1, max_size=4),
        st.lists(st.one_of(SMALLF, st.sampled_from([float("inf"), 1e308, -0.0, 5e-324])), min_size=1, max_size=4),
        st.lists(st.text(alphabet=gen.NAME_ALPHA, max_size=6), min_size=1, max_size=4),
    )


def op_strategies(name_pool=None):
    nm = names(name_pool)
    S = {}
    S["mk_block"] = fixed(op="mk_block", name=nm, type=TYPES)
    S["mk_section"] = fixed(op="mk_section", p=st.one_of(st.none(), IDX), name=nm, type=TYPES, how=HOW)
    S["mk_prop"] = fixed(op="mk_prop", sec=IDX, name=nm, vals=prop_vals(), how=HOW)
    S["mk_prop_dtype"] = fixed(op="mk_prop", sec=IDX, name=nm, vals=[], how=HOW,
                               dtype=st.sampled_from(["bool", "int", "float", "str"]))
    S["mk_group"] = fixed(op="mk_group", blk=IDX, name=nm, type=TYPES, how=HOW)
    S["mk_array"] = fixed(op="mk_array", blk=IDX, name=nm, type=TYPES, dtype=st.sampled_from(DTYPES),
                          shape=shapes(), fill=st.sampled_from(["ramp", "ext", "neg"]), seed=st.integers(0, 5),
                          via=st.sampled_from(["data", "data", "shape+direct", "shape+assign"]), how=HOW)
    S["mk_array_ul"] = fixed(op="mk_array", blk=IDX, name=nm, type=TYPES, dtype=st.sampled_from(["float64", "int32"]),
                             shape=shapes(2, 4, False), unit=UNITS, label=TEXT, how=HOW)
    S["mk_frame"] = fixed(op="mk_frame", blk=IDX, name=nm, type=TYPES,
                          cols=st.just([["a", "int"], ["b", "str"], ["c", "float"]]),
                          rows=st.lists(st.tuples(st.integers(-3, 3), st.sampled_from(["x", "ü", ""]), SMALLF).map(list),
                                        max_size=3), how=HOW)
    S["mk_tag"] = fixed(op="mk_tag", blk=IDX, name=nm, type=TYPES, pos=st.lists(SMALLF, min_size=1, max_size=3), how=HOW)
    S["mk_mtag"] = fixed(op="mk_mtag", blk=IDX, name=nm, type=TYPES, pos=IDX, how=HOW)
    S["mk_mtag_list"] = fixed(op="mk_mtag", blk=IDX, name=nm, type=TYPES,
                              pos=st.lists(st.lists(SMALLF, min_size=2, max_size=2), min_size=1, max_size=3),
                              ext=st.one_of(st.none(), st.just([[1.0, 1.0]])), how=HOW).map(_fix_ext)
    S["mk_source"] = fixed(op="mk_source", blk=IDX, p=st.one_of(st.none(), IDX), name=nm, type=TYPES, how=HOW)
    S["mk_feature"] = fixed(op="mk_feature", on=st.sampled_from(["tag", "mtag"]), t=IDX, da=IDX,
                            lt=st.sampled_from(["tagged", "untagged", "indexed"]), how=HOW)
    S["mk_dim_sampled"] = fixed(op="mk_dim", da=IDX, kind="sampled", interval=st.sampled_from([0.5, 1.0, 0.1, 2.0, 1, 2]),
                                label=TEXT, unit=UNITS, offset=st.one_of(st.none(), SMALLF), how=HOW)
    S["mk_dim_range"] = fixed(op="mk_dim", da=IDX, kind="range",
                              ticks=st.one_of(st.none(), st.lists(NUM, min_size=1, max_size=5).map(sorted)),
                              label=TEXT, unit=UNITS, how=HOW)
    S["mk_dim_set"] = fixed(op="mk_dim", da=IDX, kind="set",
                            labels=st.one_of(st.none(), st.lists(st.text(alphabet=gen.NAME_ALPHA, max_size=4), max_size=4)),
                            how=HOW)
    S["mk_dim_self"] = fixed(op="mk_dim", da=IDX, kind="self", index=st.one_of(st.none(), st.lists(IDX, max_size=3)),
                             axis=IDX, how=HOW)
    S["dim_link"] = fixed(op="dim_link", da=IDX, dim=IDX, target=IDX, axis=IDX, index=st.lists(IDX, max_size=3), how=HOW)
    S["del_dims"] = fixed(op="del_dims", da=IDX, how=HOW)

    ent_kinds = st.sampled_from(["block", "group", "array", "frame", "tag", "mtag", "source", "section"])
    S["set_type"] = fixed(op="set", k=ent_kinds, t=IDX, attr="type", val=TYPES, how=HOW)
    S["set_definition"] = fixed(op="set", k=st.one_of(ent_kinds, st.just("prop")), t=IDX, attr="definition", val=TEXT, how=HOW)
    S["set_array"] = st.one_of(
        fixed(op="set", k="array", t=IDX, attr="label", val=TEXT, how=HOW),
        fixed(op="set", k="array", t=IDX, attr="unit", val=UNITS, how=HOW),
        fixed(op="set", k="array", t=IDX, attr="expansion_origin", val=st.one_of(st.none(), NUM), how=HOW),
        fixed(op="set", k="array", t=IDX, attr="polynom_coefficients",
              val=st.one_of(st.none(), st.lists(SMALLF, min_size=1, max_size=3)), how=HOW))
    S["set_tag"] = st.one_of(
        fixed(op="set", k="tag", t=IDX, attr="position", val=st.lists(SMALLF, min_size=1, max_size=3), how=HOW),
        fixed(op="set", k="tag", t=IDX, attr="extent", val=st.one_of(st.none(), st.lists(SMALLF, min_size=1, max_size=3)), how=HOW),
        fixed(op="set", k=st.sampled_from(["tag", "mtag"]), t=IDX, attr="units",
              val=st.one_of(st.none(), st.lists(UNITS.filter(bool), min_size=1, max_size=3)), how=HOW))
    S["set_section"] = fixed(op="set", k="section", t=IDX, attr=st.sampled_from(["reference", "repository"]), val=TEXT, how=HOW)
    S["set_prop"] = st.one_of(
        fixed(op="set", k="prop", t=IDX, attr=st.sampled_from(["reference", "dependency", "dependency_value", "value_origin"]),
              val=TEXT, how=HOW),
        fixed(op="set", k="prop", t=IDX, attr="unit", val=UNITS, how=HOW),
        fixed(op="set", k="prop", t=IDX, attr="uncertainty", val=st.one_of(st.none(), SMALLF), how=HOW))
    S["set_feature"] = fixed(op="set", k="feature", t=IDX, attr="link_type",
                             val=st.sampled_from(["tagged", "untagged", "indexed"]), how=HOW)
    S["set_dim"] = st.one_of(
        fixed(op="set_dim", da=IDX, dim=IDX, attr="label", val=TEXT, how=HOW),
        fixed(op="set_dim", da=IDX, dim=IDX, attr="unit", val=UNITS, how=HOW),
        fixed(op="set_dim", da=IDX, dim=IDX, attr="offset", val=st.one_of(st.none(), NUM), how=HOW),
        fixed(op="set_dim", da=IDX, dim=IDX, attr="sampling_interval", val=st.sampled_from([0.25, 1.0, 3.0, 2, 1, 0.5]), how=HOW),
        fixed(op="set_dim", da=IDX, dim=IDX, attr="ticks", val=st.lists(NUM, min_size=1, max_size=4).map(sorted), how=HOW),
        fixed(op="set_dim", da=IDX, dim=IDX, attr="labels", val=st.lists(st.text(alphabet=gen.NAME_ALPHA, max_size=3), max_size=4), how=HOW))
    S["force_ts"] = fixed(op="force_ts", k=st.sampled_from(["file", "block", "group", "array", "tag", "mtag", "source", "section", "prop"]),
                          t=IDX, which=st.sampled_from(["created", "updated"]),
                          time=st.one_of(st.sampled_from([0, 0, 1, 86400, 4102444800]), st.integers(0, 4102444800)), how=HOW)

    def link_ops(opname):
        alts = []
        for owner, roles in LINK_ROLES.items():
            for role in roles:
                alts.append(fixed(op=opname, k=owner, t=IDX, role=role, target=IDX, which=IDX,
                                  by=st.sampled_from(["obj", "id", "name", "index"]), how=HOW))
        return st.one_of(alts)
    S["link"] = link_ops("link")
    S["unlink"] = link_ops("unlink")
    S["set_meta"] = fixed(op="set_meta", k=st.sampled_from(META_KINDS), t=IDX, sec=IDX, how=HOW)
    S["del_meta"] = fixed(op="del_meta", k=st.sampled_from(META_KINDS), t=IDX, how=HOW)
    S["set_pos"] = fixed(op="set_pos", t=IDX, da=IDX, role=st.sampled_from(["positions", "extents"]), how=HOW)
    S["clear_ext"] = fixed(op="clear_ext", t=IDX, how=HOW)
    S["set_featdata"] = fixed(op="set_featdata", t=IDX, da=IDX)
    S["sec_link"] = fixed(op="sec_link", t=IDX, target=IDX, how=HOW)

    S["write"] = fixed(op="write", da=IDX, fill=st.sampled_from(["neg", "ext", "ramp"]), seed=st.integers(0, 9),
                       direct=st.booleans(), how=HOW)
    S["append"] = fixed(op="append", da=IDX, axis=IDX, n=st.integers(0, 3), seed=st.integers(0, 9), how=HOW)
    S["resize"] = fixed(op="resize", da=IDX, shape=st.lists(st.integers(0, 5), min_size=1, max_size=3), how=HOW)
    S["frame_units"] = fixed(op="frame_units", t=IDX, how=HOW,
                             units=st.one_of(st.none(), st.lists(st.sampled_from(["mV", "s", "Hz"]), min_size=1, max_size=3)))
    S["frame_add_col"] = fixed(op="frame_add_col", t=IDX, name=st.sampled_from(["d", "e", "f", "ü2"]), seed=st.integers(0, 9), how=HOW)
    S["frame_add_rows"] = fixed(op="frame_add_rows", t=IDX, n=st.integers(1, 3), seed=st.integers(0, 9), how=HOW)
    S["prop_set"] = fixed(op="prop_set", t=IDX, vals=prop_vals(), how=HOW)
    S["prop_set_other"] = fixed(op="prop_set_other", t=IDX, vals=prop_vals(), seed=st.integers(0, 5), how=HOW)
    S["prop_ext"] = fixed(op="prop_ext", t=IDX, vals=prop_vals(), how=HOW)
    S["prop_clear"] = fixed(op="prop_clear", t=IDX, via=st.sampled_from(["none", "empty", "delete"]), how=HOW)

    S["del"] = fixed(op="del", k=st.sampled_from(["block", "section", "prop", "group", "array", "frame", "tag",
                                                  "mtag", "source", "feature"]),
                     t=IDX, how=st.sampled_from(["name", "id", "index", "neg", "obj"]))
    S["flush"] = fixed(op="flush")
    S["reopen"] = fixed(op="reopen", mode=st.sampled_from(["a", "r"]))
    S["auto_ts"] = fixed(op="auto_ts", on=st.booleans())
    S["tick"] = fixed(op="tick", dt=st.sampled_from([0, 1, 2, 3600, 1000000]))
    return S


def _fix_ext(op):
    if op.get("ext") is not None:
        op = dict(op)
        op["ext"] = [[1.0, 0.5] for _ in op["pos"]]
    return op


CREATE = ["mk_block", "mk_section", "mk_prop", "mk_prop_dtype", "mk_group", "mk_array", "mk_array_ul", "mk_frame",
          "mk_tag", "mk_mtag", "mk_mtag_list", "mk_source", "mk_feature", "mk_dim_sampled", "mk_dim_range",
          "mk_dim_set", "mk_dim_self"]
SETTERS = ["set_type", "set_definition", "set_array", "set_tag", "set_section", "set_prop", "set_feature", "set_dim"]
LINKS = ["link", "link", "unlink", "set_meta", "del_meta", "set_pos", "clear_ext", "set_featdata", "dim_link", "sec_link"]
DATA = ["write", "append", "resize", "prop_set", "prop_ext", "prop_clear"]
FRAME = ["frame_units", "frame_add_col", "frame_add_rows"]
DELETE = ["del", "del_dims"]


def _overwrite(S):
    """macro: the same attribute of the same entity written twice, through independent handles"""
    setters = st.one_of([S[n] for n in SETTERS if n != "set_dim"])

    def twice(first, second, how2):
        if first["op"] != "set" or second["op"] != "set":
            return [first]
        b = dict(first)
        if second["attr"] == first["attr"]:
            b["val"] = second["val"]
        elif first["val"] is not None:
            b["val"] = None if first["attr"] not in ("type", "link_type", "position") else first["val"]
        b["how"] = how2
        return [first, b]
    return st.builds(twice, setters, setters, HOW)


def _relink(S):
    """macro: a link list is filled, emptied by removal and filled again (same owner, same role)"""
    def build(a, by1, by2, extra):
        a1 = dict(a, target=a["target"])
        rm = dict(a, op="unlink", which=0, by=by1)
        a2 = dict(a, target=a["target"] + 1)
        out = [a1, rm, a2]
        if extra:
            out = [a1, dict(a, target=a["target"] + 1), rm, dict(rm, by=by2), a2]
        return out
    return st.builds(build, S["link"], st.sampled_from(["obj", "id", "name", "index"]),
                     st.sampled_from(["obj", "id"]), st.booleans())


def _multi_append(S):
    """macro: the same array grown several times in a row (interleaved handles under policy 'two')"""
    def build(a, n2, n3, ax):
        return [dict(a, n=max(1, a["n"])), dict(a, n=n2, seed=a["seed"] + 1), dict(a, n=n3, seed=a["seed"] + 2, axis=ax)]
    return st.builds(build, S["append"], st.integers(1, 3), st.integers(1, 2), IDX)


def _frame_grow(S):
    """macro: a frame gets units, then (possibly after other ops of the same frame) one more column and more rows"""
    def build(u, c, r, order):
        u = dict(u, units=u["units"] or ["mV"])
        c = dict(c, t=u["t"])
        r = dict(r, t=u["t"])
        return [u, c, r] if order else [u, r, c, dict(u, how=c["how"])]
    return st.builds(build, S["frame_units"], S["frame_add_col"], S["frame_add_rows"], st.booleans())


def program(enabled, min_size=0, max_size=30, name_pool=None, weights=None):
    """list of ops drawn from the enabled op names (a name may be repeated to weight it)"""
    S = op_strategies(name_pool)
    MACROS = {"overwrite": _overwrite, "relink": _relink, "multi_append": _multi_append, "frame_grow": _frame_grow}
    alts = [S[n].map(lambda o: [o]) for n in enabled if n not in MACROS]
    for mname, mk in MACROS.items():
        if mname in enabled:
            alts += [mk(S)] * enabled.count(mname)
    return st.lists(gen.weighted(alts), min_size=min_size, max_size=max_size).map(
        lambda chunks: [o for ch in chunks for o in ch][:max_size * 2])


def rich_prefix(nblocks=2, same_names=True):
    """
    A fixed, densely linked two-block file as an op list (so it shrinks with the rest): arrays in
    several groups, referenced by tags and multi-tags, used as positions/extents/feature data and
    dimension-link targets, nested sources linked from arrays/tags/groups, nested sections used as
    metadata from every kind, identical names in different blocks / parents.
    """
    P = []
    P.append({"op": "mk_section", "p": None, "name": "meta", "type": "t"})
    P.append({"op": "mk_section", "p": 0, "name": "sub", "type": "t"})
    P.append({"op": "mk_section", "p": 1, "name": "subsub", "type": "t"})
    P.append({"op": "mk_section", "p": None, "name": "other", "type": "t"})
    P.append({"op": "mk_section", "p": 3, "name": "sub", "type": "t"})       # same name, other parent
    P.append({"op": "mk_prop", "sec": 0, "name": "p1", "vals": [1, 2, 3]})
    P.append({"op": "mk_prop", "sec": 1, "name": "p1", "vals": ["a", "ü"]})
    P.append({"op": "mk_prop", "sec": 4, "name": "p2", "vals": [0.5]})
    P.append({"op": "sec_link", "t": 2, "target": 3})          # meta/sub/subsub --link--> other
    for b in range(nblocks):
        bn = "blk%d" % b
        P.append({"op": "mk_block", "name": bn, "type": "t"})
        pre = "" if same_names else bn + "-"
        P.append({"op": "mk_array", "blk": b, "name": pre + "sig", "type": "t", "dtype": "float64", "shape": [4, 3],
                  "unit": "mV", "label": "sig"})
        P.append({"op": "mk_array", "blk": b, "name": pre + "time", "type": "t", "dtype": "float64", "shape": [4]})
        P.append({"op": "mk_array", "blk": b, "name": pre + "pos", "type": "t", "dtype": "float64", "shape": [2, 2]})
        P.append({"op": "mk_array", "blk": b, "name": pre + "ext", "type": "t", "dtype": "float64", "shape": [2, 2]})
        P.append({"op": "mk_array", "blk": b, "name": pre + "feat", "type": "t", "dtype": "int32", "shape": [2, 3]})
        a0 = b * 5
        P.append({"op": "mk_dim", "da": a0, "kind": "range", "ticks": [0.0, 1.0, 2.0, 3.0], "unit": "s", "label": "t"})
        P.append({"op": "mk_dim", "da": a0, "kind": "set", "labels": ["a", "b", "c"]})
        P.append({"op": "dim_link", "da": a0, "dim": 0, "target": a0 + 1, "axis": 0, "index": [0]})
        P.append({"op": "mk_dim", "da": a0 + 1, "kind": "self", "index": None, "axis": 0})
        P.append({"op": "mk_source", "blk": b, "p": None, "name": pre + "src", "type": "t"})
        P.append({"op": "mk_source", "blk": b, "p": b * 3, "name": pre + "child", "type": "t"})
        P.append({"op": "mk_source", "blk": b, "p": b * 3 + 1, "name": pre + "src", "type": "t"})   # name reused deeper
        P.append({"op": "mk_group", "blk": b, "name": pre + "g1", "type": "t"})
        P.append({"op": "mk_group", "blk": b, "name": pre + "g2", "type": "t"})
        P.append({"op": "mk_tag", "blk": b, "name": pre + "tag", "type": "t", "pos": [1.0, 0.0]})
        P.append({"op": "mk_mtag", "blk": b, "name": pre + "mtag", "type": "t", "pos": a0 + 2})
        # block 0: separate extents array; block 1: positions and extents are the SAME array
        P.append({"op": "set_pos", "t": b, "da": a0 + (3 if b == 0 else 2), "role": "extents"})
        g0 = b * 2
        for g in (g0, g0 + 1):
            P.append({"op": "link", "k": "group", "t": g, "role": "data_arrays", "target": a0})
            P.append({"op": "link", "k": "group", "t": g, "role": "tags", "target": b})
            P.append({"op": "link", "k": "group", "t": g, "role": "multi_tags", "target": b})
            P.append({"op": "link", "k": "group", "t": g, "role": "sources", "target": b * 3 + 1})
        P.append({"op": "link", "k": "group", "t": g0, "role": "data_arrays", "target": a0 + 1})
        P.append({"op": "link", "k": "tag", "t": b, "role": "references", "target": a0})
        P.append({"op": "link", "k": "mtag", "t": b, "role": "references", "target": a0})
        P.append({"op": "link", "k": "tag", "t": b, "role": "sources", "target": b * 3 + 2})
        P.append({"op": "link", "k": "mtag", "t": b, "role": "sources", "target": b * 3})
        P.append({"op": "link", "k": "array", "t": a0, "role": "sources", "target": b * 3 + 1})
        # several members of ONE source subtree in one list (deleting the subtree root must drop all of them)
        P.append({"op": "link", "k": "array", "t": a0, "role": "sources", "target": b * 3 + 2})
        P.append({"op": "link", "k": "array", "t": a0, "role": "sources", "target": b * 3})
        P.append({"op": "link", "k": "group", "t": b * 2, "role": "sources", "target": b * 3 + 2})
        P.append({"op": "mk_feature", "on": "tag", "t": b, "da": a0 + 4, "lt": "untagged"})
        P.append({"op": "mk_feature", "on": "mtag", "t": b, "da": a0 + 4, "lt": "indexed"})
        P.append({"op": "mk_feature", "on": "mtag", "t": b, "da": a0, "lt": "tagged"})
        P.append({"op": "set_meta", "k": "block", "t": b, "sec": 0})
        P.append({"op": "set_meta", "k": "array", "t": a0, "sec": 1})
        P.append({"op": "set_meta", "k": "group", "t": g0, "sec": 1})
        P.append({"op": "set_meta", "k": "tag", "t": b, "sec": 2})
        P.append({"op": "set_meta", "k": "mtag", "t": b, "sec": 4})
        P.append({"op": "set_meta", "k": "source", "t": b * 3 + 1, "sec": 2})
        P.append({"op": "mk_frame", "blk": b, "name": pre + "table", "type": "t",
                  "cols": [["a", "int"], ["b", "str"], ["c", "float"]], "rows": [[1, "x", 0.5], [2, "ü", -1.5]]})
        P.append({"op": "link", "k": "group", "t": g0, "role": "data_frames", "target": b})
        P.append({"op": "set_meta", "k": "frame", "t": b, "sec": 3})
    return P


# ---------------------------------------------------------------------------- attribute sweep

def attr_table():
    T = []
    for k in ("block", "group", "array", "frame", "tag", "mtag", "source", "section"):
        T.append((k, "type", TYPES, False))
        T.append((k, "definition", TEXT, True))
    T += [("array", "label", TEXT, True), ("array", "unit", UNITS, True),
          ("array", "expansion_origin", NUM, True),
          ("array", "polynom_coefficients", st.lists(SMALLF, min_size=1, max_size=3), True),
          ("tag", "position", st.lists(SMALLF, min_size=1, max_size=3), False),
          ("tag", "extent", st.lists(SMALLF, min_size=1, max_size=3), True),
          ("tag", "units", st.lists(UNITS.filter(bool), min_size=1, max_size=3), True),
          ("mtag", "units", st.lists(UNITS.filter(bool), min_size=1, max_size=3), True),
          ("section", "reference", TEXT, True), ("section", "repository", TEXT, True),
          ("prop", "definition", TEXT, True), ("prop", "unit", UNITS, True),
          ("prop", "uncertainty", SMALLF, True), ("prop", "reference", TEXT, True),
          ("prop", "dependency", TEXT, True), ("prop", "dependency_value", TEXT, True),
          ("prop", "value_origin", TEXT, True),
          ("feature", "link_type", st.sampled_from(["tagged", "untagged", "indexed"]), False)]
    return T


@st.composite
def attr_sweep(draw, reopen=True):
    """every (kind, attribute) written 2-3 times through independently obtained handles, incl.
    a None after a value where None is allowed ('last write wins'); order shuffled"""
    chunks = []
    for k, attr, vals, nullable in attr_table():
        t = draw(IDX)
        seq = [draw(vals), draw(vals)]
        if nullable:
            where = draw(st.integers(0, 2))      # 0: end with None, 1: None in the middle, 2: no None
            if where == 0:
                seq.append(None)
            elif where == 1:
                seq.insert(1, None)
        chunks.append([{"op": "set", "k": k, "t": t, "attr": attr, "val": v, "how": draw(HOW)} for v in seq])
    for dkind_attr, vals in (("label", TEXT), ("unit", UNITS), ("offset", NUM),
                             ("sampling_interval", st.sampled_from([0.25, 1.0, 3.0, 2, 1, 0.5])),
                             ("ticks", st.lists(NUM, min_size=1, max_size=4).map(sorted)),
                             ("labels", st.lists(st.text(alphabet=gen.NAME_ALPHA, max_size=3), max_size=4))):
        for _ in range(2):
            da, dim = draw(IDX), draw(IDX)
            chunks.append([{"op": "set_dim", "da": da, "dim": dim, "attr": dkind_attr, "val": draw(vals),
                            "how": draw(HOW)} for _ in range(2)])
    chunks = draw(st.permutations(chunks))
    prog = [o for ch in chunks for o in ch]
    # regularly sampled descriptors to address (integer-valued first writes included)
    pre = [{"op": "mk_dim", "da": draw(IDX), "kind": "sampled", "interval": draw(st.sampled_from([1, 2, 0.5, 1.0])),
            "offset": draw(st.one_of(st.none(), NUM))} for _ in range(2)]
    prog = pre + prog
    if reopen:
        for _ in range(draw(st.integers(0, 2))):
            prog.insert(draw(st.integers(0, len(prog))), {"op": "reopen", "mode": draw(st.sampled_from(["a", "r"]))})
    return prog
