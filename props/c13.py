# -*- coding: utf-8 -*-
"""C13 - tree searches, parents and 'referring' lists reflect the stored structure (DESIGN 4/C13)."""
import os

import numpy as np
from hypothesis import strategies as st

from vlib import gen

ID = "C13"
LEVEL = "exploration"
RULE = ("Hypothesis-generated section trees and per-block source trees (depth <= 4, branching <= 3, names from a "
        "4-name pool so that names repeat across subtrees and levels, types from a 3-type pool), metadata links "
        "from blocks, groups, arrays, tags, multi-tags and sources at any depth, source links from arrays, tags and "
        "multi-tags. For every tree: find_* from File, Block, every Section / Source with limits 0..depth+1 and None "
        "(>= 1 for File/Block starts) and filters all / none / by name / by type / by id; parent, parent_source, "
        "parent_block asked on the creation handle, a container-lookup handle, a found handle, a link-list handle, "
        "and after reopen; all referring_* lists. Oracle: tree model - expected search result = ids in breadth-first "
        "order (siblings in creation order, depth(start)=0 for Section/Source starts, top level = 1 for File/Block "
        "starts), filter applied, each id once; parent = model parent id or None; referring_X = inverse of the "
        "model's link relation restricted to kind X. Non-trivial: a name repeated in two different subtrees or "
        "levels, or depth >= 2 with 0 < limit < depth, or >= 2 referrers of different kinds; distinct by recipe hash.")
ASSUMPTIONS = [
    "find_*(limit=0) on a File or Block is unspecified (docs: 'maximum depth', top level is depth 1) and not asked",
    "referring lists are compared as multisets of ids (their order is not part of the statement)",
]

NAMES = ["a", "b", "c", "ü"]
TYPES = ["t1", "t2", "t3"]


class Node:
    def __init__(self, name, typ, parent, depth):
        self.name, self.typ, self.parent, self.depth = name, typ, parent, depth
        self.children = []
        self.id = None
        self.handle = None
        self.block = None

    def bfs(self, limit=None, include_self=True):
        out = []
        level = [(self, 0)] if include_self else [(c, 1) for c in self.children]
        queue = list(level)
        while queue:
            n, d = queue.pop(0)
            out.append(n)
            if limit is None or d + 1 <= limit:
                queue.extend((c, d + 1) for c in n.children)
        return out


def build_tree(spec, parent, depth, create, out, block=None):
    """spec: list of [name_idx, type_idx, children]"""
    seen = set()
    for nm, ty, kids in spec:
        name = NAMES[nm % len(NAMES)]
        if name in seen:
            continue
        seen.add(name)
        node = Node(name, TYPES[ty % len(TYPES)], parent, depth)
        node.block = block
        h = create(parent, node)
        node.id, node.handle = h.id, h
        if parent is not None:
            parent.children.append(node)
        out.append(node)
        build_tree(kids, node, depth + 1, create, out, block)
    return out


def max_depth(nodes):
    return max([n.depth for n in nodes] or [0])


def ids(lst):
    return [x.id for x in lst]


def run_case(case, ctx):
    import nixio
    path = os.path.join(ctx.workdir, "c13.nix")
    if os.path.exists(path):
        os.remove(path)
    f = nixio.File.open(path, nixio.FileMode.Overwrite)
    flags = set()
    try:
        # ------------------------------------------------ build
        secs = []
        top_secs = []

        def mksec(parent, node):
            h = f.create_section(node.name, node.typ) if parent is None else parent.handle.create_section(node.name, node.typ)
            if parent is None:
                top_secs.append(node)
            return h
        build_tree(case["sections"], None, 1, mksec, secs)
        blocks = []
        for bi, bspec in enumerate(case["blocks"]):
            blk = f.create_block("blk%d" % bi, "t")
            srcs, top = [], []

            def mksrc(parent, node, blk=blk, top=top):
                h = blk.create_source(node.name, node.typ) if parent is None else parent.handle.create_source(node.name, node.typ)
                if parent is None:
                    top.append(node)
                return h
            build_tree(bspec["sources"], None, 1, mksrc, srcs, block=bi)
            ents = {"block": [blk]}
            ents["array"] = [blk.create_data_array("da%d" % i, "t", data=np.arange(3.0)) for i in range(bspec["arrays"])]
            ents["group"] = [blk.create_group("g%d" % i, "t") for i in range(bspec["groups"])]
            ents["tag"] = [blk.create_tag("tg%d" % i, "t", [1.0]) for i in range(bspec["tags"])]
            ents["mtag"] = [blk.create_multi_tag("mt%d" % i, "t", positions=ents["array"][0])
                            for i in range(bspec["mtags"] if ents["array"] else 0)]
            blocks.append({"h": blk, "srcs": srcs, "top": top, "ents": ents, "id": blk.id})
        # links
        meta_of = {}        # (bi, kind, idx | source node id) -> section node
        for bi, kind, idx, si in case["meta_links"]:
            if not blocks or not secs:
                break
            b = blocks[bi % len(blocks)]
            sec = secs[si % len(secs)]
            if kind == "source":
                if not b["srcs"]:
                    continue
                tgt = b["srcs"][idx % len(b["srcs"])]
                tgt.handle.metadata = sec.handle
                meta_of[(bi % len(blocks), "source", tgt.id)] = sec
            else:
                lst = b["ents"].get(kind) or []
                if not lst:
                    continue
                e = lst[idx % len(lst)]
                e.metadata = sec.handle
                meta_of[(bi % len(blocks), kind, e.id)] = sec
        src_refs = {}       # source id -> {(kind, entity id)}
        for bi, kind, idx, si in case["src_links"]:
            if not blocks:
                break
            b = blocks[bi % len(blocks)]
            lst = b["ents"].get(kind) or []
            if not lst or not b["srcs"]:
                continue
            e = lst[idx % len(lst)]
            s = b["srcs"][si % len(b["srcs"])]
            e.sources.append(s.handle)
            src_refs.setdefault(s.id, set()).add((kind, e.id))

        all_nodes = []
        names_by = {}

        def recompute():
            del all_nodes[:]
            all_nodes.extend(secs + [s for b in blocks for s in b["srcs"]])
            names_by.clear()
            for n in all_nodes:
                names_by.setdefault((n.name, "sec" if n in secs else "src%d" % n.block), []).append(n)
            if any(len({id(x.parent) for x in v}) > 1 for v in names_by.values()):
                flags.add("name-repeated-across-subtrees")
        recompute()

        def entity_of(bi, kind, eid):
            b = blocks[bi]
            if kind == "source":
                n = [x for x in b["srcs"] if x.id == eid][0]
                chain = []
                x = n
                while x is not None:
                    chain.append(x)
                    x = x.parent
                h = f.blocks[bi].sources[chain[-1].name]
                for y in reversed(chain[:-1]):
                    h = h.sources[y.name]
                return h
            if kind == "block":
                return f.blocks[bi]
            cont = {"array": "data_arrays", "group": "groups", "tag": "tags", "mtag": "multi_tags"}[kind]
            return getattr(f.blocks[bi], cont)[eid]

        def drop_subtree(n, lst, tops):
            gone = n.bfs()
            for x in gone:
                lst.remove(x)
            if n.parent is not None:
                n.parent.children.remove(n)
            elif n in tops:
                tops.remove(n)
            return gone

        def sec_handle_of(n):
            chain = []
            x = n
            while x is not None:
                chain.append(x)
                x = x.parent
            h = f.sections[chain[-1].name]
            for y in reversed(chain[:-1]):
                h = h.sections[y.name]
            return h

        def mutate(muts):
            done = 0
            for kind, i, j, k in muts:
                if kind in ("unmeta", "remeta") and meta_of:
                    key = sorted(meta_of, key=lambda t: (t[0], t[1], str(t[2])))[i % len(meta_of)]
                    e = entity_of(*key)
                    if kind == "unmeta" or not secs:
                        del e.metadata
                        del meta_of[key]
                    else:
                        tgt = secs[j % len(secs)]
                        e.metadata = tgt.handle if k % 2 else f.find_sections(lambda x, t=tgt.id: x.id == t)[0]
                        meta_of[key] = tgt
                    flags.add("mut:" + kind)
                elif kind == "unsrc" and any(src_refs.values()):
                    pairs = sorted((sid, kk, eid) for sid, v in src_refs.items() for kk, eid in v)
                    sid, kk, eid = pairs[i % len(pairs)]
                    bi = [x for x, b in enumerate(blocks) if any(n.id == sid for n in b["srcs"])][0]
                    e = entity_of(bi, kk, eid)
                    del e.sources[sid]
                    src_refs[sid].discard((kk, eid))
                    flags.add("mut:unsrc")
                elif kind == "addsec":
                    parent = secs[i % len(secs)] if (secs and j % 4) else None
                    name = NAMES[k % len(NAMES)]
                    sib = parent.children if parent is not None else top_secs
                    if any(x.name == name for x in sib) or (parent is not None and parent.depth >= 5):
                        continue
                    node = Node(name, TYPES[k % len(TYPES)], parent, 1 if parent is None else parent.depth + 1)
                    h = mksec(parent, node)
                    node.id, node.handle = h.id, h
                    if parent is not None:
                        parent.children.append(node)
                    secs.append(node)
                    flags.add("mut:addsec")
                elif kind == "addsrc" and blocks:
                    bi = i % len(blocks)
                    b = blocks[bi]
                    parent = b["srcs"][j % len(b["srcs"])] if (b["srcs"] and j % 4) else None
                    name = NAMES[k % len(NAMES)]
                    sib = parent.children if parent is not None else b["top"]
                    if any(x.name == name for x in sib) or (parent is not None and parent.depth >= 5):
                        continue
                    node = Node(name, TYPES[k % len(TYPES)], parent, 1 if parent is None else parent.depth + 1)
                    node.block = bi
                    if parent is None:
                        h = f.blocks[bi].create_source(node.name, node.typ)
                        b["top"].append(node)
                    else:
                        h = parent.handle.create_source(node.name, node.typ)
                        parent.children.append(node)
                    node.id, node.handle = h.id, h
                    b["srcs"].append(node)
                    flags.add("mut:addsrc")
                elif kind == "copysec" and len(secs) > 1:
                    # an id-keeping copy (the default) of a subtree into another parent of the same file, then one
                    # more section below the copy: searches meet two sections of one id - both belong to the result
                    n = secs[i % len(secs)]
                    sub = set(id(x) for x in n.bfs())
                    cands = [x for x in secs if id(x) not in sub and x is not n.parent and x.depth < 5 and
                             not any(c.name == n.name for c in x.children)]
                    if not cands:
                        continue
                    dest = cands[j % len(cands)]
                    hcopy = dest.handle.copy_section(sec_handle_of(n)) if dest.handle is not None else None
                    if hcopy is None:
                        continue

                    def clone(src, parent, depth):
                        c = Node(src.name, src.typ, parent, depth)
                        c.id = src.id
                        parent.children.append(c)
                        secs.append(c)
                        for ch in src.children:
                            clone(ch, c, depth + 1)
                        return c
                    croot = clone(n, dest, dest.depth + 1)
                    croot.handle = hcopy
                    extra_name = [x for x in NAMES if not any(c.name == x for c in croot.children)]
                    if extra_name and croot.depth < 5:
                        node = Node(extra_name[0], TYPES[k % len(TYPES)], croot, croot.depth + 1)
                        h = hcopy.create_section(node.name, node.typ)
                        node.id, node.handle = h.id, h
                        croot.children.append(node)
                        secs.append(node)
                    flags.add("mut:copysec")
                    done += 1
                    break           # later deletes by id would be ambiguous
                elif kind == "delsec" and len(secs) > 1:
                    n = secs[i % len(secs)]
                    if n.parent is None and len(top_secs) == 1:
                        continue
                    cont = f.sections if n.parent is None else n.parent.handle.sections
                    if j % 2:
                        del cont[n.name]
                    else:
                        del cont[n.id]
                    gone = {x.id for x in drop_subtree(n, secs, top_secs)}
                    for key in [kk for kk, v in meta_of.items() if v.id in gone]:
                        del meta_of[key]
                    flags.add("mut:delsec")
                elif kind == "delsrc" and blocks:
                    pool = [x for b in blocks for x in b["srcs"]]
                    if not pool:
                        continue
                    n = pool[i % len(pool)]
                    b = blocks[n.block]
                    cont = f.blocks[n.block].sources if n.parent is None else n.parent.handle.sources
                    del cont[n.name]
                    gone = {x.id for x in drop_subtree(n, b["srcs"], b["top"])}
                    for sid in gone:
                        src_refs.pop(sid, None)
                    for key in [kk for kk in meta_of if kk[1] == "source" and kk[2] in gone]:
                        del meta_of[key]
                    flags.add("mut:delsrc")
                else:
                    continue
                done += 1
            return done

        def check_all(phase):
            # re-obtain handles by container lookup from the root (independent of creation handles)
            def sec_handle(n):
                chain = []
                x = n
                while x is not None:
                    chain.append(x)
                    x = x.parent
                h = f.sections[chain[-1].name]
                for y in reversed(chain[:-1]):
                    h = h.sections[y.name]
                return h

            def src_handle(n):
                chain = []
                x = n
                while x is not None:
                    chain.append(x)
                    x = x.parent
                h = f.blocks[n.block].sources[chain[-1].name]
                for y in reversed(chain[:-1]):
                    h = h.sources[y.name]
                return h

            # ---------------- searches
            for q in case["queries"]:
                kind = q["start"]
                if kind == "file":
                    starts = [("file", None)]
                elif kind == "block":
                    starts = [("block", bi) for bi in range(len(blocks))]
                elif kind == "section":
                    starts = [("section", secs[q["i"] % len(secs)])] if secs else []
                else:
                    pool = [s for b in blocks for s in b["srcs"]]
                    starts = [("source", pool[q["i"] % len(pool)])] if pool else []
                for sk, sv in starts:
                    limit = q["limit"]
                    if sk in ("file", "block") and limit is not None and limit < 1:
                        continue
                    if sk == "file":
                        roots, obj, tree = top_secs, f, secs
                    elif sk == "block":
                        roots, obj, tree = blocks[sv]["top"], f.blocks[sv], blocks[sv]["srcs"]
                    elif sk == "section":
                        roots, obj, tree = None, (sv.handle if phase != "reopened" and q.get("cached") and sv.handle is not None else sec_handle(sv)), secs
                    else:
                        roots, obj, tree = None, (sv.handle if phase != "reopened" and q.get("cached") else src_handle(sv)), None
                    if roots is not None:
                        exp = []
                        queue = [(r, 1) for r in roots]
                        while queue:
                            n, d = queue.pop(0)
                            exp.append(n)
                            if limit is None or d + 1 <= limit:
                                queue.extend((c, d + 1) for c in n.children)
                    else:
                        exp = sv.bfs(limit)
                    fk = q["filter"]
                    pool = exp
                    if fk == "none":
                        filt, exp = (lambda x: False), []
                    elif fk == "name":
                        nm = NAMES[q["arg"] % len(NAMES)]
                        filt, exp = (lambda x, nm=nm: x.name == nm), [n for n in exp if n.name == nm]
                    elif fk == "type":
                        ty = TYPES[q["arg"] % len(TYPES)]
                        filt, exp = (lambda x, ty=ty: x.type == ty), [n for n in exp if n.typ == ty]
                    elif fk == "id":
                        cand = (secs if sk in ("file", "section") else [s for b in blocks for s in b["srcs"]])
                        if not cand:
                            continue
                        tid = cand[q["arg"] % len(cand)].id
                        filt, exp = (lambda x, tid=tid: x.id == tid), [n for n in exp if n.id == tid]
                    else:
                        filt = lambda x: True  # noqa: E731
                    fn = obj.find_sections if sk in ("file", "section") else obj.find_sources
                    try:
                        got = fn(filtr=filt, limit=limit) if limit is not None else fn(filtr=filt)
                    except Exception as exc:  # noqa
                        ctx.violation("C13/find/%s/raises" % sk, case, {"raised": type(exc).__name__, "q": q, "phase": phase})
                        continue
                    depth_cls = "limited" if (limit is not None and pool and limit < max_depth(pool) - (0 if sk in ("file", "block") else 0)) else "unlimited"
                    if limit is not None and limit >= 1 and pool and max_depth(all_nodes) >= 2:
                        flags.add("depth-limited-search")
                    if ids(got) != ids(exp):
                        order = sorted(ids(got)) == sorted(ids(exp))
                        ctx.violation("C13/find/%s/%s/%s" % (sk, "order" if order else "membership", depth_cls), case,
                                      {"q": q, "phase": phase, "want": [n.name for n in exp], "got": [g.name for g in got],
                                       "want_ids": ids(exp)[:6], "got_ids": ids(got)[:6]})
            # ---------------- related sections: a search of depth one around a section (parent, siblings, children; the
            # section itself may or may not be listed) - only sections at distance <= 1 of the parent / the section, each
            # once, every parent / sibling / child that satisfies the filter present
            dup_ids = {n.id for n in secs if sum(1 for m in secs if m.id == n.id) > 1}
            for n in secs[:: max(1, len(secs) // 6)]:
                if n.id in dup_ids or (n.parent is not None and n.parent.id in dup_ids):
                    continue
                sibs = (n.parent.children if n.parent is not None else [])
                must = ([n.parent] if n.parent is not None else []) + [x for x in sibs if x is not n] + list(n.children)
                allowed = {x.id for x in must} | {n.id}
                for fk in ("all", "type"):
                    ty = TYPES[len(n.name) % len(TYPES)]
                    filt = (lambda x: True) if fk == "all" else (lambda x, ty=ty: x.type == ty)
                    want = [x for x in must if fk == "all" or x.typ == ty]
                    try:
                        got = sec_handle(n).find_related(filtr=filt) if fk == "type" else sec_handle(n).find_related()
                    except Exception as exc:  # noqa
                        ctx.violation("C13/find_related/raises", case, {"raised": type(exc).__name__, "phase": phase})
                        continue
                    gids = ids(got)
                    probs = []
                    if any(gids.count(g) > 1 for g in set(gids) if g not in dup_ids):
                        probs.append("listed-twice")       # (an id-keeping copy shares its id with the original)
                    if any(g not in allowed for g in gids):
                        probs.append("not-related")
                    if any(x.id not in gids for x in want if x.id not in dup_ids):
                        probs.append("related-missing")
                    if fk == "type" and any(g.type != ty for g in got):
                        probs.append("filter-ignored")
                    flags.add("find_related")
                    if probs:
                        ctx.violation("C13/find_related/" + "+".join(probs), case,
                                      {"section": n.name, "phase": phase, "got": [g.name for g in got],
                                       "must": [x.name for x in want], "filter": fk})
            # ---------------- parents
            mult = {}
            for n in secs:
                mult[n.id] = mult.get(n.id, 0) + 1
            for n in secs:
                want = n.parent.id if n.parent else None
                handles = [("lookup", sec_handle(n))]
                if phase != "reopened" and n.handle is not None:
                    handles.append(("creation", n.handle))
                found = f.find_sections(lambda s, i=n.id: s.id == i)
                if len(found) != mult[n.id]:
                    # an id-keeping copy shares the id with its original: both are entities of the tree
                    ctx.violation("C13/find/file/by-id-count", case, {"n": len(found), "want": mult[n.id], "phase": phase})
                elif mult[n.id] == 1:
                    handles.append(("found", found[0]))
                for (bi, kind, eid), sec in meta_of.items():
                    if sec is n:
                        b = blocks[bi]
                        if kind == "source":
                            src = [s for s in b["srcs"] if s.id == eid][0]
                            handles.append(("metadata-link", src_handle(src).metadata))
                        elif kind == "block":
                            handles.append(("metadata-link", f.blocks[bi].metadata))
                        else:
                            cont = {"array": "data_arrays", "group": "groups", "tag": "tags", "mtag": "multi_tags"}[kind]
                            handles.append(("metadata-link", getattr(f.blocks[bi], cont)[eid].metadata))
                        break
                for label, h in handles:
                    try:
                        p = h.parent
                        got = p.id if p is not None else None
                    except Exception as exc:  # noqa
                        got = "raised:" + type(exc).__name__
                    if got != want:
                        rep = "name-reused-in-other-subtree" if len(names_by[(n.name, "sec")]) > 1 else "unique-name"
                        ctx.violation("C13/parent/section/%s/%s" % (label, rep), case,
                                      {"section": n.name, "depth": n.depth, "want": want, "got": got, "phase": phase})
            for bi, b in enumerate(blocks):
                for n in b["srcs"]:
                    want = n.parent.id if n.parent else None
                    handles = [("lookup", src_handle(n))]
                    if phase != "reopened":
                        handles.append(("creation", n.handle))
                    found = f.blocks[bi].find_sources(lambda s, i=n.id: s.id == i)
                    if len(found) == 1:
                        handles.append(("found", found[0]))
                    else:
                        ctx.violation("C13/find/block/by-id-count", case, {"n": len(found), "phase": phase})
                    for (kind, eid) in sorted(src_refs.get(n.id, ())):
                        cont = {"array": "data_arrays", "tag": "tags", "mtag": "multi_tags"}[kind]
                        handles.append(("link-list", getattr(f.blocks[bi], cont)[eid].sources[n.id]))
                        break
                    for label, h in handles:
                        rep = "name-reused-in-other-subtree" if len(names_by[(n.name, "src%d" % bi)]) > 1 else "unique-name"
                        try:
                            p = h.parent_source
                            got = p.id if p is not None else None
                        except Exception as exc:  # noqa
                            got = "raised:" + type(exc).__name__
                        if got != want:
                            ctx.violation("C13/parent_source/%s/%s" % (label, rep), case,
                                          {"source": n.name, "depth": n.depth, "want": want, "got": got, "phase": phase})
                        try:
                            pb = h.parent_block
                            gotb = pb.id if pb is not None else None
                        except Exception as exc:  # noqa
                            gotb = "raised:" + type(exc).__name__
                        if gotb != b["id"]:
                            ctx.violation("C13/parent_block/%s/%s" % (label, rep), case,
                                          {"source": n.name, "want": b["id"], "got": gotb, "phase": phase})
            # ---------------- referring lists
            for n in secs:
                if mult[n.id] > 1:
                    continue        # which of several sections of one id a metadata link denotes is C05's subject
                h = sec_handle(n)
                want = {"blocks": [], "groups": [], "data_arrays": [], "tags": [], "multi_tags": [], "sources": []}
                kmap = {"block": "blocks", "group": "groups", "array": "data_arrays", "tag": "tags", "mtag": "multi_tags",
                        "source": "sources"}
                nested_src = False
                for (bi, kind, eid), sec in meta_of.items():
                    if sec is n:
                        want[kmap[kind]].append(eid)
                        if kind == "source" and [s for s in blocks[bi]["srcs"] if s.id == eid][0].depth > 1:
                            nested_src = True
                kinds_with = sum(1 for v in want.values() if v)
                if kinds_with >= 2:
                    flags.add("referrers-of-several-kinds")
                total = []
                for role, wl in want.items():
                    try:
                        got = ids(getattr(h, "referring_" + role))
                    except Exception as exc:  # noqa
                        got = ["raised:" + type(exc).__name__]
                    total.extend(wl)
                    if sorted(got) != sorted(wl):
                        cls = "nested-source" if (role == "sources" and nested_src) else "plain"
                        ctx.violation("C13/referring_%s/section/%s" % (role, cls), case,
                                      {"section": n.name, "want": sorted(wl), "got": sorted(got), "phase": phase})
                try:
                    got = ids(h.referring_objects)
                except Exception as exc:  # noqa
                    got = ["raised:" + type(exc).__name__]
                if sorted(got) != sorted(total):
                    ctx.violation("C13/referring_objects/section/%s" % ("nested-source" if nested_src else "plain"), case,
                                  {"section": n.name, "want": sorted(total), "got": sorted(got), "phase": phase})
            for bi, b in enumerate(blocks):
                for n in b["srcs"]:
                    h = src_handle(n)
                    refs = src_refs.get(n.id, set())
                    want = {"data_arrays": [e for k, e in refs if k == "array"], "tags": [e for k, e in refs if k == "tag"],
                            "multi_tags": [e for k, e in refs if k == "mtag"]}
                    if sum(1 for v in want.values() if v) >= 2:
                        flags.add("referrers-of-several-kinds")
                    total = []
                    for role, wl in want.items():
                        try:
                            got = ids(getattr(h, "referring_" + role))
                        except Exception as exc:  # noqa
                            got = ["raised:" + type(exc).__name__]
                        total.extend(wl)
                        if sorted(got) != sorted(wl):
                            ctx.violation("C13/referring_%s/source/%s" % (role, "nested" if n.depth > 1 else "top"), case,
                                          {"source": n.name, "want": sorted(wl), "got": sorted(got), "phase": phase})
                    try:
                        got = ids(h.referring_objects)
                    except Exception as exc:  # noqa
                        got = ["raised:" + type(exc).__name__]
                    if sorted(got) != sorted(total):
                        ctx.violation("C13/referring_objects/source/%s" % ("nested" if n.depth > 1 else "top"), case,
                                      {"source": n.name, "want": sorted(total), "got": sorted(got), "phase": phase})

        check_all("session")
        # ---------------- the stored structure changes; everything is asked again in the same session
        # (searches, parents and referring lists must reflect the links CURRENTLY stored, not what an earlier
        # query saw), through the same creation handles and fresh ones
        applied = mutate(case.get("mutations", []))
        if applied:
            recompute()
            flags.add("asked-again-after-mutation")
            check_all("mutated")
        f.close()
        f = nixio.File.open(path, nixio.FileMode.ReadOnly)
        check_all("reopened")
        flags.add("depth:%d" % min(4, max_depth(all_nodes)))
    finally:
        try:
            f.close()
        except Exception:  # noqa
            pass
        try:
            os.remove(path)
        except OSError:
            pass
    nt = bool(flags & {"name-repeated-across-subtrees", "depth-limited-search", "referrers-of-several-kinds"})
    ctx.case(case, nt, sorted(flags) or ["none"])


def tree_strategy(max_depth_=4, branching=3):
    leaf = st.tuples(st.integers(0, 3), st.integers(0, 2), st.just([])).map(list)

    def extend(children):
        return st.tuples(st.integers(0, 3), st.integers(0, 2), st.lists(children, max_size=branching)).map(list)
    node = st.recursive(leaf, extend, max_leaves=12)
    return st.lists(node, min_size=1, max_size=branching)


def case_strategy():
    I = st.integers(0, 9)
    query = st.fixed_dictionaries({
        "start": st.sampled_from(["file", "block", "section", "section", "source", "source"]),
        "i": I, "limit": st.one_of(st.none(), st.integers(0, 5)),
        "filter": st.sampled_from(["all", "all", "none", "name", "type", "id"]), "arg": I, "cached": st.booleans()})
    blockspec = st.fixed_dictionaries({"sources": tree_strategy(), "arrays": st.integers(0, 3), "groups": st.integers(0, 2),
                                       "tags": st.integers(0, 2), "mtags": st.integers(0, 2)})
    link_kinds = st.sampled_from(["block", "group", "array", "tag", "mtag", "source", "source"])
    return st.fixed_dictionaries({
        "sections": tree_strategy(),
        "blocks": st.lists(blockspec, min_size=1, max_size=2),
        "meta_links": st.lists(st.tuples(I, link_kinds, I, I).map(list), max_size=10),
        "src_links": st.lists(st.tuples(I, st.sampled_from(["array", "tag", "mtag"]), I, I).map(list), max_size=8),
        "queries": st.lists(query, min_size=3, max_size=12),
        "mutations": st.lists(st.tuples(st.sampled_from(["unmeta", "remeta", "remeta", "unsrc", "addsec", "addsrc", "delsec",
                                                         "delsrc", "copysec", "copysec"]), I, I, I).map(list), max_size=5)})


def shards(tier, seed):
    n, per = (16, 12) if tier == "quick" else (64, 125)
    return [{"n": per, "seed": seed * 1000 + i} for i in range(n)]


def run_shard(spec, ctx):
    gen.generate(case_strategy(), spec["n"], spec["seed"], lambda c: run_case(c, ctx))


def replay(case, ctx):
    run_case(case, ctx)


def valid(case):
    def ok_tree(t, d=1):
        return isinstance(t, list) and d <= 6 and all(isinstance(n, list) and len(n) == 3 and isinstance(n[0], int)
                                                      and isinstance(n[1], int) and ok_tree(n[2], d + 1) for n in t)
    try:
        return (ok_tree(case["sections"]) and len(case["sections"]) >= 1 and len(case["blocks"]) >= 1 and
                all(ok_tree(b["sources"]) and all(b[k] >= 0 for k in ("arrays", "groups", "tags", "mtags"))
                    for b in case["blocks"]) and len(case["queries"]) >= 1 and
                all(q["limit"] is None or q["limit"] >= 0 for q in case["queries"]))
    except Exception:  # noqa
        return False
