# -*- coding: utf-8 -*-
"""C03 - names are unique per parent, ids are unique and stable, all lookups agree (DESIGN 4/C03)."""
import os
import uuid

from hypothesis import strategies as st

from vlib import gen, ops
from vlib import interp as interp_mod
from vlib.interp import CONTAINER, LINK_ROLES, Interp

ID = "C03"
LEVEL = "exploration"
RULE = ("Hypothesis-generated programs of create / delete / link / unlink / reopen ops over every container "
        "kind (blocks, arrays, frames, tags, multi-tags, groups, sources and sections at any depth, properties, "
        "features, link lists), with names that sort differently from creation order, non-ASCII names, names of "
        "1-1000 characters, leading/trailing blanks, '..', names equal to another entity's id, 32-hex-digit and "
        "UUID-text names, and a small pool forcing duplicate attempts. Oracle: per container an ordered model "
        "list of (name, id); at checkpoints len, iteration order, c[i] / c[-i] for all i, out-of-range indices, "
        "c[name], c[id], membership by name / id / entity, absent keys, items(); duplicate create => "
        "DuplicateName and unchanged container, every other legal name accepted; ids well-formed, pairwise "
        "distinct in the file, equal through every handle and after reopen. Non-trivial: a delete followed by a "
        "create in the same container, or a name sorting before an earlier sibling, or an id-like name; "
        "distinct by program hash.")
ASSUMPTIONS = [
    "legal names: non-empty, no '/', not '.', no NUL (as in the statement)",
    "re-appending an existing member of a link list may keep or move its position",
    "feature containers are addressed by id/index only (features have no name)",
]

NAME_OPS = ("mk_block", "mk_section", "mk_prop", "mk_group", "mk_array", "mk_frame", "mk_tag", "mk_mtag",
            "mk_source")


def special_names():
    hex32 = st.text(alphabet="0123456789abcdef", min_size=32, max_size=32)
    return st.one_of(
        st.sampled_from(["z", "y", "x", "b", "a", "A", "Z", "0", "~", " a", "a ", " ", "..", "...", "a.b", "#", "%s",
                         "ü", "Ü", "日本", "😀", "a\\b", "a:b", "name with blanks", "-", "_"]),
        gen.names(),
        # distinct names that only differ by Unicode normalisation form, case or blanks: both of a pair are legal
        # in one parent and name different entities
        st.sampled_from(["e\u0301", "\u00e9", "\u2126", "\u03a9", "\u212b", "\u00c5", "a\u0308", "\u00e4", "\ufb01", "fi",
                         "K", "\u212a", "x", "X", "x ", " x"]),
        st.tuples(st.sampled_from(["ab", "x", "ü", "0123456789"]), st.sampled_from([50, 255, 256, 1000])).map(
            lambda t: {"rep": [t[0], t[1] // len(t[0])]}),
        hex32,
        hex32.map(lambda h: str(uuid.UUID(h))),
        st.tuples(st.sampled_from(["block", "array", "section", "tag", "source", "group"]), st.integers(0, 5)).map(
            lambda t: {"id_of": list(t)}),     # resolved only against entities of ANOTHER kind (no ambiguity)
    )


def resolve_name(name, it):
    if isinstance(name, dict):
        if "rep" in name:
            return name["rep"][0] * name["rep"][1]
        if "id_of" in name:
            e = it.pick(name["id_of"][0], name["id_of"][1])
            return e.id if e is not None else "no-such-entity"
    return name


def idlike(name):
    try:
        uuid.UUID(str(name))
        return True
    except ValueError:
        return False


# ------------------------------------------------------------------ container checks

def check_container(ctx, case, where, label, cont, members, keyed_by_name=True, ordered=True, cls="plain"):
    """members: list of (name, id).  ``cont`` is the real container."""
    def v(sub, detail):
        d = dict(detail)
        d.update(container=label, where=where)
        ctx.violation("C03/%s/%s" % (sub, cls), case, d)

    n = len(members)
    try:
        if len(cont) != n:
            v("len", {"want": n, "got": len(cont)})
            return
        got = [(x.name if keyed_by_name else x.id, x.id) for x in cont]
    except Exception as exc:  # noqa
        v("iteration-raises", {"raised": type(exc).__name__, "msg": str(exc)[:100]})
        return
    want = list(members)
    if not ordered:
        got_cmp, want_cmp = sorted(got), sorted(want)
    else:
        got_cmp, want_cmp = got, want
    if got_cmp != want_cmp:
        v("iteration-order", {"want": [m[0][:20] for m in want], "got": [g[0][:20] for g in got]})
        return
    order = got          # for link lists with re-appends the real order is the reference
    for i, (nm, eid) in enumerate(order):
        for idx in (i, i - n):
            try:
                e = cont[idx]
                if e.id != eid:
                    v("index-lookup", {"index": idx, "want": eid, "got": e.id})
            except Exception as exc:  # noqa
                v("index-lookup", {"index": idx, "raised": type(exc).__name__})
        try:
            e = cont[eid]
            if e.id != eid:
                v("id-lookup", {"id": eid, "got": e.id})
        except Exception as exc:  # noqa
            v("id-lookup", {"id": eid, "raised": type(exc).__name__})
        ncls = "name-parses-as-uuid" if idlike(nm) else cls
        if keyed_by_name:
            try:
                e = cont[nm]
                # a link list may hold several members of one name (sources from different levels of the
                # tree): a lookup by that name may answer with any of them, but only with a member
                same = {i2 for n2, i2 in order if n2 == nm}
                if e.id != eid and not ("(links)" in label and e.id in same):
                    ctx.violation("C03/name-lookup/%s" % ncls, case,
                                  {"container": label, "where": where, "name": nm[:40], "want": eid, "got": e.id})
            except Exception as exc:  # noqa
                ctx.violation("C03/name-lookup/%s" % ncls, case,
                              {"container": label, "where": where, "name": nm[:40], "raised": type(exc).__name__})
            try:
                if nm not in cont:
                    ctx.violation("C03/contains-name/%s" % ncls, case,
                                  {"container": label, "where": where, "name": nm[:40], "got": False})
            except Exception as exc:  # noqa
                ctx.violation("C03/contains-name/%s" % ncls, case,
                              {"container": label, "where": where, "name": nm[:40], "raised": type(exc).__name__})
        try:
            if eid not in cont:
                v("contains-id", {"id": eid, "got": False})
            if e is not None and e not in cont:
                v("contains-entity", {"id": eid, "got": False})
        except Exception as exc:  # noqa
            v("contains-id", {"id": eid, "raised": type(exc).__name__})
    for idx in (n, -n - 1):
        try:
            cont[idx]
            v("index-out-of-range-accepted", {"index": idx})
        except IndexError:
            pass
        except Exception as exc:  # noqa
            v("index-out-of-range-wrong-error", {"index": idx, "raised": type(exc).__name__})
    names = {m[0] for m in members}
    for absent in ("no such name", str(uuid.UUID(int=12345))):
        if absent in names:
            continue
        try:
            if absent in cont:
                v("contains-absent", {"key": absent})
        except Exception as exc:  # noqa
            v("contains-absent", {"key": absent, "raised": type(exc).__name__})
        try:
            cont[absent]
            v("lookup-absent-succeeds", {"key": absent})
        except KeyError:
            pass
        except Exception as exc:  # noqa
            v("lookup-absent-wrong-error", {"key": absent, "raised": type(exc).__name__})
    try:
        it = [(k, x.id) for k, x in cont.items()]
        if [p[1] for p in it] != [g[1] for g in order] or any(k != x for k, x in it):
            v("items", {"got": it[:5]})
    except Exception as exc:  # noqa
        v("items", {"raised": type(exc).__name__})


def checkpoint(it, ctx, case, where):
    seen_ids = {}
    ents = [it.root] + [e for e in it.ents if e.alive]
    for e in ents:
        try:
            h = it.handle(e, "name") if e is not it.root else it.f
        except Exception as exc:  # noqa
            cls = "name-parses-as-uuid" if any(idlike(p.name) for p in _chain(e)) else "plain"
            ctx.violation("C03/handle-by-name/%s" % cls, case,
                          {"entity": e.path()[:120], "raised": type(exc).__name__, "where": where})
            continue
        if e is not it.root:
            # id: well-formed, stable, unique
            try:
                hid = h.id
            except Exception as exc:  # noqa
                ctx.violation("C03/id/unreadable", case, {"entity": e.path()[:120], "raised": type(exc).__name__})
                continue
            if hid != e.id:
                ctx.violation("C03/id/changed", case, {"entity": e.path()[:120], "was": e.id, "now": hid, "where": where})
            try:
                if str(uuid.UUID(hid)) != hid:
                    ctx.violation("C03/id/not-canonical-uuid", case, {"id": hid})
            except (ValueError, TypeError, AttributeError):
                ctx.violation("C03/id/not-a-uuid", case, {"id": repr(hid)[:60]})
            if hid in seen_ids:
                ctx.violation("C03/id/duplicate", case, {"a": seen_ids[hid], "b": e.path()[:120]})
            seen_ids[hid] = e.path()[:120]
        cls = "under-uuid-named-parent" if (e is not it.root and any(idlike(p.name) for p in _chain(e))) else "plain"
        for role, lst in e.children.items():
            try:
                cont = getattr(h, role)
            except Exception as exc:  # noqa
                ctx.violation("C03/container-unreachable/" + cls, case, {"entity": e.path()[:120], "role": role,
                                                                       "raised": type(exc).__name__})
                continue
            members = [(c.name, c.id) for c in lst]
            if role == "features" and any(c.single.get("data") == "dangling" for c in lst):
                # a feature whose data array was deleted is C04's subject; its container scans feat.data
                ctx.count("feature-container-with-dangling-data-skipped")
                continue
            check_container(ctx, case, where, "%s.%s" % (e.kind, role), cont, members,
                            keyed_by_name=(role != "features"), cls=cls)
        for role in LINK_ROLES.get(e.kind, {}):
            lst = e.links.get(role, [])
            cont = getattr(h, role)
            members = [(c.name, c.id) for c in lst]
            check_container(ctx, case, where, "%s.%s(links)" % (e.kind, role), cont, members,
                            ordered=role not in e.info.get("relinked", ()), cls=cls)
            # a handle obtained THROUGH the link list denotes a member of the container that owns the entity:
            # membership does not depend on the path the handle came from
            try:
                via = list(cont)
            except Exception:  # noqa (reported above)
                via = []
            for m, c in zip(via, lst):
                if m.id != c.id or not c.alive:
                    continue
                try:
                    owner = it.container_of(c)
                    ok = m in owner
                except Exception as exc:  # noqa
                    ctx.violation("C03/contains-entity-obtained-through-link/%s" % cls, case,
                                  {"link": "%s.%s" % (e.kind, role), "member": c.path()[:100], "raised": type(exc).__name__,
                                   "where": where})
                    continue
                ctx.count("membership-of-a-handle-obtained-through-a-link")
                if not ok:
                    ctx.violation("C03/contains-entity-obtained-through-link/%s" % cls, case,
                                  {"link": "%s.%s" % (e.kind, role), "member": c.path()[:100], "got": False, "where": where})
        if e is not it.root and e.kind in interp_mod.META_KINDS:
            tgt = e.single.get("metadata")
            if tgt is not None and tgt != "dangling" and getattr(tgt, "alive", False):
                try:
                    mh = h.metadata
                    if mh is not None and mh.id == tgt.id:
                        ctx.count("membership-of-a-handle-obtained-through-a-link")
                        if mh not in it.container_of(tgt):
                            ctx.violation("C03/contains-entity-obtained-through-link/%s" % cls, case,
                                          {"link": "%s.metadata" % e.kind, "member": tgt.path()[:100], "got": False,
                                           "where": where})
                except Exception as exc:  # noqa
                    ctx.violation("C03/contains-entity-obtained-through-link/%s" % cls, case,
                                  {"link": "%s.metadata" % e.kind, "raised": type(exc).__name__, "where": where})


def _chain(e):
    out = []
    while e is not None and e.kind != "file":
        out.append(e)
        e = e.parent
    return out


def run_case(case, ctx):
    path = os.path.join(ctx.workdir, "c03.nix")
    if os.path.exists(path):
        os.remove(path)
    it = Interp(path, policy=case.get("policy", "fresh"))
    prog = case["prog"]
    nontrivial = False
    deleted_in = set()
    flags = set()
    last_created = None
    try:
        nsteps = 0
        for i, op in enumerate(prog):
            if op["op"] == "reopen":
                checkpoint(it, ctx, case, "op%d:before-reopen" % i)
                it.reopen(op.get("mode", "a"))
                if op.get("mode") == "r":
                    checkpoint(it, ctx, case, "op%d:read-only" % i)
                    it.reopen("a")
                checkpoint(it, ctx, case, "op%d:after-reopen" % i)
                flags.add("reopen")
                continue
            if op["op"] == "dup_last":
                if last_created is not None and last_created.alive:
                    st_ = _dup_attempt(it, last_created, op.get("how", "name"))
                    flags.add("duplicate-attempt")
                    if st_ != "DuplicateName":
                        ncls = "name-parses-as-uuid" if idlike(last_created.name) else "plain"
                        ctx.violation("C03/duplicate-name-not-refused/%s/%s" % (last_created.kind, ncls), case,
                                      {"op": i, "status": st_, "entity": last_created.path()[:120]})
                        if st_ == "ok":
                            break      # the file now holds a clobbered entity; stop this program
                    checkpoint(it, ctx, case, "op%d:after-duplicate-attempt" % i)
                continue
            op = dict(op)
            expect_dup = None
            n_before = len(it.ents)
            if op["op"] in NAME_OPS:
                if isinstance(op["name"], dict) and "id_of" in op["name"] and op["name"]["id_of"][0] == _kind_of(op):
                    # a name equal to the id of a sibling is genuinely ambiguous: out of domain
                    op["name"] = {"id_of": ["block" if _kind_of(op) != "block" else "section",
                                            op["name"]["id_of"][1]]}
                op["name"] = resolve_name(op["name"], it)
                parent = _target_parent(it, op)
                if parent is not None:
                    sib = parent.children.get(CONTAINER[_kind_of(op)], [])
                    expect_dup = any(s.name == op["name"] for s in sib)
                    if sib and op["name"] < max(s.name for s in sib):
                        nontrivial = True
                        flags.add("name-sorts-before-sibling")
                    if (id(parent), _kind_of(op)) in deleted_in:
                        nontrivial = True
                        flags.add("create-after-delete")
                if idlike(op["name"]):
                    nontrivial = True
                    flags.add("id-like-name")
            before = _snapshot(it, op) if expect_dup else None
            st_ = it.step(op)
            nsteps += 1
            if op["op"] in NAME_OPS and expect_dup is not None and st_ != "skip":
                ncls = "name-parses-as-uuid" if idlike(op["name"]) else "plain"
                if expect_dup:
                    if st_ != "raised:DuplicateName":
                        ctx.violation("C03/duplicate-name-not-refused/%s/%s" % (op["op"], ncls), case,
                                      {"op": i, "status": st_, "name": op["name"][:40]})
                        if st_ == "ok":
                            # the model now holds two entries; drop the newest to stay in sync with a
                            # container that can only hold one link of that name
                            _resync_after_dup(it, op)
                    flags.add("duplicate-attempt")
                elif st_ != "ok":
                    ctx.violation("C03/legal-name-refused/%s/%s" % (op["op"], ncls), case,
                                  {"op": i, "status": st_, "name": op["name"][:40],
                                   "msg": str(getattr(it, "last_exc", ""))[:120]})
            if op["op"] in NAME_OPS and st_ == "ok" and len(it.ents) > n_before:
                last_created = [e for e in it.ents[n_before:] if e.kind == _kind_of(op)][-1]
            if op["op"] == "del" and st_ == "ok":
                deleted_in.update(_del_marks(it))
            if st_.startswith("raised") and op["op"] == "del":
                e = it.pick(op["k"], op["t"])
                ncls = "name-parses-as-uuid" if (e is not None and any(idlike(p.name) for p in _chain(e))) else "plain"
                ctx.violation("C03/delete-refused/%s/%s" % (op.get("how", "name"), ncls), case,
                              {"op": i, "status": st_, "msg": str(getattr(it, "last_exc", ""))[:120]})
            if len(prog) <= 12 or nsteps % 4 == 0:
                checkpoint(it, ctx, case, "op%d" % i)
        checkpoint(it, ctx, case, "end")
        it.reopen("a")
        checkpoint(it, ctx, case, "end:after-reopen")
    finally:
        it.close()
        try:
            os.remove(path)
        except OSError:
            pass
    flags.add("handles:" + case.get("policy", "fresh"))
    ctx.case(case, nontrivial, sorted(flags) or ["none"],
             sample={"prog": case["prog"][:10], "len": len(case["prog"])})


def _dup_attempt(it, ent, how):
    """try to create a second entity named like ``ent`` in ent's parent; returns the outcome"""
    import numpy as np
    try:
        ph = it.handle(ent.parent, how) if ent.parent is not it.root else it.f
    except Exception as exc:  # noqa
        # an existing entity (the parent) cannot be retrieved through the requested key
        return "parent-not-retrievable:%s:%s" % (how, type(exc).__name__)
    name = ent.name
    try:
        if ent.kind == "block":
            it.f.create_block(name, "dup")
        elif ent.kind == "section":
            ph.create_section(name, "dup")
        elif ent.kind == "prop":
            ph.create_property(name, [1])
        elif ent.kind == "group":
            ph.create_group(name, "dup")
        elif ent.kind == "array":
            ph.create_data_array(name, "dup", data=np.array([1.0]))
        elif ent.kind == "frame":
            ph.create_data_frame(name, "dup", col_dict={"a": int})
        elif ent.kind == "tag":
            ph.create_tag(name, "dup", [0.0])
        elif ent.kind == "mtag":
            pos = ent.single.get("positions")
            if pos in (None, "dangling") or not pos.alive:       # its positions array was deleted meanwhile
                ph.create_multi_tag(name, "dup", positions=[[1.0]])
            else:
                ph.create_multi_tag(name, "dup", positions=it.handle(pos))
        elif ent.kind == "source":
            ph.create_source(name, "dup")
        else:
            return "DuplicateName"
    except Exception as exc:  # noqa
        return type(exc).__name__
    return "ok"


def _kind_of(op):
    return {"mk_block": "block", "mk_section": "section", "mk_prop": "prop", "mk_group": "group",
            "mk_array": "array", "mk_frame": "frame", "mk_tag": "tag", "mk_mtag": "mtag",
            "mk_source": "source"}[op["op"]]


def _target_parent(it, op):
    k = op["op"]
    if k == "mk_block":
        return it.root
    if k == "mk_section":
        p = it.pick("section", op.get("p")) if op.get("p") is not None else None
        return p or it.root
    if k == "mk_prop":
        return it.pick("section", op["sec"])
    blk = it.pick("block", op["blk"])
    if blk is None:
        return None
    if k == "mk_source" and op.get("p") is not None:
        return it.pick("source", op.get("p"), lambda s: s.block() is blk) or blk
    return blk


_last_marks = []


def _snapshot(it, op):
    return None


def _del_marks(it):
    # containers in which something was just deleted: (parent identity, kind)
    marks = set()
    for e in it.ents:
        if not e.alive and getattr(e, "_c03_marked", False) is False:
            try:
                e.info["_c03_marked"] = True
            except Exception:  # noqa
                pass
            marks.add((id(e.parent), e.kind))
    return marks


def _resync_after_dup(it, op):
    kind = _kind_of(op)
    newest = [e for e in it.ents if e.alive and e.kind == kind and e.name == op["name"]]
    if len(newest) >= 2:
        old = newest[0]
        it._kill(old)


ENABLED = (["mk_block", "mk_section", "mk_section", "mk_prop", "mk_group", "mk_array_ul", "mk_frame", "mk_tag",
            "mk_mtag", "mk_source", "mk_source", "mk_feature"] * 2 +
           ["link", "link", "unlink", "del", "del", "del", "reopen"])


@st.composite
def case_strategy(draw, max_ops):
    prog = draw(ops.program(ENABLED, min_size=max(4, max_ops // 2), max_size=max_ops, name_pool=["a", "b", "c"]))
    sn = special_names()
    out = []
    for op in prog:
        if op["op"] in NAME_OPS and draw(st.integers(0, 2)) > 0:
            op = dict(op)
            op["name"] = draw(sn)
        out.append(op)
        if op["op"] in NAME_OPS and draw(st.integers(0, 3)) == 0:
            # duplicate attempt in the same parent as the entity just created
            out.append({"op": "dup_last", "how": draw(ops.HOW)})
    if draw(st.integers(0, 2)) == 0:
        # a source tree that repeats one name at several levels, with NESTED sources in the link lists while
        # their top-level namesakes are not: name lookups on a link list concern its members only
        nm = draw(st.sampled_from(["s", "src", "\u00fc", "e\u0301"]))
        sc = [{"op": "mk_block", "name": "sblk", "type": "t"}]
        b = 0
        sc += [{"op": "mk_source", "blk": b, "p": None, "name": nm, "type": "t"},
               {"op": "mk_source", "blk": b, "p": 0, "name": nm, "type": "t"},
               {"op": "mk_source", "blk": b, "p": None, "name": nm + "2", "type": "t"},
               {"op": "mk_source", "blk": b, "p": 2, "name": nm, "type": "t"},
               {"op": "mk_source", "blk": b, "p": 1, "name": nm, "type": "t"},
               {"op": "mk_array", "blk": b, "name": "da", "type": "t", "dtype": "float64", "shape": [2]},
               {"op": "mk_group", "blk": b, "name": "g", "type": "t"},
               {"op": "mk_tag", "blk": b, "name": "tg", "type": "t", "pos": [1.0]}]
        for k in ("array", "group", "tag"):
            for tgt in draw(st.lists(st.sampled_from([1, 3, 4, 2]), min_size=1, max_size=2, unique=True)):
                sc.append({"op": "link", "k": k, "t": 0, "role": "sources", "target": tgt})
        out = sc + out
    return {"prog": out, "policy": draw(st.sampled_from(["fresh", "cached", "two", "two"]))}


def shards(tier, seed):
    n, per, mx = (16, 40, 24) if tier == "quick" else (64, 100, 40)
    return [{"n": per, "max_ops": mx, "seed": seed * 1000 + i} for i in range(n)]


def run_shard(spec, ctx):
    gen.generate(case_strategy(spec["max_ops"]), spec["n"], spec["seed"], lambda c: run_case(c, ctx))


def replay(case, ctx):
    run_case(case, ctx)


def valid(case):
    if not (isinstance(case, dict) and isinstance(case.get("prog"), list)):
        return False
    for o in case["prog"]:
        if not isinstance(o, dict) or "op" not in o:
            return False
        nm = o.get("name")
        if o["op"] in NAME_OPS:
            if isinstance(nm, str) and (nm in ("", ".") or "/" in nm or "\x00" in nm):
                return False
            if isinstance(nm, dict) and "rep" in nm and (not nm["rep"][0] or nm["rep"][1] < 1 or "/" in nm["rep"][0]):
                return False
    return True
