# -*- coding: utf-8 -*-
"""C12 - a refused operation leaves the file exactly as it was (DESIGN 4/C12)."""
import contextlib
import io
import os

import numpy as np
from hypothesis import strategies as st

from vlib import gen, ops, walk
from vlib.interp import Interp

ID = "C12"
LEVEL = "fault_enumeration"
RULE = ("Fault injection into histories: a valid build program (densely linked two-block prefix + Hypothesis-"
        "generated valid ops), then at generated positions one INVALID call drawn from a catalogue call site x "
        "fault class (duplicate / invalid name, empty type, wrong attribute type, unsupported or inconsistent "
        "element type, shape mismatch, unordered / non-numeric ticks, non-string labels, object of the wrong kind "
        "or of another block, out-of-range index), then the valid retry, then more valid ops. The whole catalogue "
        "is also enumerated once per run on a fixed history. Oracle: if the call raises, the canonical walk of the "
        "whole file before == after, and the retry of the same call with the offending argument replaced by a valid "
        "one succeeds (the rejected name is still free). A call that does not raise was not refused and is only "
        "counted. Non-trivial: the invalid call is refused, happens after >= 2 valid ops and targets a non-fresh "
        "parent; distinct by (call site, fault class, prior-state signature).")
ASSUMPTIONS = [
    "'refused' = the call raised any exception",
    "observable state = the public-API walk incl. timestamps (an empty HDF5 container group left behind is not "
    "observable and not a violation)",
    "NUL bytes in names are outside the catalogue (HDF5 itself truncates such names; the statement lists 'no NUL' "
    "as a precondition of legal names, and h5py's behaviour on them is not nixio's contract)",
]
SHRINK = True


class NotApplicable(Exception):
    pass


def need(x):
    if x is None:
        raise NotApplicable()
    return x


# ---------------------------------------------------------------------------------------------
# catalogue: name -> builder(it, n) returning (invalid_callable, retry_callable | None)
# ---------------------------------------------------------------------------------------------

def _blk(it, n):
    return need(it.pick("block", n))


def _named_creates():
    """create_* sites x {duplicate, empty name, slash in name, non-string name, empty type}"""
    sites = {}

    def mk(site, parent_fn, call_fn, existing_fn):
        def dup(it, n):
            p = parent_fn(it, n)
            ex = need(existing_fn(it, p))
            fresh = "c12-fresh-%d" % n
            return (lambda: call_fn(it, p, ex.name, "t"), lambda: call_fn(it, p, fresh, "t"))

        def empty_name(it, n):
            p = parent_fn(it, n)
            return (lambda: call_fn(it, p, "", "t"), lambda: call_fn(it, p, "c12-en-%d" % n, "t"))

        def slash(it, n):
            p = parent_fn(it, n)
            return (lambda: call_fn(it, p, "a/b%d" % n, "t"), lambda: call_fn(it, p, "a_b%d" % n, "t"))

        def nonstring(it, n):
            p = parent_fn(it, n)
            return (lambda: call_fn(it, p, 12345, "t"), lambda: call_fn(it, p, "c12-12345-%d" % n, "t"))

        def empty_type(it, n):
            p = parent_fn(it, n)
            nm = "c12-et-%d" % n
            return (lambda: call_fn(it, p, nm, ""), lambda: call_fn(it, p, nm, "t"))
        sites[site + "/duplicate-name"] = dup
        sites[site + "/empty-name"] = empty_name
        sites[site + "/slash-in-name"] = slash
        sites[site + "/non-string-name"] = nonstring
        sites[site + "/empty-type"] = empty_type

    def first_child(role):
        return lambda it, p: (p.children.get(role) or [None])[0]

    mk("File.create_block", lambda it, n: it.root, lambda it, p, nm, ty: it.f.create_block(nm, ty), first_child("blocks"))
    mk("File.create_section", lambda it, n: it.root, lambda it, p, nm, ty: it.f.create_section(nm, ty), first_child("sections"))
    mk("Section.create_section", lambda it, n: need(it.pick("section", n)),
       lambda it, p, nm, ty: it.handle(p).create_section(nm, ty), first_child("sections"))
    mk("Block.create_group", _blk, lambda it, p, nm, ty: it.handle(p).create_group(nm, ty), first_child("groups"))
    mk("Block.create_source", _blk, lambda it, p, nm, ty: it.handle(p).create_source(nm, ty), first_child("sources"))
    mk("Source.create_source", lambda it, n: need(it.pick("source", n)),
       lambda it, p, nm, ty: it.handle(p).create_source(nm, ty), first_child("sources"))
    mk("Block.create_tag", _blk, lambda it, p, nm, ty: it.handle(p).create_tag(nm, ty, [1.0]), first_child("tags"))
    mk("Block.create_data_array", _blk,
       lambda it, p, nm, ty: it.handle(p).create_data_array(nm, ty, data=np.arange(3.0)), first_child("data_arrays"))
    mk("Block.create_data_frame", _blk,
       lambda it, p, nm, ty: it.handle(p).create_data_frame(nm, ty, col_dict={"a": int, "b": str}),
       first_child("data_frames"))

    def mt_call(it, p, nm, ty):
        pos = need(it.pick("array", 2, lambda a: a.parent is p and a.info["dtype"] != "str"))
        return it.handle(p).create_multi_tag(nm, ty, positions=it.handle(pos))
    mk("Block.create_multi_tag", _blk, mt_call, first_child("multi_tags"))

    def mt_list_call(it, p, nm, ty):
        return it.handle(p).create_multi_tag(nm, ty, positions=[[1.0, 2.0]])
    mk("Block.create_multi_tag(list)", _blk, mt_list_call, first_child("multi_tags"))
    return sites


def _other_sites():
    S = {}

    def reg(name):
        def deco(fn):
            S[name] = fn
            return fn
        return deco

    # ---------------- create_data_array argument faults
    @reg("Block.create_data_array/unsupported-dtype-object")
    def _(it, n):
        b = it.handle(_blk(it, n))
        nm = "c12-da-%d" % n
        return (lambda: b.create_data_array(nm, "t", data=np.array([object(), object()], dtype=object)),
                lambda: b.create_data_array(nm, "t", data=np.arange(2.0)))

    @reg("Block.create_data_array/str-typed-ndarray")
    def _(it, n):
        b = it.handle(_blk(it, n))
        nm = "c12-das-%d" % n
        return (lambda: b.create_data_array(nm, "t", data=np.array(["a", "b"])),
                lambda: b.create_data_array(nm, "t", data=np.arange(2.0)))

    @reg("Block.create_data_array/nonsense-dtype")
    def _(it, n):
        b = it.handle(_blk(it, n))
        nm = "c12-dan-%d" % n
        return (lambda: b.create_data_array(nm, "t", dtype="no-such-type", shape=(2,)),
                lambda: b.create_data_array(nm, "t", dtype="f8", shape=(2,)))

    @reg("Block.create_data_array/shape-mismatch")
    def _(it, n):
        b = it.handle(_blk(it, n))
        nm = "c12-dam-%d" % n
        return (lambda: b.create_data_array(nm, "t", data=np.arange(4.0), shape=(2, 3)),
                lambda: b.create_data_array(nm, "t", data=np.arange(4.0), shape=(4,)))

    @reg("Block.create_data_array/no-shape-no-data")
    def _(it, n):
        b = it.handle(_blk(it, n))
        nm = "c12-dax-%d" % n
        return (lambda: b.create_data_array(nm, "t"), lambda: b.create_data_array(nm, "t", shape=(2,)))

    @reg("Block.create_data_array/unit-wrong-type")
    def _(it, n):
        b = it.handle(_blk(it, n))
        nm = "c12-dau-%d" % n
        return (lambda: b.create_data_array(nm, "t", data=np.arange(2.0), unit=5),
                lambda: b.create_data_array(nm, "t", data=np.arange(2.0), unit="mV"))

    @reg("Block.create_data_array/label-wrong-type")
    def _(it, n):
        b = it.handle(_blk(it, n))
        nm = "c12-dal-%d" % n
        return (lambda: b.create_data_array(nm, "t", data=np.arange(2.0), label=5),
                lambda: b.create_data_array(nm, "t", data=np.arange(2.0), label="x"))

    @reg("Block.create_data_array/copy-wrong-kind")
    def _(it, n):
        blk = _blk(it, n)
        tg = need(it.pick("tag", n, lambda t: t.parent is blk))
        b = it.handle(blk)
        return (lambda: b.create_data_array(copy_from=it.handle(tg)), None)

    @reg("Block.create_data_array/copy-existing-name")
    def _(it, n):
        blk = _blk(it, n)
        a = need(it.pick("array", n, lambda t: t.parent is blk))
        b = it.handle(blk)
        return (lambda: b.create_data_array(copy_from=it.handle(a)),
                lambda: b.create_data_array(name="c12-copy-%d" % n, copy_from=it.handle(a)))

    # ---------------- tags
    @reg("Block.create_tag/position-not-numeric")
    def _(it, n):
        b = it.handle(_blk(it, n))
        nm = "c12-tg-%d" % n
        return (lambda: b.create_tag(nm, "t", ["a", "b"]), lambda: b.create_tag(nm, "t", [1.0, 2.0]))

    @reg("Block.create_multi_tag/positions-not-numeric")
    def _(it, n):
        b = it.handle(_blk(it, n))
        nm = "c12-mt-%d" % n
        return (lambda: b.create_multi_tag(nm, "t", positions=np.array([object()], dtype=object)),
                lambda: b.create_multi_tag(nm, "t", positions=[[1.0]]))

    @reg("Block.create_multi_tag/extents-invalid")
    def _(it, n):
        b = it.handle(_blk(it, n))
        nm = "c12-mte-%d" % n
        return (lambda: b.create_multi_tag(nm, "t", positions=[[1.0]], extents=np.array([object()], dtype=object)),
                lambda: b.create_multi_tag(nm, "t", positions=[[1.0]], extents=[[1.0]]))

    @reg("Block.create_multi_tag/positions-none")
    def _(it, n):
        b = it.handle(_blk(it, n))
        nm = "c12-mtn-%d" % n
        return (lambda: b.create_multi_tag(nm, "t", positions=None), lambda: b.create_multi_tag(nm, "t", positions=[[1.0]]))

    def _tagish(it, n):
        return need(it.pick("tag" if n % 2 else "mtag", n) or it.pick("tag", n) or it.pick("mtag", n))

    @reg("Tag.create_feature/wrong-kind")
    def _(it, n):
        t = _tagish(it, n)
        sec = need(it.pick("section", n))
        da = need(it.pick("array", n, lambda a: a.parent is t.parent))
        return (lambda: it.handle(t).create_feature(it.handle(sec), "untagged"),
                lambda: it.handle(t).create_feature(it.handle(da), "untagged"))

    @reg("Tag.create_feature/none")
    def _(it, n):
        t = _tagish(it, n)
        da = need(it.pick("array", n, lambda a: a.parent is t.parent))
        return (lambda: it.handle(t).create_feature(None, "untagged"),
                lambda: it.handle(t).create_feature(it.handle(da), "untagged"))

    @reg("Tag.create_feature/foreign-block-array")
    def _(it, n):
        t = _tagish(it, n)
        local = {a.name for a in it.alive("array", lambda a: a.parent is t.parent)}
        fa = need(it.pick("array", n, lambda a: a.parent is not t.parent))
        da = need(it.pick("array", n, lambda a: a.parent is t.parent))
        return (lambda: it.handle(t).create_feature(it.handle(fa), "untagged"),
                lambda: it.handle(t).create_feature(it.handle(da), "untagged"))

    @reg("Tag.create_feature/bad-link-type")
    def _(it, n):
        t = _tagish(it, n)
        da = need(it.pick("array", n, lambda a: a.parent is t.parent))
        return (lambda: it.handle(t).create_feature(it.handle(da), "bogus"),
                lambda: it.handle(t).create_feature(it.handle(da), "indexed"))

    # ---------------- dimensions
    def _arr(it, n):
        return need(it.pick("array", n))

    @reg("DataArray.append_sampled_dimension/interval-not-a-number")
    def _(it, n):
        a = it.handle(_arr(it, n))
        return (lambda: a.append_sampled_dimension("x"), lambda: a.append_sampled_dimension(0.5))

    @reg("DataArray.append_sampled_dimension/unit-wrong-type")
    def _(it, n):
        a = it.handle(_arr(it, n))
        return (lambda: a.append_sampled_dimension(0.5, unit=5), lambda: a.append_sampled_dimension(0.5, unit="s"))

    @reg("DataArray.append_sampled_dimension/offset-wrong-type")
    def _(it, n):
        a = it.handle(_arr(it, n))
        return (lambda: a.append_sampled_dimension(0.5, offset="x"), lambda: a.append_sampled_dimension(0.5, offset=1.0))

    @reg("DataArray.append_sampled_dimension/label-wrong-type")
    def _(it, n):
        a = it.handle(_arr(it, n))
        return (lambda: a.append_sampled_dimension(0.5, label=5), lambda: a.append_sampled_dimension(0.5, label="t"))

    @reg("DataArray.append_range_dimension/unordered-ticks")
    def _(it, n):
        a = it.handle(_arr(it, n))
        return (lambda: a.append_range_dimension([3.0, 1.0, 2.0]), lambda: a.append_range_dimension([1.0, 2.0, 3.0]))

    @reg("DataArray.append_range_dimension/non-numeric-ticks")
    def _(it, n):
        a = it.handle(_arr(it, n))
        return (lambda: a.append_range_dimension(["a", "b"]), lambda: a.append_range_dimension([1.0, 2.0]))

    @reg("DataArray.append_range_dimension/unit-wrong-type")
    def _(it, n):
        a = it.handle(_arr(it, n))
        return (lambda: a.append_range_dimension([1.0, 2.0], unit=5), lambda: a.append_range_dimension([1.0, 2.0], unit="s"))

    @reg("DataArray.append_set_dimension/non-string-labels")
    def _(it, n):
        a = it.handle(_arr(it, n))
        return (lambda: a.append_set_dimension([1, 2]), lambda: a.append_set_dimension(["a", "b"]))

    @reg("DataArray.append_set_dimension/labels-not-a-list")
    def _(it, n):
        a = it.handle(_arr(it, n))
        return (lambda: a.append_set_dimension("abc"), lambda: a.append_set_dimension(["abc"]))

    @reg("DataArray.append_range_dimension_using_self/bad-index")
    def _(it, n):
        a = _arr(it, n)
        h = it.handle(a)
        rank = len(a.info["shape"])
        return (lambda: h.append_range_dimension_using_self([0] * rank),
                None)

    def _dim(it, n, kind):
        a = need(it.pick("array", n, lambda x: any(d["kind"] == kind and d.get("link") is None for d in x.info.get("dims", []))))
        di = [i for i, d in enumerate(a.info["dims"]) if d["kind"] == kind and d.get("link") is None][0]
        return a, di

    @reg("RangeDimension.ticks/unordered")
    def _(it, n):
        a, di = _dim(it, n, "range")
        return (lambda: setattr(it.handle(a).dimensions[di], "ticks", [2.0, 1.0]),
                lambda: setattr(it.handle(a).dimensions[di], "ticks", [1.0, 2.0]))

    @reg("RangeDimension.ticks/non-numeric")
    def _(it, n):
        a, di = _dim(it, n, "range")
        return (lambda: setattr(it.handle(a).dimensions[di], "ticks", ["a", "b"]),
                lambda: setattr(it.handle(a).dimensions[di], "ticks", [1.0, 2.0]))

    @reg("RangeDimension.link_data_array/bad-index")
    def _(it, n):
        a, di = _dim(it, n, "range")
        t = need(it.pick("array", n + 1, lambda x: x.parent is a.parent and x.info["dtype"] not in ("str", "bool")))
        rank = len(t.info["shape"])
        return (lambda: it.handle(a).dimensions[di].link_data_array(it.handle(t), [0] * (rank + 1)), None)

    @reg("SetDimension.labels/non-string")
    def _(it, n):
        a, di = _dim(it, n, "set")
        return (lambda: setattr(it.handle(a).dimensions[di], "labels", [1, 2]),
                lambda: setattr(it.handle(a).dimensions[di], "labels", ["x", "y"]))

    @reg("SampledDimension.sampling_interval/not-a-number")
    def _(it, n):
        a, di = _dim(it, n, "sampled")
        return (lambda: setattr(it.handle(a).dimensions[di], "sampling_interval", "x"),
                lambda: setattr(it.handle(a).dimensions[di], "sampling_interval", 2.0))

    @reg("SampledDimension.unit/wrong-type")
    def _(it, n):
        a, di = _dim(it, n, "sampled")
        return (lambda: setattr(it.handle(a).dimensions[di], "unit", 5),
                lambda: setattr(it.handle(a).dimensions[di], "unit", "ms"))

    @reg("SampledDimension.link_data_array/unsupported")
    def _(it, n):
        a, di = _dim(it, n, "sampled")
        return (lambda: it.handle(a).dimensions[di].link_data_array(it.handle(a), [-1]), None)

    # ---------------- attribute setters with a wrong Python type
    def setter(kind, attr, bad, good):
        def build(it, n):
            e = need(it.pick(kind, n))
            return (lambda: setattr(it.handle(e), attr, bad), lambda: setattr(it.handle(e), attr, good))
        return build
    for kind in ("block", "group", "array", "tag", "mtag", "source", "section", "frame"):
        S["%s.type/none" % kind] = setter(kind, "type", None, "t2")
        S["%s.type/wrong-type" % kind] = setter(kind, "type", 5, "t2")
        S["%s.definition/wrong-type" % kind] = setter(kind, "definition", 5, "d")
    S["array.label/wrong-type"] = setter("array", "label", 5, "l")
    S["array.unit/wrong-type"] = setter("array", "unit", 5, "mV")
    S["array.expansion_origin/wrong-type"] = setter("array", "expansion_origin", "x", 1.5)
    S["array.polynom_coefficients/non-numeric"] = setter("array", "polynom_coefficients", ["a", "b"], [1.0, 2.0])
    S["array.polynom_coefficients/object"] = setter("array", "polynom_coefficients", [object()], [1.0])
    S["tag.position/non-numeric"] = setter("tag", "position", ["a"], [1.0])
    S["tag.extent/non-numeric"] = setter("tag", "extent", ["a"], [1.0])
    # the same unacceptable values as ndarrays, longer / shorter than what is stored (or nothing stored yet)
    S["array.polynom_coefficients/non-numeric-ndarray"] = setter("array", "polynom_coefficients",
                                                                np.array(["a", "b", "c"]), [1.0, 2.0])
    S["array.polynom_coefficients/bytes-ndarray"] = setter("array", "polynom_coefficients", np.array([b"x"]), [1.0, 2.0])
    S["tag.position/non-numeric-ndarray"] = setter("tag", "position", np.array(["a", "b", "c", "d"]), [1.0])
    S["tag.extent/non-numeric-ndarray"] = setter("tag", "extent", np.array(["a", "b", "c"]), [1.0])
    S["tag.units/non-string"] = setter("tag", "units", [5], ["mV"])
    S["mtag.units/non-string"] = setter("mtag", "units", [5], ["mV"])
    S["mtag.positions/none"] = setter("mtag", "positions", None, None)
    S["section.reference/wrong-type"] = setter("section", "reference", 5, "r")
    S["section.repository/wrong-type"] = setter("section", "repository", 5, "r")
    S["prop.unit/wrong-type"] = setter("prop", "unit", 5, "mV")
    S["prop.uncertainty/wrong-type"] = setter("prop", "uncertainty", "x", 0.5)
    S["prop.definition/wrong-type"] = setter("prop", "definition", 5, "d")
    S["prop.reference/wrong-type"] = setter("prop", "reference", 5, "r")
    S["prop.dependency/wrong-type"] = setter("prop", "dependency", 5, "r")
    S["prop.odml_type/not-an-odml-type"] = setter("prop", "odml_type", "int", None)
    S["feature.link_type/bogus"] = setter("feature", "link_type", "bogus", "untagged")
    S["feature.data/none"] = setter("feature", "data", None, None)
    for k in ("mtag.positions/none", "prop.odml_type/not-an-odml-type", "feature.data/none"):
        S[k] = (lambda f: (lambda it, n: (f(it, n)[0], None)))(S[k])

    @reg("mtag.positions/wrong-kind")
    def _(it, n):
        m = need(it.pick("mtag", n))
        sec = need(it.pick("section", n))
        return (lambda: setattr(it.handle(m), "positions", it.handle(sec)), None)

    @reg("feature.data/wrong-kind")
    def _(it, n):
        f = need(it.pick("feature", n))
        sec = need(it.pick("section", n))
        return (lambda: setattr(it.handle(f), "data", it.handle(sec)), None)

    @reg("feature.data/foreign-block")
    def _(it, n):
        f = need(it.pick("feature", n))
        blk = f.parent.parent
        fa = need(it.pick("array", n, lambda a: a.parent is not blk))
        return (lambda: setattr(it.handle(f), "data", it.handle(fa)), None)

    def meta(kind):
        def build(it, n):
            e = need(it.pick(kind, n))
            blkobj = need(it.pick("block", n + 1))
            sec = need(it.pick("section", n))
            return (lambda: setattr(it.handle(e), "metadata", it.handle(blkobj)),
                    lambda: setattr(it.handle(e), "metadata", it.handle(sec)))
        return build
    for kind in ("block", "group", "array", "tag", "mtag", "source", "frame"):
        S["%s.metadata/not-a-section" % kind] = meta(kind)

    @reg("Entity.force_created_at/not-an-int")
    def _(it, n):
        e = need(it.pick(["block", "array", "tag", "section", "source"][n % 5], n))
        return (lambda: it.handle(e).force_created_at("yesterday"), lambda: it.handle(e).force_created_at(1000))

    # ---------------- link lists
    def link(owner_kind, role, fault):
        def build(it, n):
            from vlib.interp import LINK_ROLES
            o = need(it.pick(owner_kind, n))
            tkind = LINK_ROLES[owner_kind][role]
            blk = o.block()
            good = it.pick(tkind, n, lambda e: e.block() is blk)
            lst = lambda: getattr(it.handle(o), role)  # noqa: E731
            if fault == "wrong-kind":
                wk = need(it.pick("section" if tkind != "section" else "block", n))
                bad = lambda: lst().append(it.handle(wk))  # noqa: E731
            elif fault == "other-block":
                fb = need(it.pick(tkind, n, lambda e: e.block() is not blk))
                bad = lambda: lst().append(it.handle(fb))  # noqa: E731
            elif fault == "not-an-entity":
                bad = lambda: lst().append(12345)  # noqa: E731
            elif fault == "unknown-id":
                bad = lambda: lst().append("00000000-0000-4000-8000-000000000000")  # noqa: E731
            else:  # extend with a bad item in the middle
                g2 = need(good)
                wk = need(it.pick("section", n))
                bad = lambda: lst().extend([it.handle(g2), it.handle(wk)])  # noqa: E731
            retry = (lambda: lst().append(it.handle(good))) if good is not None else None
            return (bad, retry)
        return build
    for ok, role in (("group", "data_arrays"), ("group", "tags"), ("group", "multi_tags"), ("group", "sources"),
                     ("tag", "references"), ("mtag", "references"), ("array", "sources"), ("tag", "sources")):
        for fault in ("wrong-kind", "other-block", "not-an-entity", "unknown-id", "extend-partially-bad"):
            S["%s.%s.append/%s" % (ok, role, fault)] = link(ok, role, fault)

    # ---------------- data writes
    def _numarr(it, n, rank=None):
        return need(it.pick("array", n, lambda a: a.info["dtype"] in ("float64", "int32", "int64", "float32") and
                            all(x > 0 for x in a.info["shape"]) and (rank is None or len(a.info["shape"]) == rank)))

    @reg("DataArray.append/wrong-rank")
    def _(it, n):
        a = _numarr(it, n)
        shp = a.info["shape"]
        return (lambda: it.handle(a).append(np.zeros(shp + (1,))), None)

    @reg("DataArray.append/wrong-extent")
    def _(it, n):
        a = _numarr(it, n, 2)
        shp = a.info["shape"]
        return (lambda: it.handle(a).append(np.zeros((1, shp[1] + 1)), axis=0),
                lambda: it.handle(a).append(np.zeros((1, shp[1])), axis=0))

    @reg("DataArray.append/bad-axis")
    def _(it, n):
        a = _numarr(it, n)
        shp = list(a.info["shape"])
        return (lambda: it.handle(a).append(np.zeros(shp), axis=len(shp) + 2), None)

    @reg("DataArray.append/element-type-mismatch")
    def _(it, n):
        a = _numarr(it, n, 1)
        return (lambda: it.handle(a).append(np.array(["x", "y"], dtype=object)),
                lambda: it.handle(a).append(np.zeros(2)))

    @reg("DataArray.setitem/cannot-broadcast")
    def _(it, n):
        a = _numarr(it, n)
        shp = a.info["shape"]
        return (lambda: it.handle(a).__setitem__(slice(None), np.zeros((shp[0] + 3,) + tuple(shp[1:]))), None)

    @reg("DataArray.setitem/index-out-of-range")
    def _(it, n):
        a = _numarr(it, n)
        return (lambda: it.handle(a).__setitem__(a.info["shape"][0] + 5, 1.0),
                lambda: it.handle(a).__setitem__(0, 1.0))

    @reg("DataArray.setitem/text-into-numeric")
    def _(it, n):
        a = _numarr(it, n)
        return (lambda: it.handle(a).__setitem__(0, "text"), None)

    @reg("DataArray.write_direct/wrong-shape")
    def _(it, n):
        a = _numarr(it, n)
        shp = a.info["shape"]
        return (lambda: it.handle(a).write_direct(np.zeros((shp[0] + 1,) + tuple(shp[1:]))), None)

    @reg("DataArray.data_extent/wrong-rank")
    def _(it, n):
        a = _numarr(it, n)
        shp = a.info["shape"]
        return (lambda: setattr(it.handle(a), "data_extent", tuple(shp) + (2,)), None)

    # ---------------- properties
    @reg("Section.create_property/duplicate-name")
    def _(it, n):
        s = need(it.pick("section", n, lambda x: x.children.get("props")))
        ex = s.children["props"][0]
        return (lambda: it.handle(s).create_property(ex.name, [1]),
                lambda: it.handle(s).create_property("c12-p-%d" % n, [1]))

    @reg("Section.create_property/slash-in-name")
    def _(it, n):
        s = need(it.pick("section", n))
        return (lambda: it.handle(s).create_property("a/b", [1]), lambda: it.handle(s).create_property("c12-ps-%d" % n, [1]))

    @reg("Section.create_property/mixed-list")
    def _(it, n):
        s = need(it.pick("section", n))
        nm = "c12-pm-%d" % n
        return (lambda: it.handle(s).create_property(nm, [1, "a", 2.0]), lambda: it.handle(s).create_property(nm, [1, 2]))

    @reg("Section.create_property/int-out-of-range")
    def _(it, n):
        s = need(it.pick("section", n))
        nm = "c12-pi-%d" % n
        return (lambda: it.handle(s).create_property(nm, [2 ** 64]), lambda: it.handle(s).create_property(nm, [2 ** 62]))

    @reg("Section.create_property/unsupported-value")
    def _(it, n):
        s = need(it.pick("section", n))
        nm = "c12-pu-%d" % n
        return (lambda: it.handle(s).create_property(nm, [object()]), lambda: it.handle(s).create_property(nm, [1.5]))

    @reg("Section.create_property/empty-list")
    def _(it, n):
        s = need(it.pick("section", n))
        nm = "c12-pe-%d" % n
        return (lambda: it.handle(s).create_property(nm, []), lambda: it.handle(s).create_property(nm, [True]))

    def _prop(it, n, ptype):
        return need(it.pick("prop", n, lambda p: p.info.get("ptype") == ptype and p.info.get("vals")))

    @reg("Property.values/other-type")
    def _(it, n):
        p = _prop(it, n, "int")
        return (lambda: setattr(it.handle(p), "values", ["a", "b"]), lambda: setattr(it.handle(p), "values", [7, 8]))

    @reg("Property.values/mixed-list")
    def _(it, n):
        p = _prop(it, n, "int")
        return (lambda: setattr(it.handle(p), "values", [1, 2.5, 3]), lambda: setattr(it.handle(p), "values", [7, 8]))

    @reg("Property.values/int-out-of-range")
    def _(it, n):
        p = _prop(it, n, "int")
        return (lambda: setattr(it.handle(p), "values", [1, 2 ** 64]), lambda: setattr(it.handle(p), "values", [7, 8]))

    @reg("Property.extend_values/other-type")
    def _(it, n):
        p = _prop(it, n, "str")
        return (lambda: it.handle(p).extend_values([1, 2]), lambda: it.handle(p).extend_values(["x"]))

    @reg("Property.extend_values/mixed-list")
    def _(it, n):
        p = _prop(it, n, "int")
        return (lambda: it.handle(p).extend_values([4, "x"]), lambda: it.handle(p).extend_values([4]))

    @reg("Section.setitem/mixed-list")
    def _(it, n):
        s = need(it.pick("section", n))
        nm = "c12-si-%d" % n
        return (lambda: it.handle(s).__setitem__(nm, [1, "a"]), lambda: it.handle(s).__setitem__(nm, [1, 2]))

    # ---------------- frames
    def _frame(it, n):
        return need(it.pick("frame", n))

    @reg("DataFrame.append_rows/wrong-row-length")
    def _(it, n):
        f = _frame(it, n)
        return (lambda: it.handle(f).append_rows([(1,)]), lambda: it.handle(f).append_rows([(1, "x", 2.5)]))

    @reg("DataFrame.append_column/wrong-length")
    def _(it, n):
        f = _frame(it, n)
        nrows = len(f.info["rows"])
        return (lambda: it.handle(f).append_column([1] * (nrows + 2), "c12col"), None)

    @reg("DataFrame.append_column/unsupported-column-type")
    def _(it, n):
        f = _frame(it, n)
        nrows = len(f.info["rows"])
        if n % 2:
            return (lambda: it.handle(f).append_column(np.array(["t"] * nrows), "c12colu", datatype=np.dtype("<U4")), None)
        return (lambda: it.handle(f).append_column([object() for _ in range(nrows)], "c12colo", datatype=object), None)

    @reg("DataFrame.append_rows/text-that-cannot-be-stored")
    def _(it, n):
        f = _frame(it, n)
        bad = "a\x00b" if n % 2 else "c\ud800d"
        return (lambda: it.handle(f).append_rows([(1, "fine", 2.5), (2, bad, 3.5)]), None)

    @reg("DataFrame.write_rows/row-out-of-range")
    def _(it, n):
        f = _frame(it, n)
        nrows = len(f.info["rows"])
        return (lambda: it.handle(f).write_rows([(1, "x", 2.5)], [nrows + 3]), None)

    @reg("DataFrame.write_column/wrong-length")
    def _(it, n):
        f = _frame(it, n)
        nrows = len(f.info["rows"])
        return (lambda: it.handle(f).write_column([1] * (nrows + 1), name="a"), None)

    @reg("DataFrame.write_column/unknown-column")
    def _(it, n):
        f = need(it.pick("frame", n, lambda x: len(x.info["rows"]) > 0))
        nrows = len(f.info["rows"])
        return (lambda: it.handle(f).write_column([1] * nrows, name="no-such-column"), None)

    @reg("DataFrame.write_cell/unknown-column")
    def _(it, n):
        f = need(it.pick("frame", n, lambda x: len(x.info["rows"]) > 0))
        return (lambda: it.handle(f).write_cell(5, col_name="no-such-column", row_idx=[0]), None)

    @reg("Block.create_data_frame/duplicate-column")
    def _(it, n):
        b = it.handle(_blk(it, n))
        nm = "c12-df-%d" % n
        return (lambda: b.create_data_frame(nm, "t", col_names=["a", "a"], col_dtypes=[int, int]),
                lambda: b.create_data_frame(nm, "t", col_names=["a", "b"], col_dtypes=[int, int]))

    @reg("Block.create_data_frame/no-column-info")
    def _(it, n):
        b = it.handle(_blk(it, n))
        nm = "c12-dfn-%d" % n
        return (lambda: b.create_data_frame(nm, "t"),
                lambda: b.create_data_frame(nm, "t", col_dict={"a": int}))

    for fault, kw in (("data-element-type-mismatch", dict(col_dict={"a": int, "b": str}, data=[("x", "y")])),
                      ("data-row-length-mismatch", dict(col_dict={"a": int, "b": int}, data=[(1,)])),
                      ("unsupported-column-dtype", dict(col_dict={"a": object}))):
        def _frame_bad(it, n, fault=fault, kw=kw):
            b = it.handle(_blk(it, n))
            nm = "c12-dfx-%d" % n
            return (lambda: b.create_data_frame(nm, "t", **kw),
                    lambda: b.create_data_frame(nm, "t", col_dict={"a": int, "b": str}, data=[(1, "y")]))
        S["Block.create_data_frame/" + fault] = _frame_bad

    # ---------------- containers
    def cont(kind, fault):
        def build(it, n):
            e = need(it.pick(kind, n))
            c = lambda: it.container_of(e)  # noqa: E731
            if fault == "delete-index-out-of-range":
                return (lambda: c().__delitem__(10 ** 6), None)
            if fault == "delete-unknown-name":
                return (lambda: c().__delitem__("no-such-entity"), None)
            wk = need(it.pick("section" if kind != "section" else "block", n))
            return (lambda: c().__delitem__(it.handle(wk)), None)
        return build
    for kind in ("block", "array", "tag", "mtag", "group", "source", "section", "prop", "frame"):
        for fault in ("delete-index-out-of-range", "delete-unknown-name", "delete-wrong-kind-object"):
            S["%s-container/%s" % (kind, fault)] = cont(kind, fault)

    # ---------------- copies
    @reg("File.create_block/copy-existing-name")
    def _(it, n):
        b = need(it.pick("block", n))
        return (lambda: it.f.create_block(copy_from=it.handle(b)), None)

    @reg("File.create_block/copy-wrong-kind")
    def _(it, n):
        s = need(it.pick("section", n))
        return (lambda: it.f.create_block(copy_from=it.handle(s)), None)

    @reg("Block.create_tag/copy-existing-name")
    def _(it, n):
        t = need(it.pick("tag", n))
        return (lambda: it.handle(t.parent).create_tag(copy_from=it.handle(t)), None)

    @reg("Section.copy_section/existing-name")
    def _(it, n):
        s = need(it.pick("section", n, lambda x: x.parent.kind == "section"))
        return (lambda: it.handle(s.parent).copy_section(it.handle(s)), None)

    @reg("Section.create_property/copy-existing-name")
    def _(it, n):
        p = need(it.pick("prop", n))
        return (lambda: it.handle(p.parent).create_property(copy_from=it.handle(p)), None)

    @reg("Block.create_multi_tag/copy-existing-name")
    def _(it, n):
        t = need(it.pick("mtag", n))
        return (lambda: it.handle(t.parent).create_multi_tag(copy_from=it.handle(t)), None)

    @reg("Block.create_data_frame/copy-existing-name")
    def _(it, n):
        t = need(it.pick("frame", n))
        return (lambda: it.handle(t.parent).create_data_frame(copy_from=it.handle(t)), None)

    for kind_, meth in (("tag", "create_tag"), ("mtag", "create_multi_tag"), ("frame", "create_data_frame")):
        def _wrong(it, n, meth=meth):
            blk = _blk(it, n)
            a = need(it.pick("array", n, lambda t: t.parent is blk))
            return (lambda: getattr(it.handle(blk), meth)(name="c12-cw-%d" % n, copy_from=it.handle(a)), None)
        S["Block.%s/copy-wrong-kind" % meth] = _wrong

    # ---------------- refusals that depend on what is already there (prior state x fault)
    def _dim_linked(it, n, kind):
        ok = lambda d: d["kind"] == kind and d.get("link") not in (None, "dangling")  # noqa: E731
        a = need(it.pick("array", n, lambda x: any(ok(d) for d in x.info.get("dims", []))))
        di = [i for i, d in enumerate(a.info["dims"]) if ok(d)][0]
        return a, di

    @reg("RangeDimension.ticks/unordered-on-linked")
    def _(it, n):
        a, di = _dim_linked(it, n, "range")
        return (lambda: setattr(it.handle(a).dimensions[di], "ticks", [2.0, 1.0]), None)

    @reg("RangeDimension.ticks/non-numeric-on-linked")
    def _(it, n):
        a, di = _dim_linked(it, n, "range")
        return (lambda: setattr(it.handle(a).dimensions[di], "ticks", ["a", "b"]), None)

    @reg("SetDimension.labels/non-string-on-linked")
    def _(it, n):
        a, di = _dim_linked(it, n, "set")
        return (lambda: setattr(it.handle(a).dimensions[di], "labels", [1, 2]), None)

    for kind_ in ("range", "set"):
        def _relink_bad(it, n, kind_=kind_):
            a, di = _dim_linked(it, n, kind_)
            t = need(it.pick("array", n + 1, lambda x: x.parent is a.parent))
            rank = len(t.info["shape"])
            return (lambda: it.handle(a).dimensions[di].link_data_array(it.handle(t), [0] * (rank + 1)), None)
        S["%sDimension.link_data_array/bad-index-on-linked" % kind_.capitalize()] = _relink_bad

        def _link_wrong(it, n, kind_=kind_):
            a, di = _dim_linked(it, n, kind_) if n % 2 else _dim(it, n, kind_)
            wk = need(it.pick("tag", n) or it.pick("group", n) or it.pick("block", n))
            return (lambda: it.handle(a).dimensions[di].link_data_array(it.handle(wk), [-1]), None)
        S["%sDimension.link_data_array/wrong-kind" % kind_.capitalize()] = _link_wrong

        def _index_ndarray(it, n, kind_=kind_):
            # a well-formed index vector handed over as an ndarray (not a list): accepted or refused - but a refusal
            # must leave the ticks / labels / the existing link alone
            a, di = _dim_linked(it, n, kind_) if n % 2 else _dim(it, n, kind_)
            t = need(it.pick("array", n + 1, lambda x: x.parent is a.parent and x.info["dtype"] not in ("bool",) and
                             (kind_ == "set" or x.info["dtype"] != "str") and len(x.info["shape"]) >= 1 and
                             all(x.info["shape"])))
            rank = len(t.info["shape"])
            idx = np.array([-1] + [0] * (rank - 1))
            it.positional_ok = False
            return (lambda: it.handle(a).dimensions[di].link_data_array(it.handle(t), idx), None)
        S["%sDimension.link_data_array/index-as-ndarray" % kind_.capitalize()] = _index_ndarray

    @reg("DataArray.append_range_dimension_using_self/index-as-ndarray")
    def _(it, n):
        a = need(it.pick("array", n, lambda x: x.info["dtype"] not in ("str", "bool") and len(x.info["shape"]) >= 1
                         and all(x.info["shape"])))
        rank = len(a.info["shape"])
        it.positional_ok = False
        return (lambda: it.handle(a).append_range_dimension_using_self(np.array([-1] + [0] * (rank - 1))), None)

    for role in ("positions", "extents"):
        def _foreign(it, n, role=role):
            # positions / extents given as an array of ANOTHER block: accepted by some versions, refused by others -
            # a refusal must leave neither the tag nor a derived '<name>-positions' array behind
            blk = _blk(it, n)
            b = it.handle(blk)
            far = need(it.pick("array", n, lambda x: x.parent is not blk and x.info["dtype"] not in ("str", "bool")))
            nm = "c12-mtf-%s-%d" % (role, n)
            it.positional_ok = False
            if role == "positions":
                bad = lambda: b.create_multi_tag(nm, "t", positions=it.handle(far))  # noqa: E731
            else:
                bad = lambda: b.create_multi_tag(nm, "t", positions=[[1.0], [2.0]], extents=it.handle(far))  # noqa: E731
            return (bad, lambda: b.create_multi_tag(nm, "t", positions=[[1.0], [2.0]]))
        S["Block.create_multi_tag/%s-of-another-block" % role] = _foreign

    for role in ("positions", "extents"):
        def _derived(it, n, role=role):
            # the array the call would create implicitly ('<name>-positions' / '<name>-extents') exists already,
            # belongs to the user and is linked from a group: the refusal must not touch it
            blk = _blk(it, n)
            b = it.handle(blk)
            nm = "c12-mtd-%s-%d" % (role, n)
            taken = b.create_data_array("%s-%s" % (nm, role), "user", data=np.arange(4.0) + n)
            taken.label = "precious"
            g = it.pick("group", n, lambda x: x.parent is blk)
            if g is not None:
                it.handle(g).data_arrays.append(taken)
            it.positional_ok = False
            return (lambda: b.create_multi_tag(nm, "t", positions=[[1.0], [2.0]], extents=[[0.5], [0.5]]),
                    lambda: b.create_multi_tag(nm + "-ok", "t", positions=[[1.0], [2.0]], extents=[[0.5], [0.5]]))
        S["Block.create_multi_tag/derived-%s-name-taken" % role] = _derived

    for fault, badcall in (("interval-not-a-number", lambda h: h.append_sampled_dimension("x")),
                           ("non-string-labels", lambda h: h.append_set_dimension([1, 2])),
                           ("unordered-ticks", lambda h: h.append_range_dimension([2.0, 1.0]))):
        def _after_delete(it, n, fault=fault, badcall=badcall):
            # the descriptors were just removed through a handle that stays in use: the refused append and the
            # valid appends after it all go through that one handle, which must end up with exactly the two
            # descriptors appended last, in order
            a = need(it.pick("array", n, lambda x: x.info.get("dims")))
            h = it.handle(a)
            len(h.dimensions)
            h.delete_dimensions()
            a.info["dims"] = []

            def retry():
                h.append_set_dimension(["a", "b"])
                h.append_sampled_dimension(0.5)
                kinds = [type(d).__name__ for d in h.dimensions]
                fresh = [type(d).__name__ for d in it.handle(a).dimensions]
                if kinds != ["SetDimension", "SampledDimension"] or fresh != kinds:
                    raise AssertionError("descriptors after two valid appends: kept handle %s, fresh handle %s"
                                         % (kinds, fresh))
                a.info["dims"] = [{"kind": "set", "link": None}, {"kind": "sampled", "link": None}]
            return (lambda: badcall(h), retry)
        S["DataArray.append_dimension-after-delete_dimensions/" + fault] = _after_delete

    @reg("section.link/not-a-section")
    def _(it, n):
        sec = need(it.pick("section", n, lambda x: x.single.get("link") is not None) or it.pick("section", n))
        blk = need(it.pick("block", n))
        return (lambda: setattr(it.handle(sec), "link", it.handle(blk)), None)

    @reg("mtag.extents/wrong-kind")
    def _(it, n):
        t = need(it.pick("mtag", n))
        sec = need(it.pick("section", n))
        return (lambda: setattr(it.handle(t), "extents", it.handle(sec)), None)

    @reg("DataArray.append_range_dimension_using_self/not-1d")
    def _(it, n):
        a = need(it.pick("array", n, lambda x: len(x.info["shape"]) > 1 and x.info["dtype"] not in ("str", "bool")))
        return (lambda: it.handle(a).append_range_dimension_using_self(), None)
    return S


CATALOGUE = {}
CATALOGUE.update(_named_creates())
CATALOGUE.update(_other_sites())
SITES = sorted(CATALOGUE)

VALID_OPS = ["mk_section", "mk_prop", "mk_group", "mk_array_ul", "mk_tag", "mk_mtag", "mk_source", "mk_feature",
             "mk_dim_sampled", "mk_dim_range", "mk_dim_set", "link", "link", "set_meta", "set_definition", "set_array",
             "mk_frame", "append", "prop_ext", "unlink", "del"]


def keyclean(p):
    import re
    return re.sub(r"\[\d+\]", "", p) or "/"


def inject(it, site, n, ctx, case, valid_before):
    build = CATALOGUE[site]
    try:
        bad, retry = build(it, n)
    except NotApplicable:
        ctx.count("not-applicable")
        return "n/a"
    W0 = walk.walk(it.f)
    try:
        with contextlib.redirect_stdout(io.StringIO()):     # nixio prints on some refusals
            bad()
        raised = None
    except NotApplicable:
        ctx.count("not-applicable")
        return "n/a"
    except Exception as exc:  # noqa
        raised = exc
    if raised is None:
        ctx.count("accepted:" + site)
        return "accepted"
    W1 = walk.walk(it.f)
    d = walk.diff(W0, W1)
    if d:
        ctx.violation("C12/%s" % site, case,
                      {"raised": type(raised).__name__, "msg": str(raised)[:100], "path": d[0],
                       "before": walk.brief(d[1], 160), "after": walk.brief(d[2], 160)})
        return "changed"
    if retry is not None:
        try:
            retry()
        except Exception as exc:  # noqa
            ctx.violation("C12/%s/valid-retry-refused" % site, case,
                          {"raised": type(exc).__name__, "msg": str(exc)[:120]})
            return "retry-refused"
    return "refused"


def run_case(case, ctx):
    path = os.path.join(ctx.workdir, "c12.nix")
    if os.path.exists(path):
        os.remove(path)
    it = Interp(path)
    outcomes = []
    injected = set()
    valid_ops = 0
    try:
        for op in ops.rich_prefix():
            it.step(op)
        for step in case["steps"]:
            if "site" in step:
                if step["site"] not in CATALOGUE:
                    continue
                if (step["site"], step.get("n", 0)) in injected:
                    continue        # its valid retry used the same fresh name already
                injected.add((step["site"], step.get("n", 0)))
                out = inject(it, step["site"], step.get("n", 0), ctx, case, valid_ops)
                outcomes.append((step["site"], out, valid_ops))
                if out in ("changed", "retry-refused"):
                    # the model may be out of sync with a partially applied call: stop this history
                    break
                if out == "refused":
                    # the valid retry may have created entities the skeleton does not know: from here
                    # on later ops address entities by name / id only (positions are off by the unknowns)
                    it.positional_ok = False
            else:
                st_ = it.step(step)
                if st_ == "ok":
                    valid_ops += 1
    finally:
        it.close()
        try:
            os.remove(path)
        except OSError:
            pass
    nt = any(o == "refused" and v >= 2 for _, o, v in outcomes)
    classes = ["%s" % o for _, o, _ in outcomes] or ["no-injection"]
    for s, o, _ in outcomes:
        if o in ("refused", "changed", "retry-refused"):
            ctx.count("site-refused:" + s)
    sig = [[s, o, v] for s, o, v in outcomes]
    ctx.case({"sig": sig, "steps": len(case["steps"])} if len(case["steps"]) > 60 else case, nt, classes,
             sample={"injections": sig[:6], "steps": len(case["steps"])})


def case_strategy():
    S = ops.op_strategies(["sig", "a", "b"])
    valid = gen.weighted([S[n] for n in VALID_OPS])
    inj = st.fixed_dictionaries({"site": st.sampled_from(SITES), "n": st.integers(0, 7)})
    def ensure(steps, extra, pos):
        if not any("site" in s for s in steps):
            steps = list(steps)
            steps.insert(pos % (len(steps) + 1), extra)
        return {"steps": steps}
    return st.builds(ensure, st.lists(gen.weighted([valid, valid, inj]), min_size=10, max_size=24), inj, st.integers(0, 30))


def shards(tier, seed):
    specs = []
    # the full catalogue once, after a fixed small history (4 injections per case keeps cases independent)
    chunk = 6
    for i in range(0, len(SITES), chunk):
        specs.append({"part": "catalogue", "sites": SITES[i:i + chunk], "seed": seed})
    n, per = (16, 6) if tier == "quick" else (64, 60)
    for i in range(n):
        specs.append({"part": "random", "n": per, "seed": seed * 1000 + i})
    return specs


FIXED_HISTORY = [
    {"op": "mk_frame", "blk": 0, "name": "frame", "type": "t", "cols": [["a", "int"], ["b", "str"], ["c", "float"]],
     "rows": [[1, "x", 0.5], [2, "y", 1.5]]},
    {"op": "mk_frame", "blk": 1, "name": "frame", "type": "t", "cols": [["a", "int"], ["b", "str"], ["c", "float"]],
     "rows": [[1, "x", 0.5]]},
    {"op": "mk_dim", "da": 2, "kind": "sampled", "interval": 0.5, "unit": "s"},
    {"op": "mk_dim", "da": 2, "kind": "set", "labels": ["a", "b"]},
    {"op": "mk_dim", "da": 3, "kind": "range", "ticks": [1.0, 2.0]},
    {"op": "dim_link", "da": 2, "dim": 1, "target": 4, "axis": 1, "index": [0, 0]},      # a linked set dimension
    {"op": "mk_prop", "sec": 2, "name": "ints", "vals": [1, 2, 3]},
    {"op": "mk_prop", "sec": 2, "name": "strs", "vals": ["a", "b"]},
]


def run_shard(spec, ctx):
    if spec["part"] == "catalogue":
        for site in spec["sites"]:
            for n in ((0, 1) if ctx.tier == "quick" else (0, 1, 2, 3, 5)):
                case = {"steps": list(FIXED_HISTORY) + [{"site": site, "n": n}]}
                run_case(case, ctx)
        ctx.exhaustive = True
    else:
        gen.generate(case_strategy(), spec["n"], spec["seed"], lambda c: run_case(c, ctx))


def replay(case, ctx):
    run_case(case, ctx)


def valid(case):
    try:
        return len(case["steps"]) >= 1 and all(isinstance(s, dict) and ("site" in s or "op" in s) for s in case["steps"]) \
            and any("site" in s for s in case["steps"])
    except Exception:  # noqa
        return False
