# -*- coding: utf-8 -*-
"""C15 - calibration is applied on every read and never touches the stored values (DESIGN 4/C15)."""
import math
import os
import warnings

import numpy as np
from hypothesis import strategies as st

from vlib import gen

ID = "C15"
LEVEL = "exploration"
RULE = ("One case = one array (11 element types: 8 integer, 2 float, bool; rank 1-3, extents 1-6; a ramp of "
        "distinct values with type extremes / NaN / inf / -0.0 put at generated places; created from data or "
        "from dtype+shape) and a program of 1-6 set/change/clear ops on polynom_coefficients (None, [], lists "
        "or tuples of 1-5 int/float coefficients incl. zeros, |c| <= 1e3) and expansion_origin (None, 0, 0.0, "
        "+-2.5, 1e6, 3), interleaved with reads through da[:], np.asarray(da), read_direct, iteration, index "
        "expressions (ints, negative ints, stepped slices, ellipsis, empty tuple), single elements, DataView "
        "windows of get_slice(positions, extents) in index mode and expressions on them, tagged_data of a Tag on "
        "sampled axes and expressions on it; views optionally created before the calibration changed; handles "
        "cached or looked up afresh; close+reopen (read-only / read-write) steps. Oracle: NumPy model holding the "
        "raw ndarray; calibration active iff coefficients non-empty or origin truthy; active => float64 result "
        "equal to an independent float64 Horner evaluation of sum c_k (x-o)^k on raw[expr].astype(float64) within "
        "|got-want| <= 1e-9*sum|c_k||x-o|^k + 1e-300; inactive => stored element type and bitwise the raw "
        "values; after every attribute op (and in the closed file at every reopen) the HDF5 dataset read with "
        "h5py equals the model's raw array in dtype and bytes. A deterministic grid (every element type x 8 "
        "calibration states x every read path) is enumerated completely on each run; the rest is "
        "Hypothesis-generated. Non-trivial: a read under active calibration through a non-whole path, or under "
        "active calibration of integer/bool storage, or a read after a clear; distinct by case hash.")
ASSUMPTIONS = [
    "the HDF5 dataset '<array group>/data' read through h5py is the stored representation of the raw values",
    "a scalar selection is returned as a length-1 array (documented in DataArray._read_data); shapes otherwise "
    "follow NumPy basic indexing",
    "elements whose condition bound sum|c_k||x-o|^k overflows (> 1e300) or whose raw value is +-inf are "
    "unspecified and masked; a NaN raw value must give NaN",
    "tags use unit-less sampled axes with dyadic sampling intervals, no offset, positions on sample points and "
    "extents of whole samples (exclusive stop); an absent extent selects the one sample at the position",
    "view windows lie inside the array and have extents >= 1; index expressions are in bounds with steps >= 1",
    "read_direct is given a float64 buffer while calibration is active and a buffer of the stored type otherwise",
]
SHRINK = True
SHRINK_HINTS = {"keep_keys": ["op", "via", "how", "dtype", "create", "as", "mode"]}

INT_TYPES = ["int8", "int16", "int32", "int64", "uint8", "uint16", "uint32", "uint64"]
FLOAT_TYPES = ["float32", "float64"]
DTYPES = INT_TYPES + FLOAT_TYPES + ["bool"]
SPECIALS = ["nan", "inf", "-inf", "max", "-max", "tiny", "-tiny", "-0.0", "eps", "denorm"]
ORIGINS = [None, 0, 0.0, 2.5, -2.5, 1e6, 3]
IVLS = [1.0, 0.5, 0.25, 2.0]
STEPS = (None, 1, 2, 3)
HOWS = ("getitem", "asarray", "direct", "iter")
COND_MAX = 1e300


# ------------------------------------------------------------------ raw data

def _special(tok, dt):
    fi = np.finfo(dt)
    return {"nan": float("nan"), "inf": float("inf"), "-inf": float("-inf"), "max": float(fi.max),
            "-max": float(-fi.max), "tiny": float(fi.tiny), "-tiny": float(-fi.tiny), "-0.0": -0.0,
            "eps": float(fi.eps), "denorm": float(fi.tiny) / 4.0}[tok]


def build_raw(dtype, shape, data):
    """the raw ndarray of a case: ramp start + i*step (wrapped into the type), some places overwritten"""
    dt = np.dtype(dtype)
    n = 1
    for s in shape:
        n *= s
    start, step, put = data["start"], data["step"], data.get("put", [])
    if dt.kind in "iu":
        info = np.iinfo(dt)
        span = int(info.max) - int(info.min) + 1
        vals = [(int(start) + i * int(step) - int(info.min)) % span + int(info.min) for i in range(n)]
        for idx, v in put:
            vals[idx % n] = int(v)
        raw = np.array(vals, dtype=dt)
    elif dt.kind == "f":
        vals = [float(start) + i * float(step) for i in range(n)]
        for idx, v in put:
            vals[idx % n] = _special(v, dt) if isinstance(v, str) else float(v)
        with np.errstate(all="ignore"):
            raw = np.array(vals, dtype=np.float64).astype(dt)
    else:
        vals = [bool((int(start) + i * int(step) + (i // 3)) % 2) for i in range(n)]
        for idx, v in put:
            vals[idx % n] = bool(v)
        raw = np.array(vals, dtype=np.bool_)
    return np.ascontiguousarray(raw.reshape(tuple(shape)))


# ------------------------------------------------------------------ index expressions (same coding as C06)

def dec_comp(c):
    if c == "...":
        return Ellipsis
    if isinstance(c, dict):
        return slice(*c["s"])
    return int(c)


def dec_expr(e):
    if e is None:
        return slice(None)
    comps = [dec_comp(c) for c in e["c"]]
    if e.get("bare") and len(comps) == 1:
        return comps[0]
    return tuple(comps)


def expr_kind(e, rank):
    """whole / element / expr - the read-path class of an expression"""
    if e is None:
        return "whole"
    comps = e["c"]
    if all(c == "..." or c == {"s": [None, None, None]} for c in comps):
        return "whole"
    if len(comps) == rank and all(isinstance(c, int) and not isinstance(c, bool) for c in comps):
        return "element"
    return "expr"


def expr_ok(e, shape):
    """inside the input domain: well formed, in bounds for ``shape``, steps >= 1"""
    if e is None:
        return True
    if not isinstance(e, dict) or not isinstance(e.get("c"), list):
        return False
    comps = e["c"]
    if comps.count("...") > 1:
        return False
    nreal = len([c for c in comps if c != "..."])
    if nreal > len(shape):
        return False
    if "..." in comps:
        k = comps.index("...")
        axes = list(range(k)) + [None] + list(range(len(shape) - (len(comps) - k - 1), len(shape)))
    else:
        axes = list(range(len(comps)))
    for c, ax in zip(comps, axes):
        if c == "...":
            continue
        n = shape[ax]
        if isinstance(c, bool):
            return False
        if isinstance(c, int):
            if not -n <= c < n:
                return False
        elif isinstance(c, dict):
            s = c.get("s")
            if not isinstance(s, list) or len(s) != 3 or s[2] not in STEPS:
                return False
            for b in s[:2]:
                if b is not None and (isinstance(b, bool) or not isinstance(b, int) or abs(b) > n + 2):
                    return False
        else:
            return False
    return True


# ------------------------------------------------------------------ the reference model

def cal_state(coef, origin):
    a, b = len(coef) > 0, bool(origin)
    return "coef+origin" if a and b else "coef" if a else "origin" if b else "inactive"


def reference(sel, coef, origin):
    """(want, cond): float64 Horner evaluation of sum c_k (x-o)^k and the condition bound sum |c_k||x-o|^k"""
    with np.errstate(all="ignore"):
        x = np.asarray(sel).astype(np.float64)
        o = float(origin) if origin else 0.0
        y = x - o
        if len(coef) == 0:
            return y, np.abs(y)
        cs = [float(c) for c in coef]
        acc = np.full(y.shape, cs[-1], dtype=np.float64)
        for c in reversed(cs[:-1]):
            acc = acc * y + c
        ay = np.abs(y)
        cond = np.zeros(y.shape, dtype=np.float64)
        p = np.ones(y.shape, dtype=np.float64)
        for c in cs:
            cond = cond + abs(c) * p
            p = p * ay
        return acc, cond


def compare(got, sel, coef, origin):
    """None if ``got`` is what a read of the raw selection ``sel`` must return, else (problem, detail, masked)"""
    sel = np.asarray(sel)
    if sel.ndim == 0:
        sel = sel.reshape((1,))
    active = len(coef) > 0 or bool(origin)
    if not isinstance(got, np.ndarray):
        return "type", {"got_type": type(got).__name__}, 0
    if tuple(got.shape) != tuple(sel.shape):
        return "shape", {"want_shape": list(sel.shape), "got_shape": list(got.shape)}, 0
    if not active:
        if got.dtype != sel.dtype:
            return "dtype", {"want_dtype": str(sel.dtype), "got_dtype": str(got.dtype)}, 0
        if np.ascontiguousarray(got).tobytes() != np.ascontiguousarray(sel).tobytes():
            return "value", {"want": _brief(sel), "got": _brief(got)}, 0
        return None, None, 0
    if got.dtype != np.float64:
        return "dtype", {"want_dtype": "float64", "got_dtype": str(got.dtype), "stored": str(sel.dtype)}, 0
    want, cond = reference(sel, coef, origin)
    with np.errstate(all="ignore"):
        x = sel.astype(np.float64)
        isnan = np.isnan(x)
        masked = np.isinf(x) | ~(cond <= COND_MAX)
        masked &= ~isnan
        check = ~masked & ~isnan
        bad = np.zeros(sel.shape, dtype=bool)
        bad |= isnan & ~np.isnan(got)
        diff = np.abs(got - want)
        tol = 1e-9 * cond + 1e-300
        bad |= check & ~(np.isfinite(got) & (diff <= tol))
    nmask = int(masked.sum())
    if bad.any():
        k = int(np.flatnonzero(bad.ravel())[0])
        return "value", {"first_bad_flat_index": k, "raw": _num(sel.ravel()[k]), "want": _num(want.ravel()[k]),
                         "got": _num(got.ravel()[k]), "tolerance": _num(tol.ravel()[k]),
                         "bad_elements": int(bad.sum()), "elements": int(bad.size)}, nmask
    return None, None, nmask


def _num(v):
    v = v.item() if isinstance(v, np.generic) else v
    if isinstance(v, float) and not math.isfinite(v):
        return repr(v)
    return v


def _brief(a):
    return [_num(v) for v in np.asarray(a).ravel()[:8]]


# ------------------------------------------------------------------ the per-worker file

class Bench:
    """one file per worker, a fresh block per case, the file is dropped every PER_FILE cases"""
    PER_FILE = 150

    def __init__(self, ctx):
        import nixio
        import h5py
        self.nixio, self.h5py = nixio, h5py
        self.path = os.path.join(ctx.workdir, "c15.nix")
        self.f = None
        self.mode = None
        self.ncases = 0
        self.nblk = 0
        self.open("w")

    def open(self, mode):
        fm = self.nixio.FileMode
        self.f = self.nixio.File.open(self.path, {"w": fm.Overwrite, "a": fm.ReadWrite, "r": fm.ReadOnly}[mode])
        self.mode = "r" if mode == "r" else "a"

    def close(self):
        if self.f is not None:
            self.f.close()
            self.f = None

    def new_block(self):
        if self.mode != "a":
            self.close()
            self.open("a")
        self.ncases += 1
        if self.ncases % self.PER_FILE == 0:
            self.close()
            os.remove(self.path)
            self.open("w")
            self.nblk = 0
        self.nblk += 1
        name = "b%d" % self.nblk
        return name, self.f.create_block(name, "t")


def window_of(op, shape):
    """the index window (tuple of slices) a view / tag read addresses, from the case alone"""
    if op["via"] == "view":
        return tuple(slice(s, s + x) for s, x in op["win"])
    pos, ext = op["pos"], op.get("ext")
    sl = []
    for ax, n in enumerate(shape):
        if ax < len(pos):
            sl.append(slice(pos[ax], pos[ax] + (1 if ext is None else ext[ax])))
        else:
            sl.append(slice(0, n))
    return tuple(sl)


def tag_key(op):
    return (tuple(op["pos"]), None if op.get("ext") is None else tuple(op["ext"]))


# ------------------------------------------------------------------ one case

def run_case(case, ctx, bench):
    with warnings.catch_warnings():
        warnings.simplefilter("ignore")
        _run_case(case, ctx, bench)


def _run_case(case, ctx, bench):
    nixio = bench.nixio
    dtype, shape, prog = case["dtype"], list(case["shape"]), case["prog"]
    rank = len(shape)
    raw = build_raw(dtype, shape, case["data"])
    rawbytes = raw.tobytes()
    storage = "int" if raw.dtype.kind in "iu" else "bool" if raw.dtype.kind == "b" else "float"
    ivl = case.get("ivl", 1.0)
    classes = {"dtype:" + dtype, "rank%d" % rank, "create:" + case.get("create", "data")}
    nontrivial = False

    # ---------------- build: block, array, sampled axes, one tag per distinct (position, extent)
    blkname, blk = bench.new_block()
    if case.get("create", "data") == "data":
        da = blk.create_data_array("a", "t", data=raw)
    else:
        da = blk.create_data_array("a", "t", dtype=raw.dtype.type, shape=tuple(shape))
        da.write_direct(raw)
    tags = {}
    if any(op["op"] == "read" and op["via"] == "tag" for op in prog):
        for ax in range(rank):
            da.append_sampled_dimension(ivl if ax == 0 else 1.0)
        for op in prog:
            if op["op"] == "read" and op["via"] == "tag" and tag_key(op) not in tags:
                tname = "t%d" % len(tags)
                ivs = [ivl] + [1.0] * (rank - 1)
                t = blk.create_tag(tname, "t", [p * iv for p, iv in zip(op["pos"], ivs)])
                if op.get("ext") is not None:
                    t.extent = [x * iv for x, iv in zip(op["ext"], ivs)]
                t.references.append(da)
                tags[tag_key(op)] = tname

    S = {"blk": blk, "da": da, "early": {}}
    model = {"coef": (), "origin": None, "was_active": False, "after_clear": False}

    def handle(fresh):
        return S["blk"].data_arrays["a"] if fresh else S["da"]

    def make_view(op, fresh):
        if op["via"] == "view":
            starts = [w[0] for w in op["win"]]
            exts = [w[1] for w in op["win"]]
            if op.get("modearg"):
                return handle(fresh).get_slice(starts, exts, nixio.DataSliceMode.Index)
            return handle(fresh).get_slice(starts, exts)
        return S["blk"].tags[tags[tag_key(op)]].tagged_data(0)

    def open_segment(i0):
        """(re)acquire handles and create the 'early' views of the reads up to the next reopen"""
        S["blk"] = bench.f.blocks[blkname]
        S["da"] = S["blk"].data_arrays["a"]
        S["early"] = {}
        mode = bench.mode
        for j in range(i0, len(prog)):
            op = prog[j]
            if op["op"] == "reopen" or (op["op"] in ("coef", "origin") and mode == "r"):
                break
            if op["op"] == "read" and op["via"] in ("view", "tag") and op.get("early"):
                try:
                    S["early"][j] = make_view(op, False)
                except Exception as exc:       # reported when the read is executed
                    S["early"][j] = exc

    def stored_check(where, dset=None):
        """the HDF5 dataset, read with h5py, is the model's raw array (dtype and bytes)"""
        try:
            if dset is None:
                dset = S["da"]._h5group.group["data"]
            arr = dset[...]
        except Exception as exc:
            ctx.violation("C15/stored-raw/%s/unreadable" % where, case, {"raised": type(exc).__name__,
                                                                         "msg": str(exc)[:160]})
            return
        ctx.count("stored-raw-checks")
        if arr.dtype != raw.dtype or tuple(arr.shape) != tuple(raw.shape) or arr.tobytes() != rawbytes:
            ctx.violation("C15/stored-raw/%s" % where, case,
                          {"want_dtype": str(raw.dtype), "got_dtype": str(arr.dtype),
                           "want_shape": list(raw.shape), "got_shape": list(arr.shape),
                           "want": _brief(raw), "got": _brief(arr)})

    def reopen(mode, i_next):
        bench.close()
        try:
            with bench.h5py.File(bench.path, "r") as h5:
                stored_check("closed-file", h5["/data/%s/data_arrays/a/data" % blkname])
        finally:
            bench.open(mode)
        open_segment(i_next)

    open_segment(0)
    try:
        for i, op in enumerate(prog):
            kind = op["op"]
            if kind == "reopen":
                classes.add("reopen:" + op.get("mode", "a"))
                reopen(op.get("mode", "a"), i + 1)
                continue

            if kind in ("coef", "origin"):
                if bench.mode == "r":
                    reopen("a", i)
                    ctx.count("implicit-reopen-rw")
                v = op["v"]
                before = cal_state(model["coef"], model["origin"])
                if kind == "coef":
                    val = None if v is None else (tuple(v) if op.get("as") == "tuple" else list(v))
                    what = "set-coef" if v else "clear-coef"
                else:
                    val = v
                    what = "set-origin" if v else "clear-origin"
                try:
                    if kind == "coef":
                        handle(op.get("fresh")).polynom_coefficients = val
                        model["coef"] = tuple(float(c) for c in (v or ()))
                        classes.add("coef-len:%d" % len(model["coef"]))
                        if v and any(c == 0 for c in v):
                            classes.add("coef-with-zero")
                        if v and all(c == 0 for c in v):
                            classes.add("coef-all-zero")
                    else:
                        handle(op.get("fresh")).expansion_origin = val
                        model["origin"] = v
                        classes.add("origin:" + repr(v))
                except Exception as exc:
                    ctx.violation("C15/%s/refused" % what, case, {"op_index": i, "raised": type(exc).__name__,
                                                                 "msg": str(exc)[:160]})
                    # re-synchronise the model with what the library now says
                    try:
                        model["coef"] = tuple(float(c) for c in S["da"].polynom_coefficients)
                        model["origin"] = S["da"].expansion_origin
                    except Exception:
                        pass
                after = cal_state(model["coef"], model["origin"])
                ctx.count("attr-op:" + what)
                ctx.count("transition:%s->%s" % (before, after))
                if after == "inactive" and model["was_active"]:
                    model["after_clear"] = True
                    classes.add("cleared")
                elif after != "inactive":
                    model["was_active"] = True
                    model["after_clear"] = False
                stored_check(what)
                continue

            # ---------------- a read
            via, how, e = op["via"], op.get("how", "getitem"), op.get("e")
            coef, origin = model["coef"], model["origin"]
            state = cal_state(coef, origin)
            active = state != "inactive"
            if via == "da":
                sub = raw
            else:
                sub = raw[window_of(op, shape)]
            if how == "getitem":
                pkind = expr_kind(e, sub.ndim)
            else:
                pkind = {"asarray": "whole", "direct": "whole", "iter": "iter"}[how]
            path = "%s-%s" % (via, pkind if how in ("getitem", "iter") else how)
            ctx.count("read:" + path)
            ctx.count("read-state:" + state + ("(after-clear)" if model["after_clear"] else ""))
            ctx.count("read-storage:%s/%s" % (storage, "active" if active else "inactive"))
            if op.get("early") and via != "da":
                ctx.count("read:early-view")
                classes.add("early-view")
            if (active and (via != "da" or pkind != "whole")) or (active and storage != "float") \
                    or model["after_clear"]:
                nontrivial = True
            classes.add("path:" + path)
            classes.add("state:" + state)

            def viol(problem, detail, _via=via, _state=state, _i=i, _path=path):
                detail = dict(detail)
                detail.update(op_index=_i, path=_path, coefficients=list(coef), origin=origin, stored=dtype)
                ctx.violation("C15/read-%s/%s/%s" % (_via, problem, _state), case, detail)

            pairs = []
            try:
                if via == "da":
                    obj = handle(op.get("fresh"))
                else:
                    obj = S["early"].get(i) if op.get("early") else None
                    if isinstance(obj, Exception):
                        raise obj
                    if obj is None:
                        obj = make_view(op, op.get("fresh"))
                    if not obj.valid:
                        viol("window-invalid", {"window": [[s.start, s.stop] for s in window_of(op, shape)]})
                        continue
                    if tuple(obj.shape) != tuple(sub.shape):
                        viol("window-shape", {"want": list(sub.shape), "got": list(obj.shape)})
                        continue
                if how == "getitem":
                    pairs.append((obj[dec_expr(e)], sub[dec_expr(e)]))
                elif how == "asarray":
                    pairs.append((np.asarray(obj), sub))
                elif how == "direct":
                    buf = np.zeros(sub.shape, dtype=np.float64 if active else sub.dtype)
                    obj.read_direct(buf)
                    pairs.append((buf, sub))
                else:
                    items = list(obj)
                    if len(items) != sub.shape[0]:
                        viol("iter-length", {"want": int(sub.shape[0]), "got": len(items)})
                    pairs.extend(zip(items, [sub[k] for k in range(sub.shape[0])]))
            except Exception as exc:
                viol("error", {"raised": type(exc).__name__, "msg": str(exc)[:160]})
                continue
            for got, sel in pairs:
                problem, detail, nmask = compare(got, sel, coef, origin)
                if nmask:
                    ctx.count("masked-elements", nmask)
                ctx.count("elements-compared-under-tolerance" if active else "elements-compared-bitwise",
                          int(np.asarray(sel).size) - nmask)
                if problem:
                    viol(problem, detail)
                    break
    finally:
        # later cases use the same file: leave it open read-write
        if bench.f is None:
            bench.open("a")
    ctx.case(case, nontrivial, sorted(classes))


# ------------------------------------------------------------------ input domain (for shrinking)

def valid(case):
    try:
        return _valid(case)
    except Exception:
        return False


def _valid(case):
    if not isinstance(case, dict) or case.get("dtype") not in DTYPES:
        return False
    shape = case.get("shape")
    if not isinstance(shape, list) or not 1 <= len(shape) <= 3:
        return False
    if not all(isinstance(n, int) and not isinstance(n, bool) and 1 <= n <= 6 for n in shape):
        return False
    if case.get("create", "data") not in ("data", "shape") or case.get("ivl", 1.0) not in IVLS:
        return False
    dt = np.dtype(case["dtype"])
    data = case.get("data")
    if not isinstance(data, dict) or "start" not in data or "step" not in data:
        return False
    for k in ("start", "step"):
        v = data[k]
        if isinstance(v, bool) or not isinstance(v, (int, float)) or abs(v) > 1000:
            return False
        if dt.kind != "f" and not isinstance(v, int):
            return False
    for ent in data.get("put", []):
        if not isinstance(ent, list) or len(ent) != 2 or isinstance(ent[0], bool) or not isinstance(ent[0], int) \
                or ent[0] < 0:
            return False
        v = ent[1]
        if dt.kind in "iu":
            info = np.iinfo(dt)
            if isinstance(v, bool) or not isinstance(v, int) or not int(info.min) <= v <= int(info.max):
                return False
        elif dt.kind == "f":
            if isinstance(v, str):
                if v not in SPECIALS:
                    return False
            elif isinstance(v, bool) or not isinstance(v, (int, float)) or not math.isfinite(v) \
                    or abs(v) > float(np.finfo(dt).max):
                return False
        elif v not in (0, 1, True, False):
            return False
    prog = case.get("prog")
    if not isinstance(prog, list) or not prog:
        return False
    nattr = 0
    for op in prog:
        if not isinstance(op, dict):
            return False
        kind = op.get("op")
        if kind == "reopen":
            if op.get("mode", "a") not in ("a", "r"):
                return False
        elif kind == "coef":
            nattr += 1
            v = op.get("v", "missing")
            if v is not None:
                if not isinstance(v, list) or len(v) > 5 or op.get("as", "list") not in ("list", "tuple"):
                    return False
                for c in v:
                    if isinstance(c, bool) or not isinstance(c, (int, float)) or not math.isfinite(c) \
                            or abs(c) > 1e3:
                        return False
        elif kind == "origin":
            nattr += 1
            if "v" not in op or not any(op["v"] is o or (op["v"] == o and type(op["v"]) is type(o))
                                        for o in ORIGINS):
                return False
        elif kind == "read":
            via, how = op.get("via"), op.get("how", "getitem")
            if via not in ("da", "view", "tag") or how not in HOWS:
                return False
            if via != "da" and how in ("direct", "iter"):
                return False
            if via == "view":
                win = op.get("win")
                if not isinstance(win, list) or len(win) != len(shape):
                    return False
                for w, n in zip(win, shape):
                    if not isinstance(w, list) or len(w) != 2 or any(isinstance(x, bool) or not isinstance(x, int)
                                                                     for x in w):
                        return False
                    if w[0] < 0 or w[1] < 1 or w[0] + w[1] > n:
                        return False
            if via == "tag":
                pos, ext = op.get("pos"), op.get("ext")
                if not isinstance(pos, list) or not 1 <= len(pos) <= len(shape):
                    return False
                if ext is not None and (not isinstance(ext, list) or len(ext) != len(pos)):
                    return False
                for ax, p in enumerate(pos):
                    x = 1 if ext is None else ext[ax]
                    if any(isinstance(q, bool) or not isinstance(q, int) for q in (p, x)):
                        return False
                    if p < 0 or x < 1 or p + x > shape[ax]:
                        return False
            sub = shape if via == "da" else [s.stop - s.start for s in window_of(op, shape)]
            if how == "getitem":
                if not expr_ok(op.get("e"), sub):
                    return False
        else:
            return False
    return 1 <= nattr <= 6 or case.get("grid") is not None


# ------------------------------------------------------------------ generators

def _slice_comp(n):
    bound = st.one_of(st.none(), st.integers(-n - 1, n + 1))
    return st.tuples(bound, bound, st.sampled_from(STEPS)).map(lambda t: {"s": list(t)})


def comp_strategy(n):
    # mostly selections that keep something: ints in bounds, prefix/suffix/stepped slices
    keep = st.one_of(
        st.integers(0, n - 1).map(lambda a: {"s": [a, None, None]}),
        st.integers(1, n).map(lambda b: {"s": [None, b, None]}),
        st.sampled_from([2, 3]).map(lambda k: {"s": [None, None, k]}),
        st.integers(-n, -1).map(lambda a: {"s": [a, None, None]}),
    )
    return st.one_of(st.integers(-n, n - 1), st.integers(-n, n - 1), keep, keep, _slice_comp(n),
                     st.just({"s": [None, None, None]}))


@st.composite
def expr_for(draw, shape):
    rank = len(shape)
    what = draw(st.sampled_from(["whole", "element", "expr", "expr", "expr"]))
    if what == "whole":
        return draw(st.sampled_from([None, None, {"c": ["..."], "bare": True}, {"c": [], "bare": False},
                                     {"c": [{"s": [None, None, None]}] * rank, "bare": False}]))
    if what == "element":
        comps = [draw(st.integers(-n, n - 1)) for n in shape]
        return {"c": comps, "bare": rank == 1 and draw(st.booleans())}
    ncomp = draw(st.integers(1, rank))
    comps = [draw(comp_strategy(shape[i])) for i in range(ncomp)]
    if draw(st.integers(0, 3)) == 0:
        pos = draw(st.integers(0, len(comps)))
        right = len(comps) - pos
        comps = comps[:pos] + ["..."] + [draw(comp_strategy(shape[rank - right + i])) for i in range(right)]
    return {"c": comps, "bare": len(comps) == 1 and draw(st.booleans())}


@st.composite
def read_op(draw, shape):
    rank = len(shape)
    via = draw(st.sampled_from(["da", "da", "da", "view", "view", "view", "tag", "tag"]))
    op = {"op": "read", "via": via}
    if draw(st.integers(0, 3)) == 0:
        op["fresh"] = True
    if via == "da":
        how = draw(st.sampled_from(["getitem"] * 7 + ["asarray", "direct", "iter"]))
        sub = shape
    else:
        how = draw(st.sampled_from(["getitem"] * 6 + ["asarray"]))
        if draw(st.integers(0, 2)) == 0:
            op["early"] = True
        if via == "view":
            win = []
            for n in shape:
                s = draw(st.integers(0, n - 1))
                win.append([s, draw(st.integers(1, n - s))])
            op["win"] = win
            if draw(st.booleans()):
                op["modearg"] = True
        else:
            k = draw(st.integers(1, rank))
            pos = [draw(st.integers(0, shape[ax] - 1)) for ax in range(k)]
            if draw(st.integers(0, 4)) == 0:
                op["pos"], op["ext"] = pos, None
            else:
                op["pos"] = pos
                op["ext"] = [draw(st.integers(1, shape[ax] - pos[ax])) for ax in range(k)]
        sub = [s.stop - s.start for s in window_of(op, shape)]
    op["how"] = how
    if how == "getitem":
        op["e"] = draw(expr_for(sub))
    return op


COEF_VALUES = st.one_of(
    st.sampled_from([1.0, 1, -1.0, 0.5, 2, -3, 0, 0.0, 1e3, -1e3, 1e-3, 0.1, -0.7]),
    st.sampled_from([0.25, 0, 1.5, 0.0]),
    st.integers(-10, 10).filter(lambda i: i != 0),
    st.floats(-1e3, 1e3, allow_nan=False, allow_infinity=False),
    st.integers(-80, 80).map(lambda i: i / 8.0),
)


@st.composite
def attr_op(draw):
    which = draw(st.sampled_from(["coef", "coef", "coef", "origin", "origin"]))
    op = {"op": which}
    if which == "coef":
        kind = draw(st.sampled_from(["set", "set", "set", "set", "none", "empty"]))
        if kind == "none":
            op["v"] = None
        elif kind == "empty":
            op["v"] = []
        else:
            op["v"] = draw(st.lists(COEF_VALUES, min_size=1, max_size=5))
        if op["v"] is not None and draw(st.integers(0, 2)) == 0:
            op["as"] = "tuple"
    else:
        op["v"] = draw(st.sampled_from(ORIGINS + [2.5, -2.5, 1e6]))
    if draw(st.integers(0, 3)) == 0:
        op["fresh"] = True
    return op


@st.composite
def data_strategy(draw, dtype):
    dt = np.dtype(dtype)
    idx = st.integers(0, 63)
    if dt.kind in "iu":
        info = np.iinfo(dt)
        lo, hi = int(info.min), int(info.max)
        start = draw(st.integers(max(lo, -20), 20))
        step = draw(st.integers(1, 3))
        vals = st.one_of(st.sampled_from([lo, hi, lo + 1, hi - 1, 0, 1, hi // 2, 2 ** 53 + 1 if hi > 2 ** 53 else hi]),
                         st.integers(lo, hi))
    elif dt.kind == "f":
        start = draw(st.integers(-80, 80)) / 4.0
        step = draw(st.sampled_from([0.25, 0.5, 1.0, 1.75, -0.5]))
        big = 3e38 if dt.itemsize == 4 else 1e300
        vals = st.one_of(st.sampled_from(SPECIALS), st.sampled_from(SPECIALS),
                         st.floats(-1e6, 1e6, allow_nan=False, allow_infinity=False),
                         st.floats(-big, big, allow_nan=False, allow_infinity=False),
                         st.sampled_from([0.1, 1e-7, 1e15 + 0.5, 16777217.0, 1e6, 2.5]))
    else:
        start, step = draw(st.integers(0, 1)), 1
        vals = st.integers(0, 1)
    put = draw(st.lists(st.tuples(idx, vals).map(list), max_size=6))
    return {"start": start, "step": step, "put": put}


@st.composite
def case_strategy(draw):
    dtype = draw(st.sampled_from(DTYPES))
    rank = draw(st.sampled_from([1, 2, 2, 3]))
    shape = [draw(st.integers(1, 6 if rank == 1 else 4)) for _ in range(rank)]
    case = {"dtype": dtype, "shape": shape, "data": draw(data_strategy(dtype)),
            "create": draw(st.sampled_from(["data", "data", "shape"])), "ivl": draw(st.sampled_from(IVLS))}
    prog = [draw(read_op(shape)) for _ in range(draw(st.integers(0, 1)))]
    for _ in range(draw(st.integers(1, 6))):
        prog.append(draw(attr_op()))
        if draw(st.integers(0, 5)) == 0:
            prog.append({"op": "reopen", "mode": draw(st.sampled_from(["a", "r"]))})
        for _ in range(draw(st.integers(1, 3))):
            prog.append(draw(read_op(shape)))
        if draw(st.integers(0, 7)) == 0:
            prog.append({"op": "reopen", "mode": draw(st.sampled_from(["a", "r"]))})
            prog.append(draw(read_op(shape)))
    case["prog"] = prog
    return case


# ------------------------------------------------------------------ the deterministic grid

GRID_STATES = {
    "never": [],
    "coef": [{"op": "coef", "v": [1.5, -2, 0.25]}],
    "origin": [{"op": "origin", "v": 2.5}],
    "coef+origin": [{"op": "coef", "v": [0.5, 2.0, -1.0, 0.125], "as": "tuple"}, {"op": "origin", "v": -2.5}],
    "cleared": [{"op": "coef", "v": [3, 0.5]}, {"op": "origin", "v": 1e6}, {"op": "coef", "v": None},
                {"op": "origin", "v": None}],
    "falsy": [{"op": "origin", "v": 0.0}, {"op": "coef", "v": []}, {"op": "origin", "v": 0}],
    "coef-zero": [{"op": "coef", "v": [0.0]}],
    "changed": [{"op": "coef", "v": [1, 1]}, {"op": "origin", "v": 3}, {"op": "coef", "v": [0, 0, 2.0]},
                {"op": "origin", "v": 0}],
}


def grid_reads():
    R = lambda **kw: dict(op="read", **kw)     # noqa: E731
    S = lambda a, b, c: {"s": [a, b, c]}       # noqa: E731
    win = [[1, 2], [1, 3]]
    return [
        R(via="da", how="getitem", e=None),
        R(via="da", how="asarray", fresh=True),
        R(via="da", how="direct"),
        R(via="da", how="iter"),
        R(via="da", how="getitem", e={"c": [S(1, None, None), S(None, None, 2)], "bare": False}),
        R(via="da", how="getitem", e={"c": [-1, 2], "bare": False}, fresh=True),
        R(via="da", how="getitem", e={"c": ["...", 1], "bare": False}),
        R(via="da", how="getitem", e={"c": [0], "bare": True}),
        R(via="view", how="getitem", win=win, e=None),
        R(via="view", how="getitem", win=win, e={"c": [0, S(1, None, None)], "bare": False}, early=True),
        R(via="view", how="getitem", win=win, e={"c": [1, -1], "bare": False}, modearg=True),
        R(via="view", how="asarray", win=[[0, 3], [0, 4]], early=True),
        R(via="view", how="getitem", win=win, e={"c": ["...", S(None, None, 2)], "bare": False}, fresh=True),
        R(via="tag", how="getitem", pos=[1], ext=[2], e=None, early=True),
        R(via="tag", how="getitem", pos=[1], ext=[2], e={"c": [-1, S(None, 3, None)], "bare": False}),
        R(via="tag", how="getitem", pos=[0, 1], ext=None, e={"c": [0, 0], "bare": False}),
        R(via="tag", how="asarray", pos=[0, 2], ext=[3, 2]),
    ]


def grid_cases(dtypes):
    for dtype in dtypes:
        dt = np.dtype(dtype)
        if dt.kind in "iu":
            info = np.iinfo(dt)
            data = {"start": 0 if dt.kind == "u" else -3, "step": 2,
                    "put": [[5, int(info.max)], [6, int(info.min)], [11, int(info.max) - 1]]}
        elif dt.kind == "f":
            data = {"start": -1.25, "step": 0.75, "put": [[5, "max"], [6, "nan"], [3, "-0.0"], [10, "tiny"],
                                                          [9, "-inf"], [2, 0.1]]}
        else:
            data = {"start": 0, "step": 1, "put": []}
        for name in sorted(GRID_STATES):
            ops = [dict(o) for o in GRID_STATES[name]]
            reads = grid_reads()
            prog = reads[:1] + ops[:1] + reads[4:6] + ops[1:] + reads + \
                [{"op": "reopen", "mode": "r"}] + [reads[0], reads[9], reads[13], reads[5]] + \
                [{"op": "reopen", "mode": "a"}] + [reads[4], reads[10]]
            yield {"grid": name, "dtype": dtype, "shape": [3, 4], "data": data, "create": "data", "ivl": 0.5,
                   "prog": prog}


# ------------------------------------------------------------------ runner interface

def shards(tier, seed):
    specs = [{"part": "grid", "dtypes": DTYPES[i::4], "seed": seed} for i in range(4)]
    nrand, per = (16, 150) if tier == "quick" else (64, 400)
    for i in range(nrand):
        specs.append({"part": "random", "n": per, "seed": seed * 1000 + i})
    return specs


def run_shard(spec, ctx):
    bench = Bench(ctx)
    try:
        if spec["part"] == "grid":
            for case in grid_cases(spec["dtypes"]):
                run_case(case, ctx, bench)
            ctx.exhaustive = True
        else:
            gen.generate(case_strategy(), spec["n"], spec["seed"], lambda c: run_case(c, ctx, bench))
    finally:
        bench.close()


def replay(case, ctx):
    bench = Bench(ctx)
    try:
        run_case(case, ctx, bench)
    finally:
        bench.close()
