# -*- coding: utf-8 -*-
"""C02 - closing and reopening a file reproduces the complete observable state (DESIGN 4/C02)."""
import os
import re

from hypothesis import strategies as st

from vlib import gen, ops, walk
from vlib.interp import CONTAINER, Interp

ID = "C02"
LEVEL = "exploration"
RULE = ("Hypothesis-generated op programs (create / set-attribute / link / unlink / write / delete over all "
        "entity kinds, attribute values incl. None, '' and non-ASCII, handles obtained by name, id, index, "
        "negative index or cached object), optionally after a densely linked two-block prefix, with "
        "close+reopen checkpoints inserted at generated positions and a final reopen. Oracles: (i) round "
        "trip - canonical walk before close == walk after read-only reopen == walk after read-write reopen; "
        "(ii) determination by the calls - the skeleton model (which entities exist, container order, link "
        "lists, role links, last-written attribute values, property values, array shapes) agrees with the "
        "walk at every checkpoint. Non-trivial: >= 3 mutating ops on >= 2 entity kinds before a reopen with at "
        "least one set-attribute, link or delete; distinct by program hash.")
ASSUMPTIONS = [
    "unit values are drawn from already-sanitised spellings (clean-up is C09's subject)",
    "after an op that was refused the model comparison (ii) is suspended for the rest of the program "
    "(atomicity of refusals is C12's subject); the round trip (i) is still checked",
    "re-appending an existing member of a link list may keep or move its position",
]

ENABLED = (ops.CREATE * 2 + ops.SETTERS * 2 + ops.LINKS + ops.DATA + ["prop_set_other"] * 2 + ops.FRAME + ["frame_grow"] * 4 + ops.DELETE + ["del"] * 6 + ["force_ts"] * 5 + ["flush"] + ["reopen"] * 8 + ["overwrite"] * 10 + ["relink"] * 12 + ["multi_append"] * 12)


def keyify(path):
    return re.sub(r"\[\d+\]", "", path) or "/"


MUTATING_PREFIX = ("mk_", "set", "link", "unlink", "del", "write", "append", "resize", "prop_", "dim_link",
                   "force_ts", "clear_ext")


def _num(x):
    if isinstance(x, bool):
        return None
    if isinstance(x, int):
        return float(x)
    if isinstance(x, dict) and set(x) == {"f"}:
        return float(x["f"])
    return None


def _numeq(a, b):
    """2 and 2.0 are the same attribute value; NaN equals NaN"""
    if isinstance(a, list) and isinstance(b, list):
        return len(a) == len(b) and all(x == y or _numeq(x, y) for x, y in zip(a, b))
    x, y = _num(a), _num(b)
    return x is not None and y is not None and (x == y or (x != x and y != y))


def model_check(it, W, ctx, case, where):
    """(ii): skeleton model vs walk"""
    nodes = {n["id"]: n for n in walk.entities(W) if n.get("kind") != "File" and n.get("kind") != "DimensionLink"}
    alive = [e for e in it.ents if e.alive]
    kindname = {"block": "Block", "section": "Section", "prop": "Property", "group": "Group", "array": "DataArray",
                "frame": "DataFrame", "tag": "Tag", "mtag": "MultiTag", "source": "Source", "feature": "Feature"}

    def v(key, detail):
        detail = dict(detail)
        detail["where"] = where
        ctx.violation("C02/model/" + key, case, detail)

    alive_ids = {e.id for e in alive}
    for e in alive:
        n = nodes.get(e.id)
        if n is None:
            v("missing-entity/" + e.kind, {"entity": e.path()})
            continue
        if n["kind"] != kindname[e.kind]:
            v("kind-changed", {"entity": e.path(), "got": n["kind"]})
        if e.kind != "feature" and n.get("name") != e.name:
            v("name/" + e.kind, {"entity": e.path(), "got": n.get("name")})
        for attr, val in e.attrs.items():
            if attr not in n:
                continue
            want = walk.cval(val)
            if attr in ("polynom_coefficients", "extent", "units", "position") and val is None and \
                    not (e.kind == "frame" and attr == "units"):          # a frame without units reads None
                want = []
            if attr in ("position", "extent", "polynom_coefficients") and val is not None:
                want = [walk.cfloat(x) for x in val]
            if attr in ("expansion_origin", "uncertainty") and val is not None:
                want = walk.cfloat(val)
            if attr in ("unit",) and val == "":
                want = None
            got = n[attr]
            if e.kind == "frame" and attr == "units" and isinstance(got, dict) and "values" in got:
                got = got["values"]           # the frame's units come back as an array of text (None rendered as text)
                want = None if want is None else ["None" if x is None else x for x in want]
            if got != want and not _numeq(got, want):
                v("attr/%s.%s" % (e.kind, attr), {"entity": e.path(), "want": want, "got": n[attr]})
        if e.kind == "array" and isinstance(n.get("dimensions"), list):
            # numeric descriptor attributes: the value written last (int or float) is the value read
            for i, d in enumerate(e.info.get("dims", [])):
                if i >= len(n["dimensions"]) or not isinstance(n["dimensions"][i], dict):
                    continue
                for attr, val in (d.get("attrs") or {}).items():
                    got = n["dimensions"][i].get(attr)
                    want = walk.cval(val)
                    if attr == "offset" and got is None and (val is None or val == 0):
                        continue        # 'no offset' and offset 0 are the same descriptor
                    if got != want and not _numeq(got, want):
                        v("attr/dimension.%s" % attr, {"entity": e.path(), "dim": i, "want": want, "got": got})
        for role, lst in e.children.items():
            if role not in n:
                continue
            got = [c.get("id") for c in n[role]]
            want = [c.id for c in lst]
            if got != want:
                v("children/%s.%s" % (e.kind, role), {"entity": e.path(), "want": want, "got": got})
        for role, lst in e.links.items():
            got = [r.get("ref") for r in n.get(role, [])]
            want = [x.id for x in lst]
            if role in e.info.get("relinked", ()):
                ok = sorted(got) == sorted(want)
            else:
                ok = got == want
            if not ok:
                v("links/%s.%s" % (e.kind, role), {"entity": e.path(), "want": want, "got": got})
        for role, tgt in e.single.items():
            got = n.get(role)
            if tgt == "dangling":
                if isinstance(got, dict) and got.get("ref") in alive_ids:
                    v("single/%s.%s" % (e.kind, role), {"entity": e.path(), "want": "not an existing entity", "got": got})
            elif tgt is None:
                if got is not None:
                    v("single/%s.%s" % (e.kind, role), {"entity": e.path(), "want": None, "got": got})
            elif got != {"ref": tgt.id}:
                v("single/%s.%s" % (e.kind, role), {"entity": e.path(), "want": tgt.id, "got": got})
        if e.kind == "prop":
            want = [walk.cval(x) for x in e.info["vals"]]
            if n.get("values") != want:
                v("prop.values", {"entity": e.path(), "want": want, "got": n.get("values")})
        if e.kind == "array":
            if n.get("shape") != list(e.info["shape"]):
                v("array.shape", {"entity": e.path(), "want": list(e.info["shape"]), "got": n.get("shape")})
            if isinstance(n.get("dimensions"), list) and len(n["dimensions"]) != len(e.info["dims"]):
                v("array.dimension-count", {"entity": e.path(), "want": len(e.info["dims"]), "got": len(n["dimensions"])})
    # nothing deleted may reappear, nothing uncreated may exist
    for nid, n in nodes.items():
        if nid not in alive_ids:
            v("unexpected-entity/" + n["kind"], {"name": n.get("name"), "id": nid})
    top = {"blocks": [e.id for e in it.root.children.get("blocks", [])],
           "sections": [e.id for e in it.root.children.get("sections", [])]}
    for role, want in top.items():
        got = [c.get("id") for c in W.get(role, [])]
        if got != want:
            v("children/file." + role, {"want": want, "got": got})


def checkpoint(it, ctx, case, where, state):
    Wb = walk.walk(it.f)
    if not state["suspended"]:
        model_check(it, Wb, ctx, case, where + ":before-close")
    it.reopen("r")
    Wr = walk.walk(it.f)
    d = walk.diff(Wb, Wr)
    if d:
        ctx.violation("C02/roundtrip/read-only" + keyify(d[0]), case,
                      {"where": where, "path": d[0], "before": walk.brief(d[1]), "after": walk.brief(d[2])})
    it.reopen("a")
    Wa = walk.walk(it.f)
    d = walk.diff(Wb, Wa)
    if d:
        ctx.violation("C02/roundtrip/read-write" + keyify(d[0]), case,
                      {"where": where, "path": d[0], "before": walk.brief(d[1]), "after": walk.brief(d[2])})
    state["checkpoints"] += 1


def run_case(case, ctx):
    path = os.path.join(ctx.workdir, "c02.nix")
    if os.path.exists(path):
        os.remove(path)
    prog = (ops.rich_prefix() if case.get("rich") else []) + case["prog"]
    it = Interp(path, policy=case.get("policy", "fresh"))
    state = {"suspended": False, "checkpoints": 0}
    mutating = 0
    kinds = set()
    flavour = set()
    nontrivial = False
    raised = 0
    try:
        for i, op in enumerate(prog):
            if op["op"] == "reopen":
                if mutating >= 3 and len(kinds) >= 2 and flavour:
                    nontrivial = True
                checkpoint(it, ctx, case, "op%d" % i, state)
                mutating, kinds, flavour = 0, set(), set()
                continue
            st_ = it.step(op)
            if st_.startswith("raised"):
                raised += 1
                if st_ != "raised:DuplicateName":     # refused before anything is touched
                    state["suspended"] = True
            elif st_ == "ok" and op["op"].startswith(MUTATING_PREFIX):
                mutating += 1
                kinds.add(op.get("k") or op["op"])
                if op["op"].startswith(("set", "link", "unlink", "del")):
                    flavour.add(op["op"])
        if mutating >= 3 and len(kinds) >= 2 and flavour:
            nontrivial = True
        checkpoint(it, ctx, case, "final", state)
    finally:
        it.close()
        try:
            os.remove(path)
        except OSError:
            pass
    classes = ["handles:" + case.get("policy", "fresh"), "sweep" if len(case["prog"]) > 90 else ("rich" if case.get("rich") else "plain"), "refusals:%s" % ("0" if not raised else "1+"),
               "checkpoints:%d" % min(state["checkpoints"], 4)]
    for k, n in it.stats.items():
        if k.startswith("raised"):
            ctx.count("op-" + k, n)
    ctx.count("ops-ok", sum(n for k, n in it.stats.items() if k.startswith("ok:")))
    ctx.count("ops-skipped", sum(n for k, n in it.stats.items() if k.startswith("skip:")))
    ctx.case(case, nontrivial, classes,
             sample={"rich": case.get("rich", False), "prog": case["prog"][:12], "len": len(case["prog"])})


def case_strategy(max_ops):
    return st.fixed_dictionaries({
        "rich": st.booleans(),
        "policy": st.sampled_from(["fresh", "cached", "two", "two"]),
        "prog": ops.program(ENABLED, min_size=max(3, max_ops // 2), max_size=max_ops,
                            name_pool=["a", "b", "sig", "sub", "ü"]),
    })


def sweep_strategy():
    return st.fixed_dictionaries({"rich": st.just(True), "policy": st.sampled_from(["fresh", "cached", "two"]),
                                  "prog": ops.attr_sweep()})


def shards(tier, seed):
    n, per, mx = (16, 15, 25) if tier == "quick" else (64, 60, 40)
    specs = [{"n": per, "max_ops": mx, "seed": seed * 1000 + i} for i in range(n)]
    ns, pers = (16, 2) if tier == "quick" else (32, 20)
    specs += [{"sweep": True, "n": pers, "seed": seed * 1000 + 500 + i} for i in range(ns)]
    return specs


def run_shard(spec, ctx):
    if spec.get("sweep"):
        gen.generate(sweep_strategy(), spec["n"], spec["seed"], lambda c: run_case(c, ctx))
    else:
        gen.generate(case_strategy(spec["max_ops"]), spec["n"], spec["seed"], lambda c: run_case(c, ctx))


def replay(case, ctx):
    run_case(case, ctx)


def valid(case):
    return isinstance(case, dict) and isinstance(case.get("prog"), list) and \
        all(isinstance(o, dict) and "op" in o for o in case["prog"])
