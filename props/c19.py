# -*- coding: utf-8 -*-
"""C19 - timestamps: creation time is fixed, update time follows attribute changes (DESIGN 4/C19)."""
import datetime as _dt
import os

from hypothesis import strategies as st

from vlib import gen, ops, walk
from vlib.interp import Interp

ID = "C19"
LEVEL = "exploration"
RULE = ("Hypothesis-generated op programs over all entity kinds run under a harness-controlled clock (every op is "
        "preceded by an advance of 0 / 1 / 2 / 3600 / 1e6 s), with auto_update_timestamps chosen at open time and "
        "toggled by ops, force_created_at / force_updated_at with whole seconds in [0, 4102444800] (1970-2100, "
        "boundaries and leap days included) and reopen ops; plus an attribute sweep writing every (kind, attribute) "
        "of the must-update table. Oracle: timestamp model taken from the walk before / after every single op: "
        "created_at changes only by force_created_at on that entity; with auto off nothing changes except by a force "
        "call; with auto on a must-update attribute change sets exactly the target's updated_at to the clock and "
        "nobody else's; for all other ops only entities involved in the op may change and only to the current "
        "clock; updated_at never decreases; forced seconds read back exactly, also after reopen. Non-trivial: a "
        "must-update op with auto on and >= 3 other entities present, or any mutating op with auto off, or a "
        "force/read-back pair; distinct by program hash.")
ASSUMPTIONS = [
    "the clock is replaced from outside (nixio.util.util.datetime); the check first verifies that a freshly created "
    "entity carries the fake time and exits 2 (harness error) otherwise",
    "property and dimension-descriptor setters are not in the must-update table (the statement lists entity "
    "attributes); they are covered by the 'nobody else changes' half only",
    "an op that raises is not required to leave updated_at alone here (C12's subject) but must not touch created_at",
]

MUST = {
    "type": {"block", "group", "source", "array", "frame", "tag", "mtag", "section"},
    "definition": {"block", "group", "source", "array", "frame", "tag", "mtag", "section"},
    "label": {"array"}, "unit": {"array"}, "polynom_coefficients": {"array"}, "expansion_origin": {"array"},
    "position": {"tag"}, "extent": {"tag"}, "units": {"tag", "mtag"},
    "reference": {"section"}, "repository": {"section"}, "link_type": {"feature"},
}


class Clock:
    def __init__(self, start=1600000000):
        self.t = int(start)

    def advance(self, dt):
        self.t += int(dt)


_CLOCK = Clock()


def install_clock():
    import nixio.util.util as uu

    if getattr(uu.datetime, "_c19_fake", False):
        return

    class FakeDT(_dt.datetime):
        _c19_fake = True

        @classmethod
        def now(cls, tz=None):
            return cls.utcfromtimestamp(_CLOCK.t)

        @classmethod
        def utcfromtimestamp(cls, t):
            # naive UTC, without the deprecation warning of the stdlib spelling
            d = _dt.datetime(1970, 1, 1) + _dt.timedelta(seconds=t)
            return cls(d.year, d.month, d.day, d.hour, d.minute, d.second)
    uu.datetime = FakeDT


def stamps(W):
    out = {}
    for n in walk.entities(W):
        if "created_at" in n or "updated_at" in n:
            out[n["id"]] = (n.get("created_at"), n.get("updated_at"), n.get("kind"))
    return out


def involved(it, op):
    """ids of the entities an op addresses (target, owner, parent of a created child, link target)"""
    ids = set()

    def add(e):
        if e is not None and e is not it.root:
            ids.add(e.id)
        elif e is it.root:
            ids.add(it.root.id)
    o = op["op"]
    if o in ("set", "force_ts", "del", "set_meta", "del_meta", "link", "unlink"):
        e = it.pick(op["k"], op["t"]) if op.get("k") != "file" else it.root
        add(e)
        if o == "del" and e is not None:
            add(e.parent)
    elif o == "mk_block":
        add(it.root)
    elif o == "mk_section":
        add(it.pick("section", op.get("p")) if op.get("p") is not None else it.root)
    elif o == "mk_prop":
        add(it.pick("section", op["sec"]))
    elif o in ("mk_group", "mk_array", "mk_frame", "mk_tag", "mk_mtag"):
        add(it.pick("block", op["blk"]))
    elif o == "mk_source":
        blk = it.pick("block", op["blk"])
        add(blk)
        if op.get("p") is not None and blk is not None:
            add(it.pick("source", op.get("p"), lambda s: s.block() is blk))
    elif o == "mk_feature":
        add(it.pick(op.get("on", "tag"), op["t"]))
    elif o in ("mk_dim", "set_dim", "dim_link", "del_dims", "write", "append", "resize"):
        if o == "set_dim":
            da, di = it.resolve_set_dim(op)
            add(da)
            if da is not None:
                d = da.info["dims"][di]
                if d.get("link") not in (None, "dangling"):
                    add(d["link"])
        else:
            add(it.pick("array", op["da"], (lambda a: a.info.get("dims")) if o == "dim_link" else None))
    elif o in ("frame_units", "frame_add_col", "frame_add_rows"):
        add(it.pick("frame", op["t"]))
    elif o in ("set_pos", "clear_ext"):
        add(it.pick("mtag", op["t"]))
    elif o == "sec_link":
        add(it.pick("section", op["t"]))
    elif o == "set_featdata":
        add(it.pick("feature", op["t"]))
    elif o in ("prop_set", "prop_ext", "prop_clear"):
        p = it.pick("prop", op["t"])
        add(p)
        if p is not None:
            add(p.parent)
    return ids


def must_target(it, op):
    """id of the entity whose updated_at must become 'now' (auto on), or None"""
    o = op["op"]
    if o == "set" and op["k"] in MUST.get(op["attr"], ()):
        e = it.pick(op["k"], op["t"])
        return (e.id, "%s.%s" % (op["k"], op["attr"])) if e is not None else None
    if o == "mk_dim":
        e = it.pick("array", op["da"])
        return (e.id, "array.append_%s_dimension" % ("range_dimension_using_self" if op["kind"] == "self" else op["kind"])) \
            if e is not None else None
    if o == "frame_units":
        e = it.pick("frame", op["t"])
        return (e.id, "frame.units") if e is not None else None
    if o == "set_pos":
        e = it.pick("mtag", op["t"])
        if e is None or it.pick("array", op["da"], lambda a: a.parent is e.parent and a.info["dtype"] != "str") is None:
            return None
        return (e.id, "mtag.%s" % op.get("role", "positions"))
    if o == "clear_ext":
        e = it.pick("mtag", op["t"], lambda m: m.single.get("extents") is not None)
        return (e.id, "mtag.extents") if e is not None else None
    if o == "set_featdata":
        e = it.pick("feature", op["t"])
        if e is None or it.pick("array", op["da"], lambda a: a.parent is e.parent.parent) is None:
            return None
        return (e.id, "feature.data")
    return None


def retained_check(it, S, ctx, case, i, op):
    """
    Handles obtained earlier (at creation, or right after a reopen) and already used for reading are access
    paths too: the timestamps they report must be the stored ones (what the walk reads through fresh handles),
    whoever forced or updated them.  Reading here also 'warms' the handles for the following ops.
    """
    for e in it.ents:
        if not e.alive or e is it.root or e.id not in S:
            continue
        h = e.handle
        if h is None:
            try:
                h = e.handle = it.handle(e, "_raw")
            except Exception:  # noqa
                continue
        try:
            got = (h.created_at, h.updated_at)
        except Exception as exc:  # noqa
            ctx.violation("C19/retained-handle/raised/%s" % e.kind, case, {"op": i, "exc": type(exc).__name__})
            continue
        want = S[e.id][:2]
        for which, g, w in (("created_at", got[0], want[0]), ("updated_at", got[1], want[1])):
            if g != w:
                ctx.violation("C19/retained-handle/stale-%s/%s" % (which, e.kind), case,
                              {"op": i, "through-retained-handle": g, "stored": w, "last-op": _opname(op) if op else None})


def run_case(case, ctx):
    install_clock()
    path = os.path.join(ctx.workdir, "c19.nix")
    if os.path.exists(path):
        os.remove(path)
    _CLOCK.t = 1600000000 + case.get("t0", 0)
    it = Interp(path, clock=_CLOCK, auto_ts=case.get("auto", True), policy=case.get("policy", "fresh"))
    flags = set()
    nontrivial = False
    try:
        # harness self-test: the clock must be under control
        probe = it.f.create_block("c19-clock-probe", "t")
        if probe.created_at != _CLOCK.t or probe.updated_at != _CLOCK.t:
            raise RuntimeError("clock not controllable: created_at=%r clock=%r" % (probe.created_at, _CLOCK.t))
        del it.f.blocks["c19-clock-probe"]
        for op in (ops.rich_prefix() if case.get("rich") else []):
            it.step(op)
        forced = {}     # id -> {"created"/"updated": t}
        S0 = stamps(walk.walk(it.f, data=False))
        retained_check(it, S0, ctx, case, -1, None)
        for i, op in enumerate(case["prog"]):
            o = op["op"]
            if o == "tick":
                _CLOCK.advance(op.get("dt", 1))
                continue
            if o == "reopen":
                Sb = stamps(walk.walk(it.f, data=False))
                it.reopen("r" if op.get("mode") == "r" else "a")
                Sa = stamps(walk.walk(it.f, data=False))
                if op.get("mode") == "r":
                    it.reopen("a")
                for k in Sb:
                    if Sa.get(k) != Sb[k]:
                        ctx.violation("C19/reopen/timestamp-changed/%s" % Sb[k][2], case,
                                      {"op": i, "before": Sb[k][:2], "after": (Sa.get(k) or (None, None))[:2]})
                flags.add("reopen")
                S0 = Sa
                retained_check(it, S0, ctx, case, i, op)
                continue
            auto = it.auto_ts
            now = _CLOCK.t
            inv = involved(it, op)
            mt = must_target(it, op) if auto else None
            st_ = it.step(op)
            if st_ == "skip":
                continue
            S1 = stamps(walk.walk(it.f, data=False))
            retained_check(it, S1, ctx, case, i, op)
            if o == "auto_ts":
                flags.add("toggle")
                for k, v in S0.items():
                    if k in S1 and S1[k][:2] != v[:2]:
                        ctx.violation("C19/toggle/timestamp-changed", case, {"op": i})
                S0 = S1
                continue
            ok = st_ == "ok"
            fkind = None
            if o == "force_ts" and ok:
                e = it.pick(op["k"], op["t"]) if op["k"] != "file" else it.root
                fid = e.id
                fkind = op.get("which", "updated")
                want = op.get("time")
                got = S1.get(fid, (None, None))[0 if fkind == "created" else 1]
                flags.add("force")
                nontrivial = True
                if want is not None and got != want:
                    ctx.violation("C19/force_%s_at/read-back/%s" % (fkind, e.kind), case,
                                  {"op": i, "want": want, "got": got})
                forced.setdefault(fid, {})[fkind] = got
            if not auto and ok and o not in ("force_ts",):
                nontrivial = True
                flags.add("auto-off-op")
            if mt is not None and ok and sum(1 for k in S0) >= 4:
                nontrivial = True
                flags.add("must-update-op")
            for k, (c0, u0, kind) in S0.items():
                if k not in S1:
                    continue            # deleted by this op
                c1, u1, _ = S1[k]
                is_forced = (o == "force_ts" and ok and k == (it.root.id if op["k"] == "file" else
                                                              getattr(it.pick(op["k"], op["t"]), "id", None)))
                # 1. created_at is fixed
                if c1 != c0 and not (is_forced and fkind == "created"):
                    ctx.violation("C19/created_at-changed/%s/%s" % (kind, _opname(op)), case,
                                  {"op": i, "before": c0, "after": c1, "auto": auto})
                if is_forced and fkind == "updated":
                    continue
                if u1 == u0:
                    continue
                # updated_at changed
                if not auto:
                    ctx.violation("C19/auto-off/updated_at-changed/%s/%s" % (kind, _opname(op)), case,
                                  {"op": i, "before": u0, "after": u1})
                    continue
                if u1 != now:
                    ctx.violation("C19/updated_at-not-clock/%s/%s" % (kind, _opname(op)), case,
                                  {"op": i, "before": u0, "after": u1, "clock": now})
                if u1 < u0 and forced.get(k, {}).get("updated") != u0:
                    ctx.violation("C19/updated_at-decreased/%s/%s" % (kind, _opname(op)), case,
                                  {"op": i, "before": u0, "after": u1})
                if mt is not None and ok:
                    if k != mt[0]:
                        ctx.violation("C19/other-entity-updated/%s/%s" % (mt[1], kind), case,
                                      {"op": i, "before": u0, "after": u1})
                elif k not in inv and ok:
                    ctx.violation("C19/uninvolved-entity-updated/%s/%s" % (_opname(op), kind), case,
                                  {"op": i, "before": u0, "after": u1})
            if mt is not None and ok and mt[0] in S1:
                if S1[mt[0]][1] != now:
                    ctx.violation("C19/%s/no-update" % mt[1], case,
                                  {"op": i, "updated_at": S1[mt[0]][1], "clock": now, "was": S0.get(mt[0], (None, None))[1]})
            S0 = S1
    finally:
        it.close()
        try:
            os.remove(path)
        except OSError:
            pass
    flags.add("auto-on-at-open" if case.get("auto", True) else "auto-off-at-open")
    flags.add("handles:" + case.get("policy", "fresh"))
    ctx.case(case, nontrivial, sorted(flags),
             sample={"auto": case.get("auto", True), "rich": case.get("rich", False), "prog": case["prog"][:10],
                     "len": len(case["prog"])})


def _opname(op):
    if op["op"] == "set":
        return "set:%s.%s" % (op["k"], op["attr"])
    if op["op"] in ("link", "unlink"):
        return "%s:%s.%s" % (op["op"], op["k"], op["role"])
    if op["op"] in ("set_meta", "del_meta", "del", "force_ts"):
        return "%s:%s" % (op["op"], op.get("k"))
    if op["op"] == "mk_dim":
        return "mk_dim:" + op["kind"]
    return op["op"]


ENABLED = (ops.CREATE + ops.SETTERS * 3 + ops.LINKS + ops.DATA + ops.FRAME + ["frame_grow"] * 3 + ops.DELETE +
           ["force_ts"] * 4 + ["reopen"] * 3 + ["auto_ts"] * 3 + ["overwrite"] * 3)

TIMES = st.one_of(st.sampled_from([0, 0, 0, 1, 59, 86399, 86400, 951782400, 951868799, 1078099200, 1582934400, 2147483647,
                                   2147483648, 4102444800, 4102444799, 1600000000]),
                  st.integers(0, 4102444800))


def _with_ticks(prog, dts):
    out = []
    for i, op in enumerate(prog):
        if op["op"] == "force_ts":
            op = dict(op)
        out.append({"op": "tick", "dt": 0 if op.get("dt0") else dts[i % len(dts)]})
        out.append(op)
    return out


@st.composite
def case_strategy(draw, max_ops, sweep=False):
    if sweep:
        prog = draw(ops.attr_sweep(reopen=True))
        extra = draw(ops.program(["set_pos", "clear_ext", "set_featdata", "mk_dim_sampled", "mk_dim_range", "mk_dim_set",
                                  "mk_dim_self", "auto_ts", "frame_grow", "frame_grow"], min_size=4, max_size=14))
        pos = draw(st.integers(0, len(prog)))
        prog = prog[:pos] + extra + prog[pos:]
        rich = True
    else:
        prog = draw(ops.program(ENABLED, min_size=max(4, max_ops // 2), max_size=max_ops, name_pool=["a", "b", "sig"]))
        rich = draw(st.booleans())
    prog = [dict(o, time=draw(TIMES)) if o["op"] == "force_ts" else o for o in prog]
    # a forced time (possibly ahead of the clock) followed by a descriptive change of the same entity: the update
    # time becomes the CURRENT time, wherever it stood
    out = []
    for o in prog:
        if o["op"] == "force_ts" and o.get("k") in MUST["definition"] and draw(st.booleans()):
            o = dict(o, which="updated", time=draw(st.sampled_from([4000000000, 4102444800, 2147483648, 1610000000, 5, 0])))
            same_second = draw(st.booleans())
            if same_second:
                # change, force, change - all within one clock second (and, with a retaining handle policy,
                # through one handle): what a handle did a moment ago must not make it skip the stamp
                out.append({"op": "set", "k": o["k"], "t": o["t"], "attr": "definition", "val": "before-force", "how": "name"})
                o = dict(o, dt0=True)
            out.append(o)
            out.append(dict({"op": "set", "k": o["k"], "t": o["t"], "attr": "definition", "val": "after-force",
                             "how": "name"}, **({"dt0": True} if same_second else {})))
        else:
            out.append(o)
    prog = out
    dts = draw(st.lists(st.sampled_from([0, 1, 1, 2, 3600, 1000000]), min_size=1, max_size=7))
    return {"auto": draw(st.booleans()) if not sweep else draw(st.sampled_from([True, True, False])),
            "rich": rich, "t0": draw(st.integers(0, 10 ** 6)), "prog": _with_ticks(prog, dts),
            "policy": draw(st.sampled_from(["fresh", "cached", "cached", "two"]))}


# ---------------------------------------------------------------- forced seconds under other time zones
# "Forcing a timestamp to any whole second and reading it back returns that second" does not depend on the zone the
# process runs in.  POSIX TZ strings (no tz database needed); the seconds are placed around the zone's own daylight-
# saving switches (the repeated hour at the end, the missing hour at the start), where a detour through local time
# is not invertible.
ZONES = ["CET-1CEST,M3.5.0,M10.5.0/3", "EST5EDT,M3.2.0,M11.1.0", "AEST-10AEDT,M10.1.0,M4.1.0/3",
         "NZST-12NZDT,M9.5.0,M4.1.0/3", "IST-5:30", "UTC0", "<-03>3<-02>,M3.5.0/-2,M10.5.0/-1"]
DELTAS = [-7200, -3601, -3600, -3599, -1800, -1, 0, 1, 1800, 3599, 3600, 3601, 7199, 7200]


def _switches(year):
    """seconds at which tm_isdst changes in the current zone during ``year`` (UTC year), by bisection"""
    import calendar
    import time as _time
    out = []
    t = calendar.timegm((year, 1, 1, 12, 0, 0))
    prev = _time.localtime(t).tm_isdst
    for d in range(1, 367):
        t2 = t + 86400
        cur = _time.localtime(t2).tm_isdst
        if cur != prev:
            lo, hi = t, t2
            while hi - lo > 1:
                mid = (lo + hi) // 2
                if _time.localtime(mid).tm_isdst == prev:
                    lo = mid
                else:
                    hi = mid
            out.append((hi, "dst-end" if prev > 0 else "dst-start"))
        t, prev = t2, cur
    return out


def run_tz(case, ctx):
    import time as _time
    nixio = _nixio()
    old_tz = os.environ.get("TZ")
    path = os.path.join(ctx.workdir, "c19tz.nix")
    classes = ["zone:" + case["tz"]]
    nontrivial = False
    try:
        os.environ["TZ"] = case["tz"]
        _time.tzset()
        sw = _switches(case["year"])
        times = []
        for k, (d, extra) in enumerate(case["picks"]):
            if sw:
                t0, cls = sw[k % len(sw)]
                times.append((t0 + d, "%s%+d" % (cls, d) if abs(d) <= 3600 else cls + "-far"))
                nontrivial = True
            else:
                times.append((extra, "zone-without-switch"))
        if os.path.exists(path):
            os.remove(path)
        f = nixio.File.open(path, nixio.FileMode.Overwrite)
        try:
            blk = f.create_block("b", "t")
            sec = f.create_section("s", "t")
            ents = []
            for i, (t, cls) in enumerate(times):
                if not 0 <= t <= 4102444800:
                    continue
                da = blk.create_data_array("a%d" % i, "t", data=[1.0])
                da.force_created_at(int(t))
                (sec if i % 2 else da).force_updated_at(int(t))
                got_c, got_u = da.created_at, (sec if i % 2 else da).updated_at
                for what, got in (("created_at", got_c), ("updated_at", got_u)):
                    if got != t:
                        ctx.violation("C19/force-readback/other-time-zone/%s/in-session/%s" % (what, cls.rstrip("0123456789+-") or cls),
                                      case, {"forced": t, "read": got, "zone": case["tz"], "where": cls})
                ents.append((da.name, t, cls, i % 2 == 0))
                classes.append("second:" + (cls.rstrip("0123456789+-") or cls))
                ctx.count("forced-seconds-under-other-zones")
        finally:
            f.close()
        f = nixio.File.open(path, nixio.FileMode.ReadOnly)
        try:
            for name, t, cls, upd_on_array in ents:
                da = f.blocks["b"].data_arrays[name]
                if da.created_at != t or (upd_on_array and da.updated_at != t):
                    ctx.violation("C19/force-readback/other-time-zone/after-reopen/%s" % (cls.rstrip("0123456789+-") or cls), case,
                                  {"forced": t, "created_at": da.created_at, "updated_at": da.updated_at, "zone": case["tz"]})
        finally:
            f.close()
    finally:
        if old_tz is None:
            os.environ.pop("TZ", None)
        else:
            os.environ["TZ"] = old_tz
        _time.tzset()
        try:
            os.remove(path)
        except OSError:
            pass
    ctx.case(case, nontrivial, sorted(set(classes)))


def _nixio():
    import nixio
    return nixio


def tz_strategy():
    return st.fixed_dictionaries({
        "part": st.just("tz"), "tz": st.sampled_from(ZONES), "year": st.integers(1971, 2037),
        "picks": st.lists(st.tuples(st.sampled_from(DELTAS + [-5, 7, 86400, -86400]), st.integers(0, 4102444800)),
                          min_size=2, max_size=8)})


def shards(tier, seed):
    n, per, mx = (12, 10, 20) if tier == "quick" else (48, 36, 36)
    specs = [{"n": per, "max_ops": mx, "seed": seed * 1000 + i} for i in range(n)]
    ns, pers = (8, 2) if tier == "quick" else (32, 6)
    specs += [{"sweep": True, "n": pers, "max_ops": 0, "seed": seed * 1000 + 500 + i} for i in range(ns)]
    nz, perz = (2, 25) if tier == "quick" else (8, 150)
    specs += [{"tz": True, "n": perz, "seed": seed * 1000 + 800 + i} for i in range(nz)]
    return specs


def run_shard(spec, ctx):
    if spec.get("tz"):
        gen.generate(tz_strategy(), spec["n"], spec["seed"], lambda c: run_tz(c, ctx))
        return
    gen.generate(case_strategy(spec["max_ops"], sweep=spec.get("sweep", False)), spec["n"], spec["seed"],
                 lambda c: run_case(c, ctx))


def replay(case, ctx):
    if case.get("part") == "tz":
        run_tz(case, ctx)
    else:
        run_case(case, ctx)


def valid(case):
    try:
        if case.get("part") == "tz":
            return case["tz"] in ZONES and 1971 <= case["year"] <= 2037 and len(case["picks"]) >= 1 and \
                all(isinstance(d, int) and abs(d) <= 86400 and 0 <= e <= 4102444800 for d, e in case["picks"])
        for o in case["prog"]:
            if o["op"] == "force_ts" and not (0 <= o["time"] <= 4102444800):
                return False
            if o["op"] == "tick" and o.get("dt", 1) < 0:
                return False
        return len(case["prog"]) >= 1 and 0 <= case.get("t0", 0) <= 10 ** 6
    except Exception:  # noqa
        return False
