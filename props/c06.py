# -*- coding: utf-8 -*-
"""C06 - index expressions on arrays and views mean what they mean in NumPy (DESIGN 4/C06)."""
import itertools
import os

import numpy as np
from hypothesis import strategies as st

from vlib import gen

ID = "C06"
LEVEL = "exploration"
RULE = ("Arrays of rank 1-4 (extents 0-6) holding distinct integers; index expressions built from "
        "ints in [-n-2,n+2], slices with start/stop in {None} u [-n-3,n+3] and step in {None,1,2,3}, "
        "at most one Ellipsis, fewer components than the rank; applied to DataArray get/set and to "
        "DataView get/set for windows (start in [-1,n+1], extent in [0,n+2]) made with "
        "get_slice(..., Index). Oracle: the same expression applied by NumPy to an in-memory copy "
        "(whole array compared after writes). Rank-1 arrays with n <= 4 (quick) / 5 (thorough) are "
        "enumerated exhaustively over all windows x all int/slice expressions; higher ranks are "
        "Hypothesis-generated. Non-trivial: the expression has a non-full component; distinct by "
        "(shape, window, expression, target, value kind).")
ASSUMPTIONS = [
    "NumPy's basic indexing is the reference semantics",
    "a window with a negative start is only required not to yield foreign elements (lenient class)",
    "written values are a scalar or an array of exactly the selected shape",
    "view windows with a zero extent are valid, empty windows",
]
SHRINK = True


# ------------------------------------------------------------------ expression coding

def dec_comp(c):
    if c == "...":
        return Ellipsis
    if isinstance(c, dict):
        return slice(*c["s"])
    return int(c)


def dec_expr(e):
    comps = [dec_comp(c) for c in e["c"]]
    if e.get("bare") and len(comps) == 1:
        return comps[0]
    return tuple(comps)


def expr_class(e):
    comps = e["c"]
    if (e.get("bare") and len(comps) == 1 and comps[0] == 0) or len(comps) == 0:
        return "falsy-index"
    if "..." in comps:
        return "ellipsis"
    if any(isinstance(c, int) and c < 0 for c in comps):
        return "negative-int"
    if any(isinstance(c, dict) and c["s"][2] not in (None, 1) for c in comps):
        return "stepped-slice"
    if any(isinstance(c, dict) and any(x is not None and x < 0 for x in c["s"][:2]) for c in comps):
        return "negative-slice-bound"
    return "plain"


def nontrivial_expr(e):
    return any(c != "..." and c != {"s": [None, None, None]} for c in e["c"])


# ------------------------------------------------------------------ the per-worker array bench

class Bench:
    def __init__(self, ctx):
        import nixio
        self.nixio = nixio
        self.path = os.path.join(ctx.workdir, "c06.nix")
        self.f = nixio.File.open(self.path, nixio.FileMode.Overwrite)
        self.blk = self.f.create_block("b", "t")
        self.arrays = {}
        self.dirty = set()

    def get(self, shape):
        key = tuple(shape)
        if key not in self.arrays:
            if len(self.arrays) > 400:
                self.reset()
            base = np.arange(1, int(np.prod(key)) + 1, dtype=np.int64).reshape(key)
            da = self.blk.create_data_array("a" + "_".join(map(str, key)), "t", data=base)
            self.arrays[key] = (da, base)
        da, base = self.arrays[key]
        if key in self.dirty:
            if base.size:
                da.write_direct(base)
            self.dirty.discard(key)
        return da, base

    def reset(self):
        self.f.close()
        os.remove(self.path)
        self.f = self.nixio.File.open(self.path, self.nixio.FileMode.Overwrite)
        self.blk = self.f.create_block("b", "t")
        self.arrays = {}
        self.dirty = set()

    def close(self):
        self.f.close()


def _value(kind, shape):
    n = int(np.prod(shape)) if len(shape) else 1
    if kind == "scalar":
        return -7
    return (-np.arange(1, n + 1, dtype=np.int64)).reshape(shape)


def _negative_start_elements(view, da, ref, allowed, wrapped, exts, ctx, case, win, bench, shape):
    """single elements through a window that begins before the array: refused, or the element the NumPy reading
    of the window (counted from the end / clipped) has at that place - never any other"""
    for k in sorted({0, 1, max(exts[0] - 1, 0), -1}):
        try:
            got = np.asarray(view[k])
        except Exception:  # noqa
            continue
        if got.size == 0:
            continue
        ok = False
        for w in (wrapped, allowed):
            if w.shape[0] and -w.shape[0] <= k < w.shape[0]:
                want = np.asarray(w[k])
                if want.size == got.size and np.array_equal(got.reshape(want.shape), want):
                    ok = True
        if not ok:
            ctx.violation("C06/view-get/negative-start-foreign-elements/int-index", case,
                          {"index": k, "got": got.ravel().tolist()[:6], "window": win})
            break
    # a write through it: refused, or confined to that window
    if ref.size == 0 or ref.dtype.kind not in "fiu":
        return
    try:
        view[0] = (ref.max() + 7)
    except Exception:  # noqa
        return
    bench.dirty.add(tuple(shape))
    try:
        now = np.asarray(da[:]).reshape(ref.shape)
    except Exception:  # noqa
        return
    changed = now != ref
    if changed.any():
        ok = False
        for sl in (tuple(slice(s, s + x) for s, x in zip([w[0] for w in win], exts)),
                   tuple(slice(max(s, 0), max(s + x, 0)) for s, x in zip([w[0] for w in win], exts))):
            mask = np.zeros(ref.shape, dtype=bool)
            try:
                sub = mask[sl]
                if sub.shape[0]:
                    sub[0] = True
            except Exception:  # noqa
                continue
            if not (changed & ~mask).any():
                ok = True
        if not ok:
            ctx.violation("C06/view-set/negative-start-foreign-elements", case,
                          {"window": win, "changed": int(changed.sum())})


def run_case(case, ctx, bench):
    """case = {"shape":[..], "win": null | [[start,extent],..], "e": expr, "op":"get"|"set", "v":"scalar"|"exact"}"""
    nixio = bench.nixio
    shape = case["shape"]
    e = case["e"]
    expr = dec_expr(e)
    op = case["op"]
    win = case.get("win")
    target = ("view-" if win is not None else "da-") + op
    ecls = expr_class(e)
    classes = [target, "expr:" + ecls, "rank%d" % len(shape)]
    da, base = bench.get(shape)
    ref = base.copy()

    def viol(kind, detail):
        ctx.violation("C06/%s/%s/%s" % (target, kind, ecls), case, detail)

    # ---------------- resolve the object the expression is applied to
    lenient = False
    if win is None:
        obj, sub = da, ref
    else:
        starts = [w[0] for w in win]
        exts = [w[1] for w in win]
        inside = all(s >= 0 and s + x <= n for s, x, n in zip(starts, exts, shape))
        negative = any(s < 0 for s in starts)
        wcls = "inside" if inside else ("negative-start" if negative else "beyond")
        classes.append("window:" + wcls)
        try:
            view = da.get_slice(starts, exts, nixio.DataSliceMode.Index)
        except IndexError:
            if inside:
                ctx.violation("C06/get_slice/refused-inside-window", case, {"window": win})
            ctx.case(case, nontrivial_expr(e), classes)
            return
        if wcls == "beyond":
            # must be marked invalid and empty; writing must be refused
            if view.valid:
                ctx.violation("C06/get_slice/beyond-extent-valid", case, {"window": win})
            else:
                try:
                    got = np.asarray(view[:])
                    if got.size != 0:
                        ctx.violation("C06/view-get/invalid-view-yields-data", case,
                                      {"got": got.tolist()[:8]})
                except IndexError:
                    pass
                if op == "set":
                    try:
                        view[expr] = _value("scalar", ())
                        bench.dirty.add(tuple(shape))
                        now = np.asarray(da[:]) if ref.size else ref
                        if not np.array_equal(now.reshape(ref.shape), ref):
                            ctx.violation("C06/view-set/invalid-view-written", case, {"window": win})
                    except Exception:
                        pass
            ctx.case(case, nontrivial_expr(e), classes)
            return
        if wcls == "negative-start":
            lenient = True
            if not view.valid:
                ctx.case(case, nontrivial_expr(e), classes)
                return
            # only "no foreign elements": if readable, content must be ref[p:p+e] per axis (python
            # slicing semantics would wrap around; anything else than the clipped window is foreign)
            try:
                got = np.asarray(view[:])
            except Exception:
                got = np.zeros(0)
            allowed = ref[tuple(slice(max(s, 0), max(s + x, 0)) for s, x in zip(starts, exts))]
            wrapped = ref[tuple(slice(s, s + x) for s, x in zip(starts, exts))]
            _negative_start_elements(view, da, ref, allowed, wrapped, exts, ctx, case, win, bench, shape)
            if got.size and not (got.shape == allowed.shape and np.array_equal(got, allowed)) \
                    and not (got.shape == wrapped.shape and np.array_equal(got, wrapped)):
                ctx.violation("C06/view-get/negative-start-foreign-elements", case,
                              {"got": got.tolist()[:8], "window": win})
            ctx.case(case, nontrivial_expr(e), classes)
            return
        # inside
        if not view.valid:
            ctx.violation("C06/get_slice/inside-window-invalid", case, {"window": win})
            ctx.case(case, nontrivial_expr(e), classes)
            return
        if tuple(view.shape) != tuple(exts):
            ctx.violation("C06/get_slice/shape", case, {"want": exts, "got": list(view.shape)})
        obj = view
        sub = ref[tuple(slice(s, s + x) for s, x in zip(starts, exts))]

    # ---------------- apply
    if op == "get":
        try:
            want = sub[expr]
            werr = None
        except IndexError as exc:
            want, werr = None, exc
        try:
            got = np.asarray(obj[expr])
            gerr = None
        except IndexError as exc:
            got, gerr = None, exc
        except Exception as exc:  # any other exception class
            got, gerr = None, exc
            if werr is None:
                viol("unexpected-error", {"raised": type(exc).__name__, "msg": str(exc)[:120]})
            elif not isinstance(exc, IndexError):
                viol("wrong-error-class", {"raised": type(exc).__name__})
            ctx.case(case, nontrivial_expr(e), classes)
            return
        if werr is not None and gerr is None:
            viol("missing-index-error", {"got": got.tolist() if got.size < 9 else "..."})
        elif werr is None and gerr is not None:
            viol("unexpected-error", {"raised": type(gerr).__name__, "msg": str(gerr)[:120]})
        elif werr is None:
            want = np.asarray(want)
            if want.ndim == 0:
                want = want.reshape((1,))
            if got.shape != want.shape or not np.array_equal(got, want):
                viol("wrong-data", {"want_shape": list(want.shape), "got_shape": list(got.shape),
                                    "want": want.ravel().tolist()[:8], "got": got.ravel().tolist()[:8]})
    else:
        try:
            selshape = sub[expr].shape
            werr = None
        except IndexError as exc:
            selshape, werr = None, exc
        val = _value(case.get("v", "scalar"), selshape if selshape is not None else ())
        if werr is None:
            sub[expr] = val          # sub is a NumPy view of ref
        bench.dirty.add(tuple(shape))
        try:
            obj[expr] = val
            gerr = None
        except Exception as exc:
            gerr = exc
        now = np.asarray(da[:]).reshape(ref.shape) if ref.size else ref
        if werr is not None:
            if gerr is None:
                viol("missing-index-error", {})
            elif not isinstance(gerr, IndexError):
                viol("wrong-error-class", {"raised": type(gerr).__name__})
            if not np.array_equal(now, base):
                viol("refused-but-modified", {"now": now.ravel().tolist()[:12]})
        else:
            if gerr is not None:
                if int(np.prod(selshape)) == 0 and not isinstance(gerr, IndexError):
                    # writing nothing: h5py may refuse an empty selection; nothing may change
                    ctx.count("empty-selection-write-refused")
                    if not np.array_equal(now, base):
                        viol("refused-but-modified", {"now": now.ravel().tolist()[:12]})
                else:
                    viol("unexpected-error", {"raised": type(gerr).__name__, "msg": str(gerr)[:120]})
            elif not np.array_equal(now, ref):
                changed = int(np.sum(now != base))
                viol("wrong-elements-written", {"want": ref.ravel().tolist()[:16],
                                                "got": now.ravel().tolist()[:16],
                                                "elements_changed": changed,
                                                "elements_addressed": int(np.prod(selshape))})
    ctx.case(case, nontrivial_expr(e), classes)
    if lenient:
        ctx.count("lenient")


# ------------------------------------------------------------------ generators

def comp_strategy(n):
    ints = st.integers(-n - 2, n + 2)
    bound = st.one_of(st.none(), st.integers(-n - 3, n + 3))
    step = st.sampled_from([None, 1, 2, 3])
    slc = st.tuples(bound, bound, step).map(lambda t: {"s": list(t)})
    return st.one_of(ints, slc, slc, st.just({"s": [None, None, None]}))


@st.composite
def expr_for(draw, shape):
    rank = len(shape)
    ncomp = draw(st.integers(0, rank))
    comps = [draw(comp_strategy(shape[i])) for i in range(ncomp)]
    # comps address axes from the left; with an ellipsis some address axes from the right
    if draw(st.integers(0, 3)) == 0:
        pos = draw(st.integers(0, len(comps)))
        right = len(comps) - pos
        comps = comps[:pos] + ["..."] + [draw(comp_strategy(shape[rank - right + i])) for i in range(right)]
    bare = len(comps) == 1 and draw(st.booleans())
    return {"c": comps, "bare": bare}


@st.composite
def random_case(draw):
    rank = draw(st.sampled_from([1, 2, 2, 3, 3, 4]))
    shape = [draw(st.sampled_from([0, 1, 2, 3, 4, 5, 6] if rank < 4 else [0, 1, 2, 3])) for _ in range(rank)]
    use_view = draw(st.booleans())
    win = None
    wshape = shape
    if use_view:
        kind = draw(st.sampled_from(["inside", "inside", "inside", "any"]))
        win = []
        for n in shape:
            if kind == "inside":
                s = draw(st.integers(0, n))
                x = draw(st.integers(0, n - s))
            else:
                s = draw(st.integers(-1, n + 1))
                x = draw(st.integers(0, n + 2))
            win.append([s, x])
        wshape = [w[1] for w in win]
    e = draw(expr_for(wshape))
    op = draw(st.sampled_from(["get", "set"]))
    case = {"shape": shape, "win": win, "e": e, "op": op}
    if op == "set":
        case["v"] = draw(st.sampled_from(["scalar", "exact"]))
    return case


def rank1_exprs(n):
    out = [{"c": [], "bare": False}, {"c": ["..."], "bare": True}]
    for i in range(-n - 2, n + 3):
        out.append({"c": [i], "bare": True})
        if i in (0, -1, n):
            out.append({"c": [i], "bare": False})
            out.append({"c": ["...", i], "bare": False})
    bounds = [None] + list(range(-n - 3, n + 4))
    for a, b, s in itertools.product(bounds, bounds, [None, 1, 2, 3]):
        out.append({"c": [{"s": [a, b, s]}], "bare": True})
    return out


def run_grow_case(case, ctx, bench):
    """
    The array's extent changes through ANOTHER handle while a long-lived handle (which has looked at shape, length
    and a view before) stays in use: views and index expressions through the long-lived handle mean what NumPy
    means on the data as it is now - the new elements are reachable, removed ones never yield anything.
    """
    nixio = bench.nixio
    shape = tuple(case["shape"])
    ax = case["axis"] % len(shape)
    g = case["grow"]
    base = np.arange(1, int(np.prod(shape)) + 1, dtype=np.int64).reshape(shape)
    bench.serial = getattr(bench, "serial", 0) + 1
    name = "grow%d" % bench.serial
    A = bench.blk.create_data_array(name, "t", data=base)
    A.shape, len(A), A.data_extent
    try:
        np.asarray(A.get_slice([0] * len(shape), list(shape), nixio.DataSliceMode.Index)[:])
    except Exception:  # noqa
        pass
    extra_shape = tuple(g if i == ax else n for i, n in enumerate(shape))
    extra = (-np.arange(1, int(np.prod(extra_shape)) + 1, dtype=np.int64)).reshape(extra_shape)
    B = bench.blk.data_arrays[name]
    B.append(extra, axis=ax)
    full = np.concatenate([base, extra], axis=ax)
    key = "C06/extent-changed-through-other-handle"
    if tuple(A.shape) != full.shape or len(A) != full.shape[0]:
        ctx.violation(key + "/shape-through-kept-handle", case, {"want": list(full.shape), "got": list(A.shape)})
    # a window inside the new region, through the long-lived handle
    starts = [0] * len(shape)
    exts = list(full.shape)
    starts[ax] = shape[ax] + case["off"] % g
    exts[ax] = 1 + (case["len"] % (g - case["off"] % g))
    want = full[tuple(slice(s_, s_ + x) for s_, x in zip(starts, exts))]
    try:
        v = A.get_slice(starts, exts, nixio.DataSliceMode.Index)
        got = np.asarray(v[:]) if v.valid else None
    except Exception as exc:  # noqa
        got = "raised " + type(exc).__name__
    if not isinstance(got, np.ndarray) or got.shape != want.shape or not np.array_equal(got, want):
        ctx.violation(key + "/view-into-grown-region", case,
                      {"window": [starts, exts], "want": want.ravel().tolist()[:6],
                       "got": got.ravel().tolist()[:6] if isinstance(got, np.ndarray) else got})
    try:
        whole = np.asarray(A[:])
        if whole.shape != full.shape or not np.array_equal(whole, full):
            ctx.violation(key + "/read-through-kept-handle", case, {"want_shape": list(full.shape), "got_shape": list(whole.shape)})
    except Exception as exc:  # noqa
        ctx.violation(key + "/read-through-kept-handle", case, {"raised": type(exc).__name__})
    # shrink back through the other handle: the same window lies beyond the extent now
    B.data_extent = shape
    try:
        v = A.get_slice(starts, exts, nixio.DataSliceMode.Index)
        leaked = np.asarray(v[:]) if v.valid else np.zeros(0)
    except Exception:  # noqa
        leaked = np.zeros(0)
    if leaked.size:
        ctx.violation(key + "/view-beyond-shrunk-extent-yields-data", case, {"got": leaked.ravel().tolist()[:6]})
    if tuple(A.shape) != shape:
        ctx.violation(key + "/shape-after-shrink", case, {"want": list(shape), "got": list(A.shape)})
    del bench.blk.data_arrays[name]
    ctx.case(case, True, ["part:extent-through-other-handle", "rank%d" % len(shape), "grow-axis:%d" % ax])


def grow_case():
    return st.fixed_dictionaries({"part": st.just("grow"), "shape": st.lists(st.integers(1, 4), min_size=1, max_size=3),
                                  "axis": st.integers(0, 2), "grow": st.integers(1, 3), "off": st.integers(0, 2),
                                  "len": st.integers(0, 2)})


def shards(tier, seed):
    specs = [{"part": "grow", "n": 40 if tier == "quick" else 600, "seed": seed * 1000 + 900}]
    nmax = 4 if tier == "quick" else 5
    for n in range(0, nmax + 1):
        wins = [None] + [[[s, x]] for s in range(-1, n + 2) for x in range(0, n + 3)]
        per = 6 if n >= 3 else 12
        for i in range(0, len(wins), per):
            specs.append({"part": "exh", "n": n, "wins": wins[i:i + per], "seed": seed})
    nrand, per = (16, 400) if tier == "quick" else (64, 6000)
    for i in range(nrand):
        specs.append({"part": "random", "n": per, "seed": seed * 1000 + i})
    return specs


def run_shard(spec, ctx):
    bench = Bench(ctx)
    try:
        if spec["part"] == "exh":
            n = spec["n"]
            for win in spec["wins"]:
                m = n if win is None else win[0][1]
                # expressions are enumerated against the extent they address
                for e in rank1_exprs(max(m, 0)):
                    for op, v in (("get", None), ("set", "scalar"), ("set", "exact")):
                        case = {"shape": [n], "win": win, "e": e, "op": op}
                        if v:
                            case["v"] = v
                        run_case(case, ctx, bench)
            ctx.exhaustive = True
        elif spec["part"] == "grow":
            gen.generate(grow_case(), spec["n"], spec["seed"], lambda c: run_grow_case(c, ctx, bench))
        else:
            gen.generate(random_case(), spec["n"], spec["seed"], lambda c: run_case(c, ctx, bench))
    finally:
        bench.close()


def replay(case, ctx):
    bench = Bench(ctx)
    try:
        if case.get("part") == "grow":
            run_grow_case(case, ctx, bench)
        else:
            run_case(case, ctx, bench)
    finally:
        bench.close()


def valid(case):
    """keeps the minimiser inside the input domain (only the 'grow' cases have arithmetic preconditions)"""
    try:
        if case.get("part") == "grow":
            return (isinstance(case["shape"], list) and 1 <= len(case["shape"]) <= 3 and
                    all(isinstance(n, int) and 1 <= n <= 4 for n in case["shape"]) and
                    all(isinstance(case[k], int) for k in ("axis", "grow", "off", "len")) and
                    1 <= case["grow"] <= 3 and 0 <= case["axis"] <= 2 and 0 <= case["off"] <= 2 and 0 <= case["len"] <= 2)
        return isinstance(case.get("shape"), list) and "e" in case and "op" in case
    except Exception:  # noqa
        return False
