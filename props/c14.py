# -*- coding: utf-8 -*-
"""C14 - validation reports every catalogued inconsistency and nothing on consistent files
(DESIGN 4/C14).  Oracle: vlib/ref/validator_ref.py, a reference validator over the RECIPE."""
import contextlib
import io
import os
import re

import numpy as np
from hypothesis import strategies as st

from vlib import gen
from vlib.ref import units_ref
from vlib.ref import validator_ref as R

ID = "C14"
LEVEL = "exploration"
RULE = ("Hypothesis-generated constructive recipes of well-formed files (1-3 blocks; arrays of rank 1-3 with one "
        "descriptor per axis: set with/without labels, sampled, range with own ticks, range linked to the array "
        "itself or to another 1-D array, set / range linked to a string / float column of a data frame with or "
        "without column units; atomic SI axis units from 19 unit families or none; tags with position, "
        "optional extent, 0-3 references of equal rank and unit families and one convertible unit per axis; "
        "multi-tags with n x rank / 1-D positions and same-shaped optional extents; features, groups, source "
        "trees, section trees with properties), built through the public API, then 0, 1 or 2 injections from a "
        "catalogue of 15 kinds (drop/add descriptor; tick list too long/short/empty/repeated or explicit ticks "
        "replacing a link; reversed or constant linked data; row appended to a linked frame; wrong label count; "
        "interval 0/negative/None; non-SI / compound / foreign / no axis unit; empty type on any entity kind; "
        "tag position / extent / unit-list length; non-SI or foreign tag unit; extra reference; replaced "
        "positions / extents arrays of wrong shape or empty) applied through the public API at a random eligible "
        "object (second injection biased towards related objects); plus sweep shards that apply EVERY eligible "
        "single injection to generated recipes. Oracle: reference validator over the recipe (English "
        "definitions, own SI grammar; dependants such as tags of a changed array are computed, not "
        "whitelisted): objects with a required condition are exactly the keys of File.validate()['errors'], "
        "required messages <= reported <= required + allowed co-reports; well-formed recipe => no errors and no "
        "exception; a third of the cases is also validated after close through nixio.cmd.validate (read-only "
        "reopen), which must list the same objects and messages. Non-trivial: recipe has a (multi-)tag with "
        "references and units and >= 2 descriptor kinds, and either >= 1 injection or >= 3 entity kinds; "
        "distinct by case hash.")
ASSUMPTIONS = [
    "missing name / id / creation date cannot be produced through the public API and are out of domain",
    "a descriptor describes the data dimension of the same position; surplus descriptors describe nothing and "
    "carry no defects of their own (only the count mismatch and their unit as seen by tags)",
    "the unit count of a tag is compared with the descriptor count of each reference; position / extent lengths "
    "with the data rank (DESIGN 4/C14)",
    "'' stands for 'no unit'; a tag unit against an axis without unit (or vice versa) is unconvertible",
    "pairs involving a compound unit are unspecified for the convertibility test ('composite units are not "
    "supported'): the report is allowed, not required",
    "sampling interval 0 may be reported as 'not set' or as 'not valid'",
    "no ticks: the tick-count mismatch is an allowed co-report; empty position: the rank and extent-length "
    "mismatches are allowed co-reports; empty positions array: the 2nd-dim mismatch is an allowed co-report",
    "array extents are >= 1 in recipes (an injected empty positions array is the only empty array)",
    "unit spellings are already sanitised and use no '^1' / '^+n' powers; non-SI tag and axis test strings differ",
    "data frames are not validated themselves; a frame without units gives its linked range descriptors no "
    "unit; frame columns hold strictly increasing floats / distinct strings, one row per sample",
    "explicit ticks written over a linked descriptor leave it without a unit (the unit belonged to the link)",
    "warnings are ignored",
]
SHRINK_HINTS = {"keep_keys": ["name", "k", "kind", "at", "blk", "arr", "tag", "mtag", "link", "positions",
                              "extents", "data", "type", "frame", "dtype"]}

# ------------------------------------------------------------------ unit pools

FAMILIES = {
    "s": ["s", "ms", "us", "ks"], "V": ["V", "mV", "uV", "kV"], "A": ["A", "mA", "nA"],
    "mol": ["mol", "mmol", "umol"], "Hz": ["Hz", "kHz", "mHz", "MHz"], "m": ["m", "mm", "km", "cm"],
    "m^2": ["m^2", "mm^2", "cm^2"], "s^-1": ["s^-1", "ms^-1"], "Ohm": ["Ohm", "kOhm", "MOhm"],
    "Sv": ["Sv", "mSv"], "K": ["K", "mK"], "g": ["g", "kg", "mg"], "rad": ["rad", "mrad"], "%": ["%"],
    "dB": ["dB"], "l": ["l", "ml"], "S": ["S", "mS", "uS"], "Wb": ["Wb", "mWb"], "lm": ["lm", "klm"], "Pa": ["Pa", "hPa", "daPa"],
}
FAMILY_OF = {}
for _fam, _lst in FAMILIES.items():
    for _u in _lst:
        _p = units_ref.parse(_u)
        assert _p is not None and (_p[1] + ("^" + _p[2] if _p[2] else "")) == _fam, _u
        FAMILY_OF[_u] = _fam
COMPOUND_ARRAY_UNITS = ["mV/Hz", "N*m", "m/s"]
TYPES = ["t", "nix.test", "ü-type"]
LINKS = list(R.LINK_TYPES)


def family(u):
    return FAMILY_OF.get(u) if u else None


# ------------------------------------------------------------------ generator

half = st.integers(-4, 20).map(lambda i: i / 2.0)
nonneg = st.integers(0, 8).map(lambda i: i / 2.0)
types = st.sampled_from(TYPES)


@st.composite
def axis_unit(draw):
    if draw(st.integers(0, 9)) < 3:
        return None
    fam = draw(st.sampled_from(sorted(FAMILIES) + ["s", "s", "S"]))
    return draw(st.sampled_from(FAMILIES[fam]))


@st.composite
def descriptor(draw, extent, arr, earlier, block=None):
    """one well-formed descriptor for an axis of ``extent`` samples"""
    kinds = ["set", "setl", "sampled", "sampled", "range", "range"]
    if len(arr["shape"]) == 1 and (arr["unit"] is None or arr["unit"] in FAMILY_OF):
        kinds += ["self", "self"]
    cands = [a["name"] for a in earlier
             if len(a["shape"]) == 1 and a["shape"][0] == extent and (a["unit"] is None or a["unit"] in FAMILY_OF)]
    if cands:
        kinds += ["link", "link"]
    frames = [fr for fr in (block or {}).get("frames", []) if fr["rows"] == extent]
    if frames:
        kinds += ["fset", "frange", "frange"]
    k = draw(st.sampled_from(kinds))
    if k in ("fset", "frange"):
        fr = draw(st.sampled_from(frames))
        want = "str" if k == "fset" else "float"
        cols = [i for i, c in enumerate(fr["cols"]) if c["dtype"] == want]
        return {"k": "set" if k == "fset" else "range", "flink": {"frame": fr["name"], "col": draw(st.sampled_from(cols))}}
    if k == "set":
        return {"k": "set", "labels": draw(st.sampled_from([None, []]))}
    if k == "setl":
        return {"k": "set", "labels": ["%s%d" % (draw(st.sampled_from(["L", "é", "ch "])), i)
                                       for i in range(extent)]}
    if k == "sampled":
        return {"k": "sampled", "interval": draw(st.sampled_from([0.5, 1.0, 0.001, 2.5, 10, 3])),
                "unit": draw(axis_unit()), "offset": draw(st.sampled_from([None, None, 0.0, 1.5, -2.0]))}
    if k == "range":
        start = draw(half)
        steps = draw(st.lists(st.sampled_from([0.5, 1.0, 0.001, 7.25]), min_size=extent - 1, max_size=extent - 1))
        ticks = [start]
        for s in steps:
            ticks.append(ticks[-1] + s)
        return {"k": "range", "ticks": ticks, "unit": draw(axis_unit())}
    if k == "self":
        return {"k": "range", "link": arr["name"]}
    return {"k": "range", "link": draw(st.sampled_from(cands))}


@st.composite
def array(draw, name, earlier, shape=None, block=None):
    if shape is None:
        rank = draw(st.sampled_from([1, 1, 2, 2, 3]))
        ext = st.integers(1, 4)
        if block and block.get("frames"):
            ext = st.one_of(ext, st.just(block["frames"][0]["rows"]))
        shape = [draw(ext) for _ in range(rank)]
    unit = draw(axis_unit())
    if len(shape) > 1 and draw(st.integers(0, 5)) == 0:
        unit = draw(st.sampled_from(COMPOUND_ARRAY_UNITS))
    arr = {"name": name, "type": draw(types), "shape": list(shape), "data": "ramp", "unit": unit, "dims": []}
    for n in shape:
        arr["dims"].append(draw(descriptor(n, arr, earlier, block)))
    return arr


def axis_classes(block, arr):
    return tuple(family(R.dim_unit(block, d)) for d in arr["dims"])


@st.composite
def tag_units(draw, block, ref):
    out = []
    for d in ref["dims"]:
        u = R.dim_unit(block, d)
        out.append(draw(st.sampled_from(FAMILIES[family(u)])) if u else "")
    return out


@st.composite
def references(draw, block, pool, allow_none=True):
    """first reference + compatible others (same rank, same unit family per axis)"""
    if not pool or (allow_none and draw(st.integers(0, 6)) == 0):
        return []
    first = draw(st.sampled_from(pool))
    sig = (len(first["shape"]), axis_classes(block, first))
    compat = [a for a in pool if a is not first and (len(a["shape"]), axis_classes(block, a)) == sig]
    more = draw(st.lists(st.sampled_from(compat), max_size=2, unique_by=lambda a: a["name"])) if compat else []
    return [first] + more


@st.composite
def features(draw, block):
    pool = [a["name"] for a in block["arrays"]]
    fe = draw(st.lists(st.tuples(st.sampled_from(pool), st.sampled_from(LINKS)), max_size=2,
                       unique_by=lambda t: t[0]))
    return [list(t) for t in fe]


@st.composite
def source_tree(draw, depth):
    out = []
    for i in range(draw(st.integers(0, 2 if depth > 1 else 3))):
        out.append({"name": "s%d" % i, "type": draw(types),
                    "sources": draw(source_tree(depth + 1)) if depth < 3 else []})
    return out


prop_values = st.one_of(st.lists(st.integers(-5, 5), min_size=1, max_size=3),
                        st.lists(st.sampled_from([0.5, -1.25, 3.0]), min_size=1, max_size=3),
                        st.lists(st.sampled_from(["a", "ü", "x y"]), min_size=1, max_size=2),
                        st.lists(st.booleans(), min_size=1, max_size=2))


@st.composite
def section_tree(draw, depth):
    out = []
    for i in range(draw(st.integers(0, 2))):
        props = [{"name": "p%d" % j, "values": draw(prop_values), "unit": draw(st.sampled_from([None, "mV", "s"]))}
                 for j in range(draw(st.integers(0, 2)))]
        out.append({"name": "m%d" % i, "type": draw(types), "props": props,
                    "sections": draw(section_tree(depth + 1)) if depth < 3 else []})
    return out


@st.composite
def block(draw, name):
    b = {"name": name, "type": draw(types), "arrays": [], "frames": [], "tags": [], "mtags": [], "groups": [],
         "sources": []}
    if draw(st.integers(0, 9)) < 4:
        cols = [{"name": "name", "dtype": "str"}, {"name": "t", "dtype": "float"}]
        if draw(st.booleans()):
            cols.append({"name": "u", "dtype": "float"})
        units = None
        if draw(st.integers(0, 2)) > 0:
            units = [None] + [draw(axis_unit()) for _ in cols[1:]]
        b["frames"].append({"name": "df0", "type": draw(types), "cols": cols, "rows": draw(st.integers(1, 4)),
                            "tail": [], "units": units})
    for i in range(draw(st.integers(1, 4))):
        b["arrays"].append(draw(array("a%d" % i, b["arrays"], block=b)))
    signal = list(b["arrays"])
    for i in range(draw(st.integers(0, 3))):
        refs = draw(references(b, signal))
        if refs:
            rank = len(refs[0]["shape"])
            units = draw(tag_units(b, refs[0]))
        else:
            rank = draw(st.integers(1, 3))
            units = draw(st.sampled_from([None, None, ["ms"] * rank, [""] * rank]))
        b["tags"].append({
            "name": "t%d" % i, "type": draw(types),
            "position": [draw(half) for _ in range(rank)],
            "extent": [draw(nonneg) for _ in range(rank)] if draw(st.booleans()) else None,
            "units": units, "refs": [r["name"] for r in refs], "features": draw(features(b))})
    for i in range(draw(st.integers(0, 2))):
        refs = draw(references(b, signal))
        if refs:
            rank = len(refs[0]["shape"])
            units = draw(tag_units(b, refs[0]))
        else:
            rank = draw(st.integers(1, 3))
            units = draw(st.sampled_from([None, ["mV"] * rank]))
        n = draw(st.integers(1, 3))
        shape = [n] if (rank == 1 and draw(st.integers(0, 2)) > 0) else [n, rank]
        pname, ename = "p%d" % i, "e%d" % i
        b["arrays"].append(draw(array(pname, b["arrays"], shape=shape, block=b)))
        ext = None
        if draw(st.booleans()):
            b["arrays"].append(draw(array(ename, b["arrays"], shape=shape, block=b)))
            ext = ename
        b["mtags"].append({"name": "mt%d" % i, "type": draw(types), "positions": pname, "extents": ext,
                           "units": units, "refs": [r["name"] for r in refs], "features": draw(features(b))})
    for i in range(draw(st.integers(0, 2))):
        def subset(role):
            names = [x["name"] for x in b[role]]
            return draw(st.lists(st.sampled_from(names), max_size=3, unique=True)) if names else []
        b["groups"].append({"name": "g%d" % i, "type": draw(types), "arrays": subset("arrays"),
                            "tags": subset("tags"), "mtags": subset("mtags")})
    b["sources"] = draw(source_tree(1))
    return b


@st.composite
def recipe(draw, max_blocks=3):
    nb = draw(st.sampled_from([1, 1, 2, 3][:max_blocks + 1]))
    return {"blocks": [draw(block("b%d" % i)) for i in range(nb)], "sections": draw(section_tree(1))}


def touched(model, inj):
    """names an injection is about (for biasing the second injection towards interactions)"""
    if inj["kind"] == "empty-type":
        return {inj["at"].split(":", 1)[1]}
    out = set()
    bn = inj["blk"]
    if "frame" in inj:
        for b in model["blocks"]:
            if b["name"] == bn:
                for a in b["arrays"]:
                    if any(d.get("flink", {}).get("frame") == inj["frame"] for d in a["dims"]):
                        out.add("%s/%s" % (bn, a["name"]))
        return out
    if "arr" in inj:
        out.add("%s/%s" % (bn, inj["arr"]))
    for role, key in (("tags", "tag"), ("mtags", "mtag")):
        if key in inj:
            out.add("%s/%s" % (bn, inj[key]))
            for b in model["blocks"]:
                if b["name"] == bn:
                    for t in b[role]:
                        if t["name"] == inj[key]:
                            out.update("%s/%s" % (bn, r) for r in t["refs"])
    if "arr" in inj:
        for b in model["blocks"]:
            if b["name"] == bn:
                for t in b["tags"] + b["mtags"]:
                    if inj["arr"] in t["refs"]:
                        out.add("%s/%s" % (bn, t["name"]))
                for a in b["arrays"]:
                    if any(d.get("link") == inj["arr"] for d in a["dims"]):
                        out.add("%s/%s" % (bn, a["name"]))
    return out


@st.composite
def pick_injection(draw, model, near=None):
    cands = R.enumerate_injections(model)
    if near is not None:
        rel = [c for c in cands if touched(model, c) & near]
        if rel:
            cands = rel
    kinds = sorted({c["kind"] for c in cands})
    kinds += [k for k in kinds if k in ("frame-append-row", "link-data", "link-resize")] * 3     # rarely eligible kinds
    k = draw(st.sampled_from(kinds))
    return draw(st.sampled_from([c for c in cands if c["kind"] == k]))


@st.composite
def cases(draw):
    model = draw(recipe())
    n = draw(st.sampled_from([0, 1, 1, 1, 2, 2, 2]))
    injs = []
    cur = model
    if draw(st.integers(0, 9)) == 0:
        # a pair that belongs together: an axis gets a unit that is no SI unit, and a tag that addresses this axis
        # gets the very same string (identical units, but nothing one could convert)
        firsts = []
        for c in R.enumerate_injections(model):
            if c["kind"] == "axis-unit" and c.get("unit") in R.NON_SI_AXIS:
                m1 = R.apply_injection(model, c)
                seconds = [c2 for c2 in R.enumerate_injections(m1)
                           if c2["kind"] == "units" and c["unit"] in c2["units"] and c2["blk"] == c["blk"]]
                if seconds:
                    firsts.append((c, m1, seconds))
        if firsts:
            c, m1, seconds = draw(st.sampled_from(firsts))
            return {"file": model, "inj": [c, draw(st.sampled_from(seconds))], "cli": draw(st.booleans()),
                    "staged": draw(st.booleans()), "paired": "same-non-si-unit-on-axis-and-tag"}
    for i in range(n):
        near = None
        if i == 1 and draw(st.booleans()):
            near = touched(cur, injs[0])
        inj = draw(pick_injection(cur, near))
        injs.append(inj)
        cur = R.apply_injection(cur, inj)
    return {"file": model, "inj": injs, "cli": draw(st.booleans()), "staged": draw(st.booleans())}


# ------------------------------------------------------------------ building through the public API

def _nix():
    import nixio
    return nixio


def make_data(arr):
    shape = tuple(arr["shape"])
    n = int(np.prod(shape))
    if arr["data"] == "ramp":
        flat = np.arange(n, dtype=float)
    elif arr["data"] == "rev":
        flat = np.arange(n, dtype=float)[::-1].copy()
    else:
        flat = np.zeros(n)
    return flat.reshape(shape)


def append_dim(blk, da, d):
    k = d["k"]
    if "flink" in d:
        dim = da.append_set_dimension() if k == "set" else da.append_range_dimension()
        dim.link_data_frame(blk.data_frames[d["flink"]["frame"]], d["flink"]["col"])
    elif k == "set":
        da.append_set_dimension() if d.get("labels") is None else da.append_set_dimension(list(d["labels"]))
    elif k == "sampled":
        da.append_sampled_dimension(d["interval"], unit=d.get("unit"), offset=d.get("offset"))
    elif "link" in d:
        if d["link"] == da.name:
            da.append_range_dimension_using_self()
        else:
            rd = da.append_range_dimension()
            rd.link_data_array(blk.data_arrays[d["link"]], [-1])
    else:
        da.append_range_dimension(ticks=list(d["ticks"]), unit=d.get("unit"))


def create_array(blk, a):
    da = blk.create_data_array(a["name"], a["type"], data=make_data(a))
    if a["unit"]:
        da.unit = a["unit"]
    return da


def frame_row(fr, i):
    return tuple(R.column_values(fr, c)[i] for c in range(len(fr["cols"])))


def create_frame(blk, fr):
    from collections import OrderedDict
    cols = OrderedDict((c["name"], str if c["dtype"] == "str" else float) for c in fr["cols"])
    df = blk.create_data_frame(fr["name"], fr["type"], col_dict=cols)
    df.append_rows([frame_row(fr, i) for i in range(R.frame_rows(fr))])
    if fr.get("units"):
        df.units = list(fr["units"])
    return df


def build(f, model):
    nix = _nix()
    for b in model["blocks"]:
        blk = f.create_block(b["name"], b["type"])
        for fr in b.get("frames", []):
            create_frame(blk, fr)
        for a in b["arrays"]:
            create_array(blk, a)
        for a in b["arrays"]:
            da = blk.data_arrays[a["name"]]
            for d in a["dims"]:
                append_dim(blk, da, d)
        for t in b["tags"]:
            tag = blk.create_tag(t["name"], t["type"], list(t["position"]))
            if t.get("extent"):
                tag.extent = list(t["extent"])
            for r in t["refs"]:
                tag.references.append(blk.data_arrays[r])
            if t.get("units"):
                tag.units = list(t["units"])
            for an, lt in t.get("features", []):
                tag.create_feature(blk.data_arrays[an], nix.LinkType(lt))
        for m in b["mtags"]:
            mt = blk.create_multi_tag(m["name"], m["type"], blk.data_arrays[m["positions"]])
            if m.get("extents"):
                mt.extents = blk.data_arrays[m["extents"]]
            for r in m["refs"]:
                mt.references.append(blk.data_arrays[r])
            if m.get("units"):
                mt.units = list(m["units"])
            for an, lt in m.get("features", []):
                mt.create_feature(blk.data_arrays[an], nix.LinkType(lt))
        for g in b["groups"]:
            grp = blk.create_group(g["name"], g["type"])
            for an in g.get("arrays", []):
                grp.data_arrays.append(blk.data_arrays[an])
            for tn in g.get("tags", []):
                grp.tags.append(blk.tags[tn])
            for mn in g.get("mtags", []):
                grp.multi_tags.append(blk.multi_tags[mn])

        def mk_sources(parent, srcs):
            for s in srcs:
                src = parent.create_source(s["name"], s["type"])
                mk_sources(src, s.get("sources", []))
        mk_sources(blk, b["sources"])

    def mk_sections(parent, secs):
        for s in secs:
            sec = parent.create_section(s["name"], s["type"])
            for p in s.get("props", []):
                prop = sec.create_property(p["name"], list(p["values"]))
                if p.get("unit"):
                    prop.unit = p["unit"]
            mk_sections(sec, s.get("sections", []))
    mk_sections(f, model.get("sections", []))


def resolve(f, path):
    kind, rest = path.split(":", 1)
    parts = rest.split("/")
    if kind == "section":
        obj = f.sections[parts[0]]
        for p in parts[1:]:
            obj = obj.sections[p]
        return obj
    blk = f.blocks[parts[0]]
    if kind == "block":
        return blk
    if kind == "array":
        return blk.data_arrays[parts[1]]
    if kind == "tag":
        return blk.tags[parts[1]]
    if kind == "mtag":
        return blk.multi_tags[parts[1]]
    if kind == "group":
        return blk.groups[parts[1]]
    if kind == "source":
        obj = blk.sources[parts[1]]
        for p in parts[2:]:
            obj = obj.sources[p]
        return obj
    raise KeyError(path)


def inject(f, model, inj):
    """perform one injection on the open file the way a user would (model = state before it)"""
    kind = inj["kind"]
    if kind == "empty-type":
        resolve(f, inj["at"]).type = ""
        return
    blk = f.blocks[inj["blk"]]
    bm = [b for b in model["blocks"] if b["name"] == inj["blk"]][0]
    if kind == "frame-append-row":
        after = R.apply_injection(model, inj)
        fa = R.find_frame([b for b in after["blocks"] if b["name"] == inj["blk"]][0], inj["frame"])
        blk.data_frames[inj["frame"]].append_rows([frame_row(fa, R.frame_rows(fa) - 1)])
        return
    if "arr" in inj and kind != "add-ref":
        da = blk.data_arrays[inj["arr"]]
        am = R.find_array(bm, inj["arr"])
        if kind == "dim-drop":
            keep = [d for i, d in enumerate(am["dims"]) if i != inj["j"]]
            da.delete_dimensions()
            for d in keep:
                append_dim(blk, da, d)
        elif kind == "dim-add":
            append_dim(blk, da, inj["spec"])
        else:
            dim = da.dimensions[inj["j"]]
            if kind == "ticks":
                dim.ticks = list(inj["ticks"])
            elif kind == "link-data":
                tm = R.find_array(bm, am["dims"][inj["j"]]["link"])
                tgt = blk.data_arrays[tm["name"]]
                tgt[:] = make_data(dict(tm, data=inj["data"]))
            elif kind == "link-resize":
                tm = R.find_array(bm, am["dims"][inj["j"]]["link"])
                tgt = blk.data_arrays[tm["name"]]
                tgt.data_extent = (int(inj["n"]),)
                tgt[:] = make_data(dict(tm, shape=[int(inj["n"])]))
            elif kind == "labels":
                dim.labels = list(inj["labels"])
            elif kind == "interval":
                dim.sampling_interval = inj["value"]
            elif kind == "axis-unit":
                dm = am["dims"][inj["j"]]
                if "flink" in dm:
                    # the unit of a frame-linked descriptor is the unit of the frame column
                    after = R.apply_injection(model, inj)
                    fa = R.find_frame([b for b in after["blocks"] if b["name"] == inj["blk"]][0],
                                      dm["flink"]["frame"])
                    blk.data_frames[fa["name"]].units = list(fa["units"])
                else:
                    dim.unit = inj["unit"]
            else:
                raise ValueError(kind)
        return
    tag = blk.tags[inj["tag"]] if "tag" in inj else blk.multi_tags[inj["mtag"]]
    if kind == "units":
        tag.units = list(inj["units"])
    elif kind == "add-ref":
        tag.references.append(blk.data_arrays[inj["arr"]])
    elif kind == "position":
        tag.position = list(inj["value"])
    elif kind == "extent":
        tag.extent = list(inj["value"])
    elif kind in ("positions", "extents"):
        after = R.apply_injection(model, inj)
        ba = [b for b in after["blocks"] if b["name"] == inj["blk"]][0]
        am = ba["arrays"][-1]
        da = create_array(blk, am)
        for d in am["dims"]:
            append_dim(blk, da, d)
        if kind == "positions":
            tag.positions = da
        else:
            if tag.extents is not None:
                tag.extents = None
            tag.extents = da
    else:
        raise ValueError(kind)


# ------------------------------------------------------------------ the check

CLI_OBJ = re.compile(r"^ \[(\d+)\] (\w+) '(.*)' \(ID: ([0-9a-fA-F-]+)\)$")


def cli_errors(path):
    """run the command line validator on a closed file; -> {id: [messages]} of its error section"""
    from nixio.cmd import validate as cliv
    buf = io.StringIO()
    with contextlib.redirect_stdout(buf):
        cliv.validate(path)
    out, cur, section = {}, None, None
    for line in buf.getvalue().splitlines():
        if re.match(r"^  \d+ objects? with errors$", line):
            section = "errors"
        elif re.match(r"^  \d+ objects? with warnings$", line):
            section = "warnings"
        elif line.startswith("  ---") or not line.strip() or line.startswith("Results for"):
            continue
        else:
            m = CLI_OBJ.match(line)
            if m:
                cur = m.group(4)
                if section == "errors":
                    out[cur] = []
            elif line.startswith("    ") and section == "errors" and cur is not None:
                out[cur].append(line[4:])
    return out


def compare(ctx, case, expected, reported, sub, injkinds, targets):
    """expected: reference result; reported: {path: [messages]}"""
    nviol = 0
    for path in sorted(set(expected) | set(reported)):
        okind = path.split(":", 1)[0]
        exp = expected.get(path)
        rep = reported.get(path)
        if exp is None:
            # an object without any catalogue condition: every message is an over-report
            for m in rep:
                ctx.violation("C14/%s/over-report/%s/%s" % (sub, okind, R.cond_of_message(m)), case,
                              {"object": path, "extra": m, "reported": rep, "conditions": [],
                               "expected": "no errors for this object",
                               "file": "well-formed" if not injkinds else "injected: " + "+".join(injkinds)})
                nviol += 1
            continue
        if rep is None:
            if exp["required"]:
                ctx.violation("C14/%s/missing-object/%s/%s" % (sub, okind, "+".join(exp["conds"])), case,
                              {"object": path, "expected_conditions": exp["conds"],
                               "required": exp["required"], "reported": None,
                               "role": "injected" if path in targets else "dependant"})
                nviol += 1
            continue
        union = set(exp["allowed"])
        for group in exp["required"]:
            union.update(group)
            if not any(m in rep for m in group):
                ctx.violation("C14/%s/under-report/%s/%s" % (sub, okind, R.cond_of_message(group[0])), case,
                              {"object": path, "missing": group, "reported": rep, "conditions": exp["conds"]})
                nviol += 1
        for m in rep:
            if m not in union:
                ctx.violation("C14/%s/over-report/%s/%s" % (sub, okind, R.cond_of_message(m)), case,
                              {"object": path, "extra": m, "reported": rep, "conditions": exp["conds"],
                               "required": exp["required"], "allowed": exp["allowed"]})
                nviol += 1
    return nviol


def raise_class(model):
    """input class of a file on which validation itself fails"""
    for b in model["blocks"]:
        for a in b["arrays"]:
            for d in a["dims"]:
                if d["k"] == "range" and "flink" in d and \
                        not R.find_frame(b, d["flink"]["frame"]).get("units"):
                    return "range-dimension-linked-to-frame-without-units"
    return "other"


def injection_targets(model, injs):
    out = set()
    cur = model
    for inj in injs:
        if inj["kind"] == "empty-type":
            out.add(inj["at"])
        else:
            if "arr" in inj and inj["kind"] != "add-ref":
                out.add(R.path_of("array", inj["blk"], inj["arr"]))
            if "frame" in inj:
                for b in cur["blocks"]:
                    if b["name"] == inj["blk"]:
                        for a in b["arrays"]:
                            if any(d.get("flink", {}).get("frame") == inj["frame"] for d in a["dims"]):
                                out.add(R.path_of("array", b["name"], a["name"]))
            if "tag" in inj:
                out.add(R.path_of("tag", inj["blk"], inj["tag"]))
            if "mtag" in inj:
                out.add(R.path_of("mtag", inj["blk"], inj["mtag"]))
        cur = R.apply_injection(cur, inj)
    return out


def _validate_stage(f, cur, ctx, case, sub, injs, base):
    expected = R.expected(cur)
    idmap = {}
    for opath, _, _, _ in R.objects(cur):
        idmap[resolve(f, opath).id] = opath
    try:
        res = f.validate()
    except Exception as exc:  # noqa
        ctx.violation("C14/api/validate-raised/%s" % raise_class(cur), case,
                      {"exception": type(exc).__name__, "text": str(exc)[:200], "stage": sub})
        return
    reported = {}
    for obj, msgs in res["errors"].items():
        oid = getattr(obj, "id", None)
        reported.setdefault(idmap.get(oid, "unknown:%s" % type(obj).__name__), []).extend(list(msgs))
    compare(ctx, case, expected, reported, "api", sorted({i["kind"] for i in injs}), injection_targets(base, injs))
    ctx.count("staged-validations")


def run_case(case, ctx):
    nix = _nix()
    base = case["file"]
    injs = case.get("inj", [])
    path = os.path.join(ctx.workdir, "c14.nix")
    if os.path.exists(path):
        os.remove(path)
    f = nix.File.open(path, nix.FileMode.Overwrite)
    closed = False
    try:
        build(f, base)
        cur = base
        for si, inj in enumerate(injs):
            if case.get("staged"):
                # validation must be a function of the CURRENT state, not of earlier validations in the
                # same session: validate before every injection as well (same handles, same process)
                _validate_stage(f, cur, ctx, case, "api@stage%d" % si, injs[:si], base)
            inject(f, cur, inj)
            cur = R.apply_injection(cur, inj)
        final = cur
        expected = R.expected(final)
        idmap = {}
        for opath, _, _, _ in R.objects(final):
            idmap[resolve(f, opath).id] = opath
        injkinds = sorted({i["kind"] for i in injs})
        targets = injection_targets(base, injs)

        try:
            res = f.validate()
        except Exception as exc:  # noqa
            ctx.violation("C14/api/validate-raised/%s" % raise_class(final), case,
                          {"exception": type(exc).__name__, "text": str(exc)[:200],
                           "file": "well-formed" if not expected else "with inconsistencies"})
            res = None
        reported = None
        if res is not None:
            reported = {}
            for obj, msgs in res["errors"].items():
                oid = getattr(obj, "id", None)
                opath = idmap.get(oid, "unknown:%s" % type(obj).__name__)
                reported.setdefault(opath, []).extend(list(msgs))
            compare(ctx, case, expected, reported, "api", injkinds, targets)

        if case.get("cli"):
            f.close()
            closed = True
            byid = None
            if reported is not None:
                try:
                    byid = cli_errors(path)
                except Exception as exc:  # noqa
                    ctx.violation("C14/cli/validate-raised/%s" % raise_class(final), case,
                                  {"exception": type(exc).__name__, "text": str(exc)[:200]})
            if byid is not None and reported is not None:
                rep2 = {}
                for oid, msgs in byid.items():
                    rep2.setdefault(idmap.get(oid, "unknown:cli"), []).extend(msgs)
                norm = lambda d: {k: sorted(v) for k, v in d.items()}  # noqa
                if norm(rep2) != norm(reported):
                    # the two front ends see the same file, so they must agree; what both get wrong
                    # is already filed under the api sub-check
                    cls = "object-set" if set(rep2) != set(reported) else "messages"
                    ctx.violation("C14/cli/differs-from-api/%s" % cls, case, {"api": reported, "cli": rep2})
    finally:
        if not closed:
            f.close()
        try:
            os.remove(path)
        except OSError:
            pass

    # ---- classes / non-triviality
    kinds_desc = set()
    ranks = set()
    for b in final["blocks"]:
        for a in b["arrays"]:
            ranks.add(len(a["shape"]))
            for d in a["dims"]:
                kinds_desc.add("range-link" if "link" in d else
                               (d["k"] + "-frame-link") if "flink" in d else
                               ("set-labels" if d["k"] == "set" and d.get("labels") else d["k"]))
    tagged = any(t["refs"] and t.get("units") for b in base["blocks"] for t in b["tags"] + b["mtags"])
    ekinds = {k for _, k, _, _ in R.objects(base)}
    if any(t.get("features") for b in base["blocks"] for t in b["tags"] + b["mtags"]):
        ekinds.add("feature")
    if any(s.get("props") for _, s in R.iter_sections(base.get("sections", []), [])):
        ekinds.add("property")
    if any(b.get("frames") for b in base["blocks"]):
        ekinds.add("frame")
    nontrivial = tagged and len(kinds_desc) >= 2 and (len(injs) >= 1 or len(ekinds) >= 3)
    classes = ["injections:%d" % len(injs), "cli" if case.get("cli") else "api-only",
               "validated-before-each-injection" if case.get("staged") and injs else "validated-once",
               "blocks:%d" % len(base["blocks"])]
    classes += ["inj:" + i["kind"] for i in injs]
    if case.get("paired"):
        classes.append("paired:" + case["paired"])
    classes += ["desc:" + k for k in sorted(kinds_desc)]
    classes += ["rank:%d" % r for r in sorted(ranks)]
    classes += ["entity:" + k for k in sorted(ekinds)]
    conds = set()
    dependants = 0
    optional = 0
    for opath, e in expected.items():
        conds.update(e["conds"])
        if e["required"] and opath not in targets:
            dependants += 1
        if not e["required"]:
            optional += 1
    classes += ["cond:" + c for c in sorted(conds)]
    if dependants:
        classes.append("dependant-object-expected")
    if optional:
        classes.append("object-with-only-unspecified-reports")
    if injs and not any(e["required"] for e in expected.values()):
        classes.append("injection-without-condition")
    if not expected:
        classes.append("expected-clean")
    ctx.count("objects-expected-in-errors", sum(1 for e in expected.values() if e["required"]))
    ctx.case(case, nontrivial, classes,
             sample={"inj": injs, "cli": case.get("cli", False),
                     "file": {"blocks": [{"name": b["name"],
                                          "arrays": [{"shape": a["shape"],
                                                      "dims": [("link" if "link" in d else
                                                                d["k"] + ("-flink" if "flink" in d else ""))
                                                               for d in a["dims"]]} for a in b["arrays"]],
                                          "tags": len(b["tags"]), "mtags": len(b["mtags"])}
                                         for b in base["blocks"]]},
                     "expected": {p: e["conds"] for p, e in expected.items()}})


# ------------------------------------------------------------------ domain, shards

def valid(case):
    try:
        base = case["file"]
        R.check_structure(base)
        if not R.link_lengths_ok(base) or R.expected(base):
            return False
        for b in base["blocks"]:
            for a in b["arrays"]:
                if len(a["dims"]) != len(a["shape"]):
                    return False
                for d in a["dims"]:
                    if d["k"] == "range" and not R.is_linked(d) and not d["ticks"]:
                        return False
            for t in b["tags"] + b["mtags"]:
                if any(u and not R.is_atomic_si(u) for u in (t.get("units") or [])):
                    return False
        cur = base
        for inj in case.get("inj", []):
            if inj not in R.enumerate_injections(cur):
                return False
            cur = R.apply_injection(cur, inj)
        R.check_structure(cur, allow_empty_arrays=True)
        return len(case.get("inj", [])) <= 2 and isinstance(case.get("cli", False), bool)
    except Exception:  # noqa
        return False


def shards(tier, seed):
    nrand, per, nrecipes, slices = (16, 40, 2, 8) if tier == "quick" else (32, 300, 8, 8)
    specs = [{"part": "random", "n": per, "seed": seed * 1000 + i} for i in range(nrand)]
    for r in range(nrecipes):
        specs += [{"part": "sweep", "seed": seed * 1000 + 500 + r, "slice": i, "of": slices}
                  for i in range(slices)]
    return specs


def sweep_recipe(seed):
    """the recipe of a sweep: the richest (most eligible injections) of 12 generated one-block recipes"""
    got = []
    gen.generate(recipe(max_blocks=1), 12, seed, got.append)
    return max(got, key=lambda m: len(R.enumerate_injections(m)))


def run_shard(spec, ctx):
    if spec["part"] == "random":
        gen.generate(cases(), spec["n"], spec["seed"], lambda c: run_case(c, ctx))
        return
    # sweep: every eligible single injection on one generated recipe (this shard: one slice of them)
    model = sweep_recipe(spec["seed"])
    allinj = R.enumerate_injections(model)
    if spec["slice"] == 0:
        ctx.add("sweep_recipes", 1)
        ctx.add("sweep_injections_enumerated", len(allinj))
    done = 0
    for i, inj in enumerate(allinj):
        if i % spec["of"] != spec["slice"]:
            continue
        run_case({"file": model, "inj": [inj], "cli": bool((i // spec["of"]) % 4 == 0),
                  "staged": bool((i // spec["of"]) % 2 == 1)}, ctx)
        done += 1
    ctx.add("sweep_injections_run", done)


def replay(case, ctx):
    run_case(case, ctx)
