# -*- coding: utf-8 -*-
"""C01 - array data is stored and returned exactly: type, shape, values (DESIGN 4/C01)."""
import gc
import itertools
import os

import numpy as np
from hypothesis import strategies as st

from vlib import gen

ID = "C01"
LEVEL = "exploration"
RULE = ("One case = one data array with a history: element type (8 integer types, float32/64, bool, text via "
        "dtype=DataType.String), rank 1-4 with extents 0-5 (zero-length axes in ~25 % of the small cases) or a 'long' "
        "class with one axis up to 20000 (growth crosses HDF5 chunk boundaries), creation by data= / shape+dtype then "
        "write_direct / shape+dtype then da[:]=, optionally through a fresh block handle after a reopen; 0-6 steps out "
        "of whole write, region assign (basic index expression; exact-shape, NumPy-scalar or Python-scalar value), "
        "append(axis=k) incl. onto zero-length axes and zero-length appends, resize through data_extent (grow / "
        "shrink / to zero), read_direct, region read, close+reopen(RW); compression in {No, DeflateNormal, Auto}^3 at "
        "file x block x array level; values are ramps, dtype extremes (min/max, +-0.0, NaN, +-inf, subnormals) or "
        "pseudo-random bit patterns, text is '' / ASCII / non-ASCII / astral / whitespace-edged; inputs are "
        "C-contiguous, Fortran-ordered, strided, nested lists or 'U' arrays where the call accepts array-likes. "
        "Oracle: a NumPy model array of the same element type plus a 'defined' mask to which every step is applied "
        "with NumPy semantics; after every step and at the end in-session, after a read-write reopen and after a "
        "read-only reopen, shape / data_extent / len / size / dtype / data_type and all defined elements are compared "
        "(bitwise for numerics with NaN payloads ignored and the sign of zero checked, exact str equality for text) "
        "through da[:], da[...], np.asarray(da) and read_direct; all compression triples compare against the same "
        "model; an explicit array-level No / DeflateNormal must show up as h5py compression None / 'gzip'. A grid "
        "enumerates element type x creation path x all 27 compression triples on one (quick) / two (thorough) fixed "
        "histories. "
        "Non-trivial: >= 1 mutating step after creation or a reopen step, and at least one of zero-length axis, "
        "special values, non-default compression, rank >= 3, text; distinct by (element type, shape, step signature, "
        "compression).")
ASSUMPTIONS = [
    "cells exposed by growing an array (append leaves none, data_extent growth does) and cells of an array created "
    "from shape+dtype that were never written are undefined and not compared",
    "NumPy basic indexing / concatenate are the reference semantics of region assign and append; a selection of a "
    "single element is returned as an array of shape (1,) (documented in DataArray._read_data)",
    "text excludes NUL (HDF5 variable-length strings are NUL-terminated; h5py refuses it) and lone surrogates",
    "write_direct gets C-contiguous arrays only (its docstring requires it); assignments, appends and data= get any "
    "layout",
    "an assignment to an empty selection may be refused or be a no-op; nothing may change",
    "Python-scalar values are small integers / multiples of 1/8, which every element type represents exactly",
    "the dtype attribute of a text array is only required to be an object dtype; data_type must be DataType.String",
    "resolution of Compression.Auto is not asserted (only that it never changes what is read)",
]
SHRINK = True

DTYPES = ["int8", "int16", "int32", "int64", "uint8", "uint16", "uint32", "uint64",
          "float32", "float64", "bool", "str"]
FILLS = ["ramp", "ext", "bits"]
LAYS = ["c", "f", "s", "list", "u"]
COMPR = ["N", "D", "A"]
MAX_ELEMS = 250000
MASK64 = (1 << 64) - 1

TEXT_POOL = ["", "a", "ü", "日本", "x y", "😀", "λ/µ", "long" * 5, "é", " lead", "trail ", "\t\n", "𝔘𝔫𝔦",
             "ß", "0", "None", "ÿþ", "​", "a" * 70, "\U0010ffff"]
CP_RANGES = [(0x20, 0x7e), (0xa1, 0xff), (0x370, 0x3ff), (0x4e00, 0x4eff), (0x1f600, 0x1f64f), (0x1, 0x1f),
             (0x300, 0x30f), (0xe000, 0xe0ff)]


# ------------------------------------------------------------------ deterministic values

def npdt(dt):
    return np.dtype(object) if dt == "str" else np.dtype(dt)


def dtclass(dt):
    return "text" if dt == "str" else "num"


def _mix(seed, n):
    """splitmix64 of (seed, i): a pure function, no RNG state"""
    base = (int(seed) * 0x9E3779B97F4A7C15 + 0x632BE59BD9B4E019) & MASK64
    with np.errstate(over="ignore"):
        z = np.arange(n, dtype=np.uint64) * np.uint64(0x9E3779B97F4A7C15) + np.uint64(base)
        z = (z ^ (z >> np.uint64(30))) * np.uint64(0xBF58476D1CE4E5B9)
        z = (z ^ (z >> np.uint64(27))) * np.uint64(0x94D049BB133111EB)
        z = z ^ (z >> np.uint64(31))
    return z


def _specials(dt):
    d = np.dtype(dt)
    if d.kind in "iu":
        ii = np.iinfo(d)
        return np.array([ii.min, ii.max, 0, 1, ii.max - 1, ii.min + 1, ii.max // 2, ii.max // 2 + 1], dtype=d)
    fi = np.finfo(d)
    vals = [fi.max, -fi.max, fi.tiny, -0.0, 0.0, np.nan, np.inf, -np.inf, fi.eps, fi.smallest_subnormal,
            -fi.smallest_subnormal, -fi.tiny, 1.0, -1.0, 0.1, fi.tiny / 2]
    with np.errstate(all="ignore"):
        return np.array(vals, dtype=d)


def _text(z):
    z = int(z)
    if z % 3 == 0:
        return TEXT_POOL[(z >> 4) % len(TEXT_POOL)]
    n = (z >> 2) % 7
    out = []
    for j in range(n):
        w = (z >> (6 + 9 * j)) & 0x1ff
        lo, hi = CP_RANGES[w % len(CP_RANGES)]
        out.append(chr(lo + (w >> 3) % (hi - lo + 1)))
    return "".join(out)


def values(dt, shape, fill, seed):
    """C-contiguous array of the element type (object array of str for text), a pure function of the arguments"""
    shape = tuple(int(x) for x in shape)
    n = int(np.prod(shape, dtype=np.int64)) if shape else 1
    seed = int(seed)
    if dt == "str":
        if fill == "ramp":
            flat = [TEXT_POOL[(i + seed) % 8] + str(i) for i in range(n)]
        elif fill == "ext":
            flat = [TEXT_POOL[(i + seed) % len(TEXT_POOL)] for i in range(n)]
        else:
            flat = [_text(z) for z in _mix(seed, n)]
        arr = np.empty(n, dtype=object)
        for i, s in enumerate(flat):
            arr[i] = s
        return arr.reshape(shape)
    if dt == "bool":
        if fill == "ramp":
            flat = (np.arange(n) + seed) % 3 == 0
        elif fill == "ext":
            flat = (np.arange(n) + seed) % 2 == 0
        else:
            flat = (_mix(seed, n) & np.uint64(1)).astype(bool)
        return np.array(flat).reshape(shape)
    d = np.dtype(dt)
    if fill == "ramp":
        if d.kind in "iu":
            with np.errstate(over="ignore"):
                flat = (np.arange(n, dtype=np.int64) + seed * 131 + 1).astype(d)      # wraps, stays deterministic
        else:
            flat = ((np.arange(n, dtype=np.float64) + seed) * 0.25 - 1.0).astype(d)
    elif fill == "ext":
        sp = _specials(dt)
        flat = sp[(np.arange(n) + seed) % len(sp)]
    else:
        z = _mix(seed, n)
        ut = np.dtype("u%d" % d.itemsize)
        flat = (z & np.uint64((1 << (8 * d.itemsize)) - 1)).astype(ut).view(d).copy()
        sp = _specials(dt)
        sel = (z >> np.uint64(60)) == 0                                              # 1/16 specials
        flat[sel] = sp[((z >> np.uint64(8)) % np.uint64(len(sp))).astype(np.int64)][sel]
    return np.array(flat).reshape(shape)


def scalar_value(dt, kind, fill, seed):
    seed = int(seed)
    if kind == "py":
        if dt == "str":
            return TEXT_POOL[seed % len(TEXT_POOL)]
        if dt == "bool":
            return bool(seed % 2)
        if dt.startswith("float"):
            return (seed % 64) / 8.0 - 2.0
        return seed % 100
    v = values(dt, (1,), fill, seed)[0]
    return v


def layout(arr, lay, dt):
    """same values, other memory layout / container"""
    if lay == "f" and arr.ndim >= 2:
        return np.asfortranarray(arr)
    if lay == "s" and arr.ndim >= 1:
        big = np.empty(arr.shape[:-1] + (arr.shape[-1] * 2,), dtype=arr.dtype)
        if dt == "str":
            big[...] = "X"
        else:
            big[...] = 1
        out = big[..., ::2]
        out[...] = arr
        return out
    if lay == "u" and dt == "str":
        if arr.size == 0:
            return np.empty(arr.shape, dtype="U1")
        return np.array(arr.tolist(), dtype=str).reshape(arr.shape)
    if lay == "list" and arr.size and dt in ("int64", "float64", "bool", "str"):
        return arr.tolist()
    return arr


def eff_lay(lay, arr, dt):
    if lay == "f" and arr.ndim >= 2:
        return "f"
    if lay == "s" and arr.ndim >= 1:
        return "s"
    if lay == "u" and dt == "str":
        return "u"
    if lay == "list" and arr.size and dt in ("int64", "float64", "bool", "str"):
        return "list"
    return "c"


# ------------------------------------------------------------------ index expressions (C06 coding)

def dec_comp(c):
    if c == "...":
        return Ellipsis
    if isinstance(c, dict):
        return slice(*c["s"])
    return int(c)


def dec_expr(e):
    comps = [dec_comp(c) for c in e["c"]]
    if e.get("npint"):
        comps = [np.int64(c) if isinstance(c, int) else c for c in comps]
    if e.get("bare") and len(comps) == 1:
        return comps[0]
    return tuple(comps)


def valid_expr(e):
    if not isinstance(e, dict) or not isinstance(e.get("c"), list):
        return False
    n_ell = 0
    for c in e["c"]:
        if c == "...":
            n_ell += 1
        elif isinstance(c, dict):
            s = c.get("s")
            if not (isinstance(s, list) and len(s) == 3 and all(x is None or (isinstance(x, int) and not
                                                                              isinstance(x, bool)) for x in s)):
                return False
            if s[2] is not None and s[2] < 1:
                return False
        elif not isinstance(c, int) or isinstance(c, bool):
            return False
    return n_ell <= 1


# ------------------------------------------------------------------ the model

class Model:
    def __init__(self, dt, shape):
        self.dt = dt
        shape = tuple(shape)
        if dt == "str":
            self.M = np.empty(shape, dtype=object)
            self.M[...] = ""
        else:
            self.M = np.zeros(shape, dtype=np.dtype(dt))
        self.D = np.zeros(shape, dtype=bool)

    def set_all(self, arr):
        self.M = np.array(arr, dtype=self.M.dtype).reshape(self.M.shape)
        self.D = np.ones(self.M.shape, dtype=bool)

    def append(self, arr, axis):
        self.M = np.concatenate([self.M, arr], axis=axis)
        self.D = np.concatenate([self.D, np.ones(arr.shape, dtype=bool)], axis=axis)

    def resize(self, ext):
        ext = tuple(ext)
        old, oldd = self.M, self.D
        new = Model(self.dt, ext)
        common = tuple(slice(0, min(a, b)) for a, b in zip(old.shape, ext))
        new.M[common] = old[common]
        new.D[common] = oldd[common]
        self.M, self.D = new.M, new.D

    def resync(self, got):
        """after a violation: continue from what the file really holds"""
        if isinstance(got, np.ndarray) and got.dtype == self.M.dtype:
            self.M = got.copy()
            self.D = np.ones(got.shape, dtype=bool)
            return True
        return False


def _bits(a):
    a = np.ascontiguousarray(a)
    return a.view(np.dtype("u%d" % a.dtype.itemsize))


def compare_values(got, model):
    """None when every defined element agrees, else (what, detail)"""
    M, D = model.M, model.D
    if not isinstance(got, np.ndarray):
        return "result-type", {"got_type": type(got).__name__}
    if got.shape != M.shape:
        return "read-shape", {"want": list(M.shape), "got": list(got.shape)}
    if got.dtype != M.dtype:
        return "read-dtype", {"want": str(M.dtype), "got": str(got.dtype)}
    if M.size == 0:
        return None
    what = "values"
    if model.dt == "str":
        flat = got.ravel()
        notstr = np.array([not isinstance(x, str) for x in flat], dtype=bool).reshape(M.shape)
        bad = (notstr | np.asarray(got != M, dtype=bool)) & D
        if (notstr & D).any():
            what = "element-type"
    elif M.dtype.kind == "f":
        gb, mb = _bits(got), _bits(M)
        with np.errstate(all="ignore"):
            gn, mn = np.isnan(got), np.isnan(M)
        eq = (gb == mb) | (gn & mn)
        bad = ~eq & D
        if bad.any():
            idx = tuple(int(i) for i in np.argwhere(bad)[0])
            if gn[idx] != mn[idx]:
                what = "values-nan"
            elif got[idx] == M[idx]:
                what = "values-sign-of-zero"
    else:
        bad = (_bits(got) != _bits(M)) & D
    if not bad.any():
        return None
    idx = tuple(int(i) for i in np.argwhere(bad)[0])
    return what, {"first_bad_index": list(idx), "want": _show(M[idx]), "got": _show(got[idx]),
                  "n_bad": int(bad.sum()), "n_defined": int(D.sum())}


def _show(x):
    if isinstance(x, (str, bytes)):
        return repr(x)
    if isinstance(x, np.floating):
        return "%r (0x%x)" % (float(x), int(_bits(np.array([x]))[0]))
    if isinstance(x, np.generic):
        return repr(x.item())
    return repr(x)[:80]


# ------------------------------------------------------------------ running one case

class _Abort(Exception):
    pass


class Run:
    def __init__(self, case, ctx):
        import nixio
        self.nix = nixio
        self.case = case
        self.ctx = ctx
        self.dt = case["dt"]
        self.cls = dtclass(self.dt)
        self.compr = list(case.get("compr", "AAA"))
        self.path = os.path.join(ctx.workdir, "c01-%d.nix" % os.getpid())
        self.f = None
        self._das = []
        self._turn = 0
        # "two": two retained handles to the same array are used in turn - what is written or resized through
        # one must be what the other reads and appends to (no per-handle copy of extent, dtype or data)
        self.handles = case.get("handles", "single")
        self.model = None
        self.flags = set()
        self.nviol = 0

    @property
    def da(self):
        if not self._das:
            return None
        if self.handles == "two" and self.f is not None:
            if len(self._das) < 2:
                self._das.append(self.f.blocks[0].data_arrays[0])
            self._turn += 1
            return self._das[self._turn % 2]
        return self._das[0]

    @da.setter
    def da(self, h):
        self._das = [] if h is None else [h]

    # -- helpers
    def cmap(self, c):
        C = self.nix.Compression
        return {"N": C.No, "D": C.DeflateNormal, "A": C.Auto}[c]

    def viol(self, site, what, detail, cls=None):
        d = dict(detail)
        d["site"] = site
        self.nviol += 1
        self.ctx.violation("C01/%s/%s/%s" % (site, what, cls or self.cls), self.case, d)

    def open(self, mode):
        FM = self.nix.FileMode
        m = {"w": FM.Overwrite, "a": FM.ReadWrite, "r": FM.ReadOnly}[mode]
        self.f = self.nix.File.open(self.path, m, compression=self.cmap(self.compr[0]))

    def close(self):
        if self.f is not None:
            try:
                self.f.close()
            finally:
                self.f = None
                self.da = None

    def fetch(self):
        self.da = self.f.blocks[0].data_arrays[0]

    def dtype_arg(self, how):
        DT = self.nix.DataType
        if self.dt == "str":
            return DT.String
        if how == "none" or how == "default":
            return None
        if how == "nix":
            return {"int8": DT.Int8, "int16": DT.Int16, "int32": DT.Int32, "int64": DT.Int64,
                    "uint8": DT.UInt8, "uint16": DT.UInt16, "uint32": DT.UInt32, "uint64": DT.UInt64,
                    "float32": DT.Float, "float64": DT.Double, "bool": DT.Bool}[self.dt]
        return np.dtype(self.dt)

    # -- observation
    def read_all(self, how):
        da = self.da
        if how == "slice":
            return da[:]
        if how == "ell":
            return da[...]
        if how == "array":
            return np.asarray(da)
        out = np.empty(tuple(self.model.M.shape), dtype=self.model.M.dtype)
        if self.dt == "str":
            out[...] = "\x7fsentinel"
        else:
            out[...] = 1
        da.read_direct(out)
        return out

    def check(self, site, reads=("slice",)):
        """compare every observable with the model; returns the array read through da[:] (or None)"""
        da, M = self.da, self.model.M
        want_shape = tuple(int(x) for x in M.shape)
        first = None
        try:
            shape = da.shape
            ext = da.data_extent
            ln = len(da)
            ln2 = da.len()
            size = da.size
            dtype = da.dtype
            data_type = da.data_type
        except Exception as exc:                               # noqa: BLE001 - any refusal is a finding
            self.viol(site, "attribute-refused", {"raised": type(exc).__name__, "msg": str(exc)[:160]})
            raise _Abort()
        if tuple(shape) != want_shape or not isinstance(shape, tuple):
            # data_extent / len / size follow the extent; one wrong extent is one finding
            self.viol(site, "shape", {"want": list(want_shape), "got": repr(shape), "data_extent": repr(ext),
                                      "len": repr(ln), "size": repr(size)})
        else:
            if tuple(ext) != want_shape:
                self.viol(site, "data_extent", {"want": list(want_shape), "got": repr(ext)})
            if ln != want_shape[0] or ln2 != want_shape[0]:
                self.viol(site, "len", {"want": want_shape[0], "got": [repr(ln), repr(ln2)]})
            if size != M.size:
                self.viol(site, "size", {"want": int(M.size), "got": repr(size)})
        if self.dt == "str":
            if not (isinstance(dtype, np.dtype) and dtype.kind == "O"):
                self.viol(site, "dtype", {"want": "object dtype", "got": repr(dtype)})
            if not (data_type == self.nix.DataType.String):
                self.viol(site, "data_type", {"want": "DataType.String", "got": repr(data_type)})
        else:
            if not (isinstance(dtype, np.dtype) and dtype == M.dtype):
                self.viol(site, "dtype", {"want": str(M.dtype), "got": repr(dtype)})
            try:
                ok = np.dtype(data_type) == M.dtype
            except TypeError:
                ok = False
            if not ok:
                self.viol(site, "data_type", {"want": str(M.dtype), "got": repr(data_type)})
        if tuple(shape) != want_shape:
            # the model cannot be compared element-wise any more: follow the file
            try:
                got = da[:]
            except Exception:
                raise _Abort()
            if not self.model.resync(got):
                raise _Abort()
            return got
        for how in reads:
            rsite = site if how == "slice" else "%s+%s" % (site.split(":")[0], how)
            try:
                got = self.read_all(how)
            except Exception as exc:                           # noqa: BLE001
                self.viol(rsite, "read-refused", {"raised": type(exc).__name__, "msg": str(exc)[:160], "read": how})
                if how == "slice":
                    raise _Abort()
                continue
            res = compare_values(got, self.model)
            if res is not None:
                det = dict(res[1])
                det["read"] = how
                self.viol(rsite, res[0], det)
            if how == "slice":
                first = got
                if res is not None and not self.model.resync(got):
                    raise _Abort()
        return first

    # -- creation
    def create(self):
        c = self.case["create"]
        how = c.get("how", "data")
        shape = tuple(int(x) for x in self.case["shape"])
        self.open("w")
        blk = self.f.create_block("b", "t", compression=self.cmap(self.compr[1]))
        if c.get("pre"):
            self.close()
            self.open("a")
            blk = self.f.blocks[0]
            self.flags.add("create-after-reopen")
        self.model = Model(self.dt, shape)
        kw = {"compression": self.cmap(self.compr[2])}
        if how == "data":
            vals = values(self.dt, shape, c.get("fill", "ramp"), c.get("seed", 0))
            lay = c.get("lay", "c")
            self.flags.add("lay:" + eff_lay(lay, vals, self.dt))
            dta = self.dtype_arg(c.get("dtarg", "none"))
            if dta is not None:
                kw["dtype"] = dta
            arg = layout(vals, lay, self.dt)
            try:
                self.da = blk.create_data_array("a", "t", data=arg, **kw)
            except Exception as exc:                           # noqa: BLE001
                self.viol("create:data", "refused", {"raised": type(exc).__name__, "msg": str(exc)[:200]})
                raise _Abort()
            self.model.set_all(vals)
            self.check("create:data")
            return
        dtarg = c.get("dtarg", "np")
        if dtarg == "default" and self.dt != "float64":
            dtarg = "np"
        dta = self.dtype_arg(dtarg)
        if dta is not None:
            kw["dtype"] = dta
        self.flags.add("dtarg:" + dtarg)
        try:
            self.da = blk.create_data_array("a", "t", shape=shape, **kw)
        except Exception as exc:                               # noqa: BLE001
            self.viol("create:shape-only", "refused", {"raised": type(exc).__name__, "msg": str(exc)[:200]})
            raise _Abort()
        self.check("create:shape-only")
        # the first whole write is the same call site as a later 'write' step
        self.step(-1, {"op": "write", "how": how, "fill": c.get("fill", "ramp"), "seed": c.get("seed", 0),
                       "lay": c.get("lay", "c")})

    # -- steps
    def step(self, i, s):
        op = s["op"]
        dt, model = self.dt, self.model
        shape = model.M.shape
        rank = len(shape)
        fill, seed = s.get("fill", "ramp"), s.get("seed", 0)
        if op == "reopen":
            self.close()
            self.open("a")
            self.fetch()
            self.check("reopen")
            return "reopen"
        if op == "read_direct":
            self.check("read_direct", reads=("direct",))
            return "read_direct"
        if op == "read":
            expr = dec_expr(s["e"])
            try:
                want = model.M[expr]
                wdef = model.D[expr]
            except IndexError:
                return None
            want = np.asarray(want, dtype=model.M.dtype) if not isinstance(want, np.ndarray) else want
            scalar_sel = want.ndim == 0
            if scalar_sel:
                want = want.reshape((1,))
                wdef = np.asarray(wdef).reshape((1,))
            site = "read:" + ("scalar-selection" if scalar_sel else "sub-array")
            try:
                got = self.da[expr]
            except Exception as exc:                           # noqa: BLE001
                self.viol(site, "read-refused", {"raised": type(exc).__name__, "msg": str(exc)[:160], "step": i})
                return site
            sub = Model(dt, want.shape)
            sub.M, sub.D = want, np.asarray(wdef, dtype=bool)
            res = compare_values(got, sub)
            if res is not None:
                det = dict(res[1])
                det["step"] = i
                self.viol(site, res[0], det)
            return site

        # mutating steps ---------------------------------------------------------------
        if op == "write":
            how = s.get("how", "wd")
            vals = values(dt, shape, fill, seed)
            site = "write:" + ("wd" if how == "wd" else "set")          # da[:] = and da[...] = are one call site
            lay = s.get("lay", "c") if how != "wd" else "c"
            self.flags.add("lay:" + eff_lay(lay, vals, dt))
            arg = layout(vals, lay, dt)

            def call():
                if how == "wd":
                    self.da.write_direct(arg)
                elif how == "ell":
                    self.da[...] = arg
                else:
                    self.da[:] = arg

            def apply():
                model.set_all(vals)
        elif op == "assign":
            expr = dec_expr(s["e"])
            try:
                sel = model.M[expr]
            except IndexError:
                return None
            selshape = np.shape(sel)
            vk = s.get("v", "exact")
            site = "assign"
            self.flags.add("assign-value:" + vk)
            if vk == "exact":
                vals = values(dt, selshape, fill, seed)
                lay = s.get("lay", "c")
                if len(selshape) == 0:
                    lay = "c"
                self.flags.add("lay:" + eff_lay(lay, vals, dt))
                arg = layout(vals, lay, dt)
                if len(selshape) == 0:
                    arg = vals.reshape(())[()]
                    vals = arg
            else:
                vals = arg = scalar_value(dt, vk, fill, seed)
            empty = int(np.prod(selshape, dtype=np.int64)) == 0 if len(selshape) else False
            if empty:
                self.flags.add("assign-empty-selection")

            def call():
                self.da[expr] = arg

            def apply():
                model.M[expr] = vals
                model.D[expr] = True
        elif op == "append":
            axis = int(s.get("axis", 0)) % rank
            n = int(s.get("n", 1))
            ashape = tuple(n if k == axis else x for k, x in enumerate(shape))
            total = int(np.prod(tuple(shape[k] + (n if k == axis else 0) for k in range(rank)), dtype=np.int64))
            if total > MAX_ELEMS:
                return None
            vals = values(dt, ashape, fill, seed)
            lay = s.get("lay", "c")
            self.flags.add("lay:" + eff_lay(lay, vals, dt))
            arg = layout(vals, lay, dt)
            site = "append:" + ("axis0" if axis == 0 else "axis>0")
            if model.M.size == 0:
                self.flags.add("append-onto-empty")
            if n == 0:
                self.flags.add("append-nothing")
            if axis > 0:
                self.flags.add("append-axis>0")
            if n >= 500:
                self.flags.add("chunk-crossing")
            kw = {} if (axis == 0 and s.get("axis_default")) else {"axis": axis}
            empty = False
            odd = s.get("odd")
            if odd in ("neg", "rank"):
                # an axis outside 0..rank-1: either the NumPy reading (negative = counted from the end) or a
                # refusal - never a silent overwrite of what is stored.  axis >= rank has no reading at all:
                # refused, or at least nothing stored may change
                given = axis - rank if odd == "neg" else rank + int(s.get("n", 1)) % 2
                site = "append:axis-negative" if odd == "neg" else "append:axis-out-of-range"
                self.flags.add(site)
                try:
                    self.da.append(arg, axis=given)
                    raised = False
                except Exception:                              # noqa: BLE001
                    raised = True
                    self.ctx.count(site + "-refused")
                if not raised and odd == "neg":
                    model.append(vals, axis)
                    self.ctx.count(site + "-accepted")
                self.check(site)
                return site

            def call():
                self.da.append(arg, **kw)

            def apply():
                model.append(vals, axis)
        elif op == "resize":
            ext = tuple(int(x) for x in s["ext"])
            if len(ext) != rank or int(np.prod(ext, dtype=np.int64)) > MAX_ELEMS:
                return None
            grow = any(a > b for a, b in zip(ext, shape))
            shrink = any(a < b for a, b in zip(ext, shape))
            kind = "mixed" if grow and shrink else "grow" if grow else "shrink" if shrink else "same"
            site = "resize:" + ("shrink" if shrink else kind)
            self.flags.add("resize:" + kind)
            if max(abs(a - b) for a, b in zip(ext, shape)) >= 500:
                self.flags.add("chunk-crossing")
            empty = False

            def call():
                self.da.data_extent = ext

            def apply():
                model.resize(ext)
        else:
            raise ValueError("unknown op %r" % (op,))

        if op in ("write", "append"):
            empty = False
        try:
            call()
        except Exception as exc:                               # noqa: BLE001
            if op == "assign" and empty:
                self.ctx.count("empty-selection-write-refused")
                self.check(site)
                return site
            self.viol(site, "refused", {"raised": type(exc).__name__, "msg": str(exc)[:200], "step": i,
                                        "shape_before": list(shape)})
            # what does the file hold now?  continue from there
            try:
                got = self.da[:]
            except Exception:
                raise _Abort()
            if (not isinstance(got, np.ndarray) or got.shape != model.M.shape
                    or compare_values(got, model) is not None):
                # partial effects of a refused call are C12's subject; here only follow the file
                self.ctx.count("refused-step-left-partial-state")
                if not model.resync(got):
                    raise _Abort()
            return site
        apply()
        if 0 in self.model.M.shape:
            self.flags.add("zero-length")
        self.check(site)
        return site

    # -- whole history
    def run(self):
        steps = self.case.get("steps", [])
        done = []
        try:
            try:
                self.create()
                if 0 in self.model.M.shape:
                    self.flags.add("zero-length")
                for i, s in enumerate(steps):
                    r = self.step(i, s)
                    if r is None:
                        self.ctx.count("step-skipped-out-of-domain")
                    else:
                        done.append(r)
                allreads = ("slice", "ell", "array", "direct")
                self.check("final-in-session", reads=allreads)
                self.close()
                self.open("a")
                self.fetch()
                self.check("final-rw", reads=("slice", "direct"))
                self.close()
                self.open("r")
                self.fetch()
                self.check("final-ro", reads=("slice", "array", "ell"))
                self.close()
                self.raw_check()
            except _Abort:
                self.flags.add("aborted")
        finally:
            try:
                self.close()
            except Exception:
                pass
            try:
                os.remove(self.path)
            except OSError:
                pass
        return done

    def raw_check(self):
        """independent look at the stored dataset: filter of an explicitly chosen array-level compression"""
        import h5py
        with h5py.File(self.path, "r") as h:
            ds = h["data"]["b"]["data_arrays"]["a"]["data"]
            comp = ds.compression
            if self.compr[2] == "N" and comp is not None:
                self.viol("raw", "compression-not-none", {"got": repr(comp)}, cls="array=No")
            if self.compr[2] == "D" and comp != "gzip":
                self.viol("raw", "compression-not-gzip", {"got": repr(comp)}, cls="array=DeflateNormal")
            self.ctx.count("stored-compression:%s" % comp)


def signature(case):
    sig = []
    for s in case.get("steps", []):
        op = s.get("op")
        if op == "append":
            sig.append(["append", s.get("axis", 0), s.get("n", 1)])
        elif op == "resize":
            sig.append(["resize"] + list(s.get("ext", [])))
        elif op in ("assign", "read"):
            sig.append([op, s.get("e"), s.get("v")])
        elif op == "write":
            sig.append(["write", s.get("how")])
        else:
            sig.append([op])
    c = case.get("create", {})
    return {"dt": case["dt"], "shape": case["shape"], "create": [c.get("how"), bool(c.get("pre"))], "steps": sig,
            "compr": case.get("compr", "AAA")}


MUTATING = ("write", "assign", "append", "resize")


def run_case(case, ctx, part="random"):
    run = Run(case, ctx)
    done = run.run()
    steps = case.get("steps", [])
    c = case.get("create", {})
    fills = {c.get("fill", "ramp")} | {s.get("fill", "ramp") for s in steps if s.get("op") in ("write", "assign", "append")}
    special_vals = bool(fills & {"ext", "bits"})
    mutating = [d for d in done if d.split(":")[0] in MUTATING]
    has_step = bool(mutating) or "reopen" in done
    rank = len(case["shape"])
    interesting = ("zero-length" in run.flags or special_vals or case.get("compr", "AAA") != "AAA" or rank >= 3
                   or case["dt"] == "str")
    nontrivial = bool(has_step and interesting and "aborted" not in run.flags)
    long_ = max(case["shape"] + [0]) >= 500 or "chunk-crossing" in run.flags
    classes = ["part:" + part, "dt:" + case["dt"], "rank%d" % rank, "create:" + c.get("how", "data"),
               "steps:%d" % min(len(steps), 6), "compr-array:" + case.get("compr", "AAA")[2],
               "compr-block:" + case.get("compr", "AAA")[1], "compr-file:" + case.get("compr", "AAA")[0],
               "shape:" + ("long" if long_ else "small")]
    classes += sorted(run.flags) + ["handles:" + case.get("handles", "single")]
    classes += ["fill:" + f for f in sorted(fills)]
    if "reopen" in done:
        classes.append("reopen-mid-history")
    for d in done:
        ctx.count("op:" + d)
    # shapes of interest: growth after a shrink, append after resize
    kinds = [d.split(":")[0] for d in done]
    if "resize" in kinds and "append" in kinds[kinds.index("resize"):]:
        classes.append("append-after-resize")
    if run.nviol:
        classes.append("violating")
    ctx.case(signature(case), nontrivial, classes, sample=case)


# ------------------------------------------------------------------ generators

SEEDS = st.integers(0, 999)


@st.composite
def expr_for(draw, shape):
    rank = len(shape)

    def comp(n):
        bound = st.one_of(st.none(), st.integers(-n - 1, n + 1))
        slc = st.tuples(bound, bound, st.sampled_from([None, None, 1, 2, 3])).map(lambda t: {"s": list(t)})
        full = st.just({"s": [None, None, None]})
        if n > 0:
            return draw(st.one_of(st.integers(-n, n - 1), slc, slc, full))
        return draw(st.one_of(slc, full))

    if rank >= 1 and shape[0] > 0 and draw(st.integers(0, 6)) == 0:
        # a single integer for the first axis, bare or as 1-tuple (0 is falsy: 'no index given' shortcuts)
        k = draw(st.sampled_from([0, 0, 0, -1, shape[0] - 1, -shape[0]]))
        return {"c": [k], "bare": draw(st.sampled_from([True, True, False])), "npint": draw(st.booleans())}
    ncomp = draw(st.integers(0, rank))
    comps = [comp(shape[i]) for i in range(ncomp)]
    if draw(st.integers(0, 3)) == 0:
        pos = draw(st.integers(0, len(comps)))
        right = len(comps) - pos
        comps = comps[:pos] + ["..."] + [comp(shape[rank - right + i]) for i in range(right)]
    bare = len(comps) == 1 and draw(st.booleans())
    return {"c": comps, "bare": bare}


@st.composite
def scalar_expr_for(draw, shape):
    """every axis addressed by an int (only when no axis is empty)"""
    return {"c": [draw(st.integers(-n, n - 1)) for n in shape], "bare": len(shape) == 1 and draw(st.booleans())}


def _cap(dt):
    return 6000 if dt == "str" else 40000


LONG_EXT = [0, 1, 700, 1023, 1024, 1025, 1250, 2500, 5000, 10001, 20000]
LONG_APP = [1, 300, 1023, 1024, 1500, 3000]


def _lays(dt, with_list):
    """input container / memory layout; 'u' ('U' array) only means something for text, 'list' for list-typed dtypes"""
    pool = ["c", "c", "f", "s"]
    if dt == "str":
        pool += ["u", "u"]
    if with_list and dt in ("int64", "float64", "bool", "str"):
        pool += ["list", "list"]
    return st.sampled_from(pool)


@st.composite
def case_strategy(draw):
    dt = draw(st.sampled_from(DTYPES + ["str", "float64", "float32"]))
    long_ = draw(st.integers(0, 3)) == 0
    la = None
    if not long_:
        rank = draw(st.sampled_from([1, 1, 2, 2, 3, 3, 4]))
        shape = [draw(st.integers(1, 5)) for _ in range(rank)]
        if draw(st.integers(0, 3)) == 0:
            shape[draw(st.integers(0, rank - 1))] = 0
            for j in range(rank):
                if draw(st.integers(0, 5)) == 0:
                    shape[j] = 0
    else:
        rank = draw(st.sampled_from([1, 1, 2, 2, 3]))
        shape = [draw(st.integers(1, 3)) for _ in range(rank)]
        la = draw(st.integers(0, rank - 1))
        shape[la] = 1
        other = int(np.prod(shape))
        shape[la] = min(draw(st.one_of(st.sampled_from(LONG_EXT), st.integers(0, 20000))), _cap(dt) // other)
    how = draw(st.sampled_from(["data", "data", "wd", "set"]))
    if how != "data" and draw(st.integers(0, 7)) == 0:
        dt = "float64"                      # the documented default element type: shape given, dtype omitted
    create = {"how": how, "fill": draw(st.sampled_from(FILLS)), "seed": draw(SEEDS),
              "pre": draw(st.integers(0, 5)) == 0}
    if how == "data":
        create["dtarg"] = draw(st.sampled_from(["none", "none", "np", "nix"]))
        create["lay"] = draw(_lays(dt, True))
    else:
        create["dtarg"] = draw(st.sampled_from(["default", "default", "default", "np", "nix"] if dt == "float64" else ["np", "nix"]))
        if how == "set":
            create["lay"] = draw(_lays(dt, False))
    compr = "".join(draw(st.sampled_from(COMPR)) for _ in range(3))
    nsteps = draw(st.sampled_from([3, 2, 4, 1, 5, 2, 3, 6, 4, 0]))
    steps = []
    cur = list(shape)
    for _ in range(nsteps):
        op = draw(st.sampled_from(["write"] * 2 + ["assign"] * 4 + ["append"] * 5 + ["resize"] * 3 +
                                  ["read_direct"] + ["read"] * 2 + ["reopen"] * 3))
        s = {"op": op}
        if op in ("write", "assign", "append"):
            s["fill"] = draw(st.sampled_from(FILLS))
            s["seed"] = draw(SEEDS)
        if op == "write":
            s["how"] = draw(st.sampled_from(["wd", "set", "ell"]))
            if s["how"] != "wd":
                s["lay"] = draw(_lays(dt, False))
        elif op == "assign":
            s["e"] = draw(expr_for(cur))
            s["v"] = draw(st.sampled_from(["exact", "exact", "scalar", "py"]))
            if s["v"] == "exact":
                s["lay"] = draw(_lays(dt, False))
        elif op == "read":
            if 0 not in cur and draw(st.booleans()):
                s["e"] = draw(scalar_expr_for(cur))
            else:
                s["e"] = draw(expr_for(cur))
        elif op == "append":
            axis = draw(st.integers(0, rank - 1))
            if la is not None and draw(st.booleans()):
                axis = la
            if la is not None and axis == la:
                n = draw(st.sampled_from(LONG_APP))
            else:
                n = draw(st.sampled_from([0, 1, 1, 2, 2, 3]))
            other = int(np.prod([x for k, x in enumerate(cur) if k != axis]))
            if other and (cur[axis] + n) * other > 2 * _cap(dt):
                n = 1
            s["axis"] = axis
            s["n"] = n
            if axis == 0 and draw(st.booleans()):
                s["axis_default"] = True
            elif n > 0 and draw(st.integers(0, 7)) == 0:
                s["odd"] = draw(st.sampled_from(["neg", "neg", "rank"]))
                if s["odd"] == "rank":
                    cur[axis] -= n          # refused (or without effect): the extent stays
            s["lay"] = draw(_lays(dt, True))
            cur[axis] += n
        elif op == "resize":
            ext = list(cur)
            for k in range(rank):
                if la is not None and k == la:
                    if draw(st.booleans()):
                        other = max(1, int(np.prod([x for j, x in enumerate(cur) if j != k])))
                        ext[k] = min(draw(st.one_of(st.sampled_from(LONG_EXT), st.integers(0, 20000))),
                                     2 * _cap(dt) // other)
                elif draw(st.integers(0, 2)) > 0 or rank == 1:
                    ext[k] = draw(st.integers(0, min(cur[k] + 3, 8)))
            s["ext"] = ext
            cur = list(ext)
        steps.append(s)
    return {"dt": dt, "shape": shape, "create": create, "compr": compr, "steps": steps,
            "handles": draw(st.sampled_from(["single", "two", "two"]))}


# two fixed histories for the exhaustive element type x creation path x compression grid
GRID_TEMPLATES = [
    {"shape": [2, 3],
     "steps": [{"op": "append", "axis": 1, "n": 2, "fill": "bits", "seed": 3},
               {"op": "reopen"},
               {"op": "assign", "e": {"c": [{"s": [None, None, None]}, 1]}, "v": "scalar", "fill": "ext", "seed": 5},
               {"op": "resize", "ext": [3, 4]},
               {"op": "append", "axis": 0, "n": 1, "fill": "ext", "seed": 7},
               {"op": "read_direct"}]},
    {"shape": [0, 3],
     "steps": [{"op": "append", "axis": 0, "n": 2, "fill": "ext", "seed": 1, "axis_default": True},
               {"op": "write", "how": "set", "fill": "bits", "seed": 2},
               {"op": "resize", "ext": [2, 0]},
               {"op": "reopen"},
               {"op": "append", "axis": 1, "n": 1200, "fill": "bits", "seed": 4},
               {"op": "assign", "e": {"c": [-1, {"s": [1000, 1100, 3]}]}, "v": "exact", "fill": "ext", "seed": 9}]},
]


def grid_cases(tier):
    for t, (dt, how, triple) in itertools.product(
            range(1 if tier == "quick" else len(GRID_TEMPLATES)), itertools.product(DTYPES, ["data", "wd", "set"],
                                                          itertools.product(COMPR, repeat=3))):
        tpl = GRID_TEMPLATES[t]
        create = {"how": how, "fill": "ext", "seed": 2, "pre": False,
                  "dtarg": "none" if how == "data" else "nix"}
        yield {"dt": dt, "shape": list(tpl["shape"]), "create": create, "compr": "".join(triple),
               "steps": [dict(s) for s in tpl["steps"]]}


def shards(tier, seed):
    n, per = (16, 80) if tier == "quick" else (64, 470)
    specs = [{"part": "random", "n": per, "seed": seed * 1000 + i} for i in range(n)]
    ngrid = 16
    specs += [{"part": "grid", "tier": tier, "i": i, "of": ngrid, "seed": seed} for i in range(ngrid)]
    return specs


def run_shard(spec, ctx):
    # File.close() calls gc.collect(); keep the interpreter's long-lived objects out of every such sweep
    gc.collect()
    gc.freeze()
    if spec["part"] == "grid":
        for k, case in enumerate(grid_cases(spec.get("tier", "quick"))):
            if k % spec["of"] == spec["i"]:
                run_case(case, ctx, part="grid")
        ctx.exhaustive = True
    else:
        gen.generate(case_strategy(), spec["n"], spec["seed"], lambda c: run_case(c, ctx))


def replay(case, ctx):
    run_case(case, ctx, part="replay")


def _is_int(x):
    return isinstance(x, int) and not isinstance(x, bool)


def valid(case):
    try:
        if not isinstance(case, dict) or case.get("dt") not in DTYPES:
            return False
        shape = case.get("shape")
        if not (isinstance(shape, list) and 1 <= len(shape) <= 4 and all(_is_int(x) and 0 <= x <= 20000 for x in shape)):
            return False
        if int(np.prod(shape, dtype=np.int64)) > MAX_ELEMS:
            return False
        c = case.get("create")
        if not isinstance(c, dict) or c.get("how", "data") not in ("data", "wd", "set"):
            return False
        if c.get("fill", "ramp") not in FILLS or not _is_int(c.get("seed", 0)) or c.get("seed", 0) < 0:
            return False
        if c.get("lay", "c") not in LAYS or c.get("dtarg", "np") not in ("none", "np", "nix", "default"):
            return False
        if c.get("how", "data") != "data" and c.get("dtarg", "np") == "none":
            return False
        compr = case.get("compr", "AAA")
        if not (isinstance(compr, str) and len(compr) == 3 and all(x in COMPR for x in compr)):
            return False
        steps = case.get("steps", [])
        if not isinstance(steps, list):
            return False
        for s in steps:
            if not isinstance(s, dict):
                return False
            op = s.get("op")
            if op not in ("write", "assign", "append", "resize", "read_direct", "read", "reopen"):
                return False
            if s.get("fill", "ramp") not in FILLS or not _is_int(s.get("seed", 0)) or s.get("seed", 0) < 0:
                return False
            if s.get("lay", "c") not in LAYS:
                return False
            if op == "write" and s.get("how", "wd") not in ("wd", "set", "ell"):
                return False
            if op in ("assign", "read") and not valid_expr(s.get("e")):
                return False
            if op == "assign" and s.get("v", "exact") not in ("exact", "scalar", "py"):
                return False
            if op == "append":
                if not (_is_int(s.get("axis", 0)) and 0 <= s.get("axis", 0) < len(shape)):
                    return False
                if not (_is_int(s.get("n", 1)) and 0 <= s.get("n", 1) <= 20000):
                    return False
            if op == "resize":
                ext = s.get("ext")
                if not (isinstance(ext, list) and len(ext) == len(shape) and
                        all(_is_int(x) and 0 <= x <= 40000 for x in ext)):
                    return False
        return True
    except Exception:
        return False
