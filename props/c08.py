# -*- coding: utf-8 -*-
"""
C08 - tagged data is exactly the samples whose coordinates lie in the tagged region (DESIGN 4/C08).

A case is a JSON recipe: a referenced array (shape + one descriptor per axis), a Tag or MultiTag
(positions, optional extents, optional units, stop rule, position index) and optionally a feature
array with a link type.  The recipe is built in a fresh block of the worker's scratch file, the
library is asked for ``tagged_data`` / ``feature_data`` and the answer is compared with an oracle
that works on the recipe alone: exact rational arithmetic (``fractions.Fraction``) on the very
floats handed to the library, an own metric prefix table, and NumPy fancy indexing of the model
array.  No nixio code is used by the oracle.
"""
import itertools
import math
import os
from fractions import Fraction as Fr

import numpy as np
from hypothesis import strategies as st

from vlib import gen
from vlib.ref import units_ref

ID = "C08"
LEVEL = "exploration"
RULE = ("Hypothesis-generated recipes: referenced array of rank 1-3, extents 1-6, distinct integer data; per "
        "axis sampled(interval, offset, unit) / range(ascending ticks incl. repeated values, unit; as many, fewer or more "
        "ticks than stored samples) / set(no labels or n labels); Tag with position of length 1..rank, extent "
        "none or same length (zeros allowed), units none or one per position entry (equal to, or any other of "
        "the 21 metric prefixes of, the axis unit; '' for set axes; rarely a unit of another quantity), both "
        "stop rules; MultiTag with 1-4 positions (1-D or n x k position arrays), extents of the same shape or "
        "none, position index incl. n (out of range); feature array with link type tagged / indexed / "
        "untagged. Positions on, between, before and after the samples, regions ending on/between samples and "
        "past the stored data. 55% of the recipes are built from dyadic numbers and unit factors >= 1 that are "
        "exact in binary64, 45% from decimals / arbitrary prefix pairs incl. factors < 1; the oracle itself "
        "decides per recipe whether it is decided exactly (classes 'exact' ~3/4, 'tolerant' ~1/4: a sample "
        "within the stated tolerance of a region boundary may be in or out). Oracle: Fraction arithmetic with an own prefix table gives per axis the "
        "index set of the samples the descriptor defines inside [s, s+e] ([s, s+e) for extent > 0 and the "
        "exclusive rule, {s} for no/zero extent); some set empty or reaching past the stored extent => "
        "IndexError/OutOfBounds or an invalid view with empty [:], else a valid view equal to "
        "ref[np.ix_(...)]; feature data by link type; unconvertible units => IncompatibleDimensions. "
        "Non-trivial: some addressed axis selects a proper non-empty sub-range, or a unit factor != 1, or an "
        "extent is given; distinct by recipe hash.")
ASSUMPTIONS = [
    "tag units are empty or one per position entry; when a tag has units every sampled/range axis it addresses "
    "has a unit and set axes get '' (docs: 'a unit for each dimension'; the library refuses anything else)",
    "extents are >= 0; sampling intervals > 0; ticks non-descending (what the setter accepts; repeated values included); feature arrays linked as 'tagged' have "
    "at least as many axes as the position has entries",
    "a set axis without labels and a sampled axis define unboundedly many samples 0,1,2,...; a range axis defines "
    "its ticks, a labelled set axis its labels (they may be fewer or more than the stored samples)",
    "a recipe is decided exactly only if every product/sum/difference of the region arithmetic is representable "
    "in binary64, the unit factor is the same float under every evaluation order (f_a/f_b, f_a*(1/f_b), "
    "10.0**(a-b)) and every boundary is on a sample or >= 1/100 sample spacing away from one; otherwise a sample "
    "whose coordinate is within 1e-9*(|x|+|s|+|e|) + 1e-7*spacing of a region boundary may be included or excluded",
    "an empty region or a region past the stored data may be reported as IndexError/OutOfBounds or as an invalid "
    "view whose [:] is empty; both are accepted at every call site",
    "(Tag, indexed feature) is only required to return data of the feature array; (MultiTag, untagged feature) "
    "with an out-of-range position index may return the whole array or raise IndexError",
]

PREFIX_EXP = units_ref.PREFIX_EXP
PREFIXES = list(units_ref.PREFIXES)
BASES = ["s", "V", "Hz", "A", "m", "g", "mol", "Pa", "Sv", "N", "K", "Wb"]

FRACS = [0.125, 0.25, 0.5, 0.75, 0.875]
DY_DT = [0.125, 0.25, 0.5, 1.0, 1.0, 2.0, 3.0, 10.0, 0.375]
DY_OFF = [None, None, 0.0, 0.125, -0.5, 1.0, -3.0, 10.5, 2.0, -0.25]
DEC_DT = [0.1, 0.3, 1e-3, 2.5e-5, 0.7, 1.0]
DEC_DT_MODERATE = [0.1, 0.3, 0.7, 1.0]
DEC_OFF = [None, 0.05, -0.7, 2.0, 0.0, 0.1, 1.3]
DY_T0 = [0.0, 0.0, 1.0, -2.0, 0.125, 10.5, -0.5]
DY_GAP = [0.125, 0.25, 0.5, 1.0, 1.0, 1.5, 2.0, 4.25, 0.0]      # 0.0: a repeated tick (the setter accepts non-descending ticks)
DEC_T0 = [0.0, 0.1, -0.7, 7.125, 1.3]
DEC_GAP = [0.1, 0.3, 0.25, 1.7, 1.0, 0.05, 0.0]
LINKS = ["tagged", "indexed", "untagged"]
SHRINK_HINTS = {"keep_keys": ["t", "unit", "link", "kind", "rule"]}


# ====================================================================== exact helpers

def fr(x):
    """exact value of the float that is handed to the library"""
    return Fr(float(x))


def representable(q):
    try:
        return Fr(float(q)) == q
    except OverflowError:
        return False


def _f10(e):
    return float(Fr(10) ** e)


def robust_exact(pt, pa):
    """the factor 10**(e_t - e_a) is >= 1 and comes out as the same, exact float however it is evaluated"""
    et, ea = PREFIX_EXP[pt], PREFIX_EXP[pa]
    if et == ea:
        return True
    if et < ea or et - ea > 15:
        return False
    F = Fr(10) ** (et - ea)
    ft, fa = _f10(et), _f10(ea)
    cands = [ft / fa, ft * (1.0 / fa), 10.0 ** (et - ea), float(10 ** (et - ea))]
    return all(Fr(c) == F for c in cands)


def unit_factor(tag_unit, axis_unit):
    """exact factor tag unit -> axis unit, None if not convertible"""
    if not tag_unit or not axis_unit:
        return None
    a = units_ref.parse(tag_unit)
    b = units_ref.parse(axis_unit)
    if a is None or b is None or a[1] != b[1] or a[2] != b[2]:
        return None
    return units_ref.factor(a[0], b[0], a[2])


def ref_data(shape, salt=0):
    n = int(np.prod(shape))
    vals = (np.arange(n, dtype=np.int64) * 37 + 11 + salt * 101) % 1009
    return (vals + salt * 2000).reshape(tuple(shape))


class OracleLimit(Exception):
    pass


# ====================================================================== oracle

def axis_region(ax, n, p, e, tunit, rule):
    """
    ax: axis recipe, n: stored extent, p / e: float position / extent (e may be None) in tag units,
    tunit: None when the tag has no units, else the unit string for this entry.
    -> {"incompat": True} or {"cands": set of None|(lo,hi), "exact", "factor", "place", "point"}
    """
    kind = ax["t"]
    F = Fr(1)
    fexact = True
    if kind != "set" and tunit is not None:
        F = unit_factor(tunit, ax.get("unit"))
        if F is None:
            return {"incompat": True}
        fexact = robust_exact(units_ref.parse(tunit)[0], units_ref.parse(ax["unit"])[0])
    if kind == "set" and tunit:
        return {"incompat": True}
    s = fr(p) * F
    point = e is None or float(e) == 0.0
    if point:
        E = Fr(0)
        lo = hi = s
        closed = True
    else:
        E = fr(e) * F
        lo, hi = s, s + E
        closed = (rule == "incl")
    # exactness is decided per boundary: the start index only depends on the scaled position, the end
    # index on position, extent and their sum
    exact_lo = fexact and representable(s)
    exact = exact_lo and representable(E) and representable(hi)

    def margin(q):
        return abs(q) <= 10 ** 6 and (q.denominator == 1 or abs(q - round(q)) >= Fr(1, 100))

    if kind == "range":
        ticks = [fr(t) for t in ax["ticks"]]
        idx = range(len(ticks))
        coord = ticks.__getitem__
        spacing = Fr(0)
        nmax = len(ticks)
    else:
        if kind == "sampled":
            dt = fr(ax["dt"])
            off = fr(ax["off"]) if ax.get("off") is not None else Fr(0)
            nmax = None
        else:
            dt, off = Fr(1), Fr(0)
            nmax = ax.get("labels") or None
        exact_lo = exact_lo and representable(lo - off) and margin((lo - off) / dt)
        exact = exact and exact_lo and representable(hi - off) and margin((hi - off) / dt)
        i0 = max(0, math.floor((lo - off) / dt) - 1)
        i1 = math.floor((hi - off) / dt) + 1
        if nmax is not None:
            i1 = min(i1, nmax - 1)
        if i1 - i0 > 4096:
            raise OracleLimit("region spans %d samples" % (i1 - i0))
        idx = range(i0, i1 + 1)
        spacing = dt

        def coord(i):
            return off + i * dt

    # a start position that is bit-identical to the coordinate the descriptor itself reports for sample i
    # (position_at(i) = i * interval + offset in binary64, no unit conversion) IS the position of that
    # sample: it is in the region at the lower boundary although the quotient is not exact ("pinned")
    pinned = None
    if kind == "sampled" and F == 1 and not exact_lo:
        dtf = float(ax["dt"])
        offf = float(ax["off"]) if ax.get("off") else 0
        pinned = lambda i: float(p) == i * dtf + offf  # noqa: E731
    ins, amb = [], []
    on = False
    pins = 0
    for i in idx:
        x = coord(i)
        tol0 = Fr(1, 10 ** 9) * (abs(x) + abs(s) + abs(E)) + spacing * Fr(1, 10 ** 7)
        tol_lo = Fr(0) if exact_lo else tol0
        tol_hi = Fr(0) if exact else tol0
        if abs(x - s) <= tol_lo:
            on = True
        inside = lo <= x and (x <= hi if closed else x < hi)
        near_lo = not exact_lo and abs(x - lo) <= tol_lo
        near_hi = not exact and abs(x - hi) <= tol_hi
        if near_lo and pinned is not None and pinned(i) and (point or not near_hi):
            ins.append(i)
            pins += 1
        elif near_lo or near_hi:
            amb.append(i)
        elif inside:
            ins.append(i)
    cands = set()
    for r in range(len(amb) + 1):
        for sub in itertools.combinations(amb, r):
            sel = sorted(ins + list(sub))
            if not sel:
                cands.add(None)
            elif sel[-1] - sel[0] + 1 == len(sel):
                cands.add((sel[0], sel[-1]))
    # where the start lies (class counting only)
    last_def = n - 1 if nmax is None else min(n, nmax) - 1
    if on:
        place = "on"
    elif s < coord(0):
        place = "before"
    elif last_def < 0 or s > coord(last_def):
        place = "after"
    else:
        place = "between"
    return {"cands": cands, "exact": exact, "factor": F, "place": place, "point": point,
            "zero": e is not None and float(e) == 0.0, "pinned": pins, "undecided": len(amb)}


def expected(shape, axes, pos, ext, units, rule):
    """-> dict(incompat) | dict(accept=set of index-range tuples, invalid_ok, exact, info)"""
    k = len(pos)
    per = []
    for d, n in enumerate(shape):
        if d < k:
            r = axis_region(axes[d], n, pos[d], None if ext is None else ext[d],
                            None if units is None else units[d], rule)
            if r.get("incompat"):
                return {"incompat": True, "axis": d}
            per.append(r)
        else:
            per.append({"cands": {(0, n - 1)}, "exact": True, "factor": Fr(1), "place": "whole", "whole": True})
    accept = set()
    invalid_ok = False
    why = set()
    for combo in itertools.product(*[sorted(r["cands"], key=lambda c: (c is not None, c)) for r in per]):
        if any(c is None for c in combo):
            invalid_ok = True
            why.add("empty")
        elif any(c[1] >= n for c, n in zip(combo, shape)):
            invalid_ok = True
            why.add("oob")
        else:
            accept.add(combo)
    return {"accept": accept, "invalid_ok": invalid_ok, "why": sorted(why), "per": per,
            "exact": all(r["exact"] for r in per)}


def take(arr, combo):
    return arr[np.ix_(*[np.arange(lo, hi + 1) for lo, hi in combo])]


# ====================================================================== the library side

def _nix():
    import nixio
    return nixio


class Bench:
    """one scratch file per worker, a fresh block per case, a fresh file every RENEW cases"""
    RENEW = 150

    def __init__(self, ctx):
        self.dir = ctx.workdir
        self.nfile = 0
        self.ncase = 0
        self.f = None
        self._open()

    def _open(self):
        nixio = _nix()
        self.close()
        self.nfile += 1
        self.path = os.path.join(self.dir, "c08-%d.nix" % self.nfile)
        self.f = nixio.File.open(self.path, nixio.FileMode.Overwrite)
        self.ncase = 0

    def block(self):
        if self.ncase >= self.RENEW:
            self._open()
        self.ncase += 1
        return self.f.create_block("c%d" % self.ncase, "c08")

    def close(self):
        if self.f is not None:
            try:
                self.f.close()
            finally:
                self.f = None
                try:
                    os.remove(self.path)
                except OSError:
                    pass


def build_array(blk, name, spec, salt):
    data = ref_data(spec["shape"], salt)
    da = blk.create_data_array(name, "c08", data=data)
    for ax in spec["axes"]:
        if ax["t"] == "sampled":
            kw = {}
            if ax.get("unit") is not None:
                kw["unit"] = ax["unit"]
            if ax.get("off") is not None:
                kw["offset"] = float(ax["off"])
            da.append_sampled_dimension(float(ax["dt"]), **kw)
        elif ax["t"] == "range":
            kw = {}
            if ax.get("unit") is not None:
                kw["unit"] = ax["unit"]
            da.append_range_dimension([float(t) for t in ax["ticks"]], **kw)
        else:
            nl = ax.get("labels")
            if nl:
                da.append_set_dimension(["l%d" % i for i in range(nl)])
            else:
                da.append_set_dimension()
    return da, data


def _fits(arr, dt):
    info = np.iinfo(np.dtype(dt))
    return bool(np.all(arr == np.round(arr)) and np.all(arr >= info.min) and np.all(arr <= info.max))


def build(case, blk):
    nixio = _nix()
    ref, refdata = build_array(blk, "ref", case["ref"], 0)
    pos = [[float(x) for x in row] for row in case["pos"]]
    ext = None if case.get("ext") is None else [[float(x) for x in row] for row in case["ext"]]
    if case["kind"] == "tag":
        tag = blk.create_tag("tag", "c08", pos[0])
        if ext is not None:
            tag.extent = ext[0]
    else:
        parr = np.array(pos, dtype=float)
        earr = None if ext is None else np.array(ext, dtype=float)
        if case.get("pos1d"):
            parr = parr[:, 0]
            earr = None if earr is None else earr[:, 0]
        pcal = case.get("pcal")
        pdt = case.get("pdt")
        if pdt and not pcal and _fits(parr, pdt) and (earr is None or _fits(earr, pdt)):
            # positions / extents kept in a narrow integer type (sample or channel numbers): the region is defined by
            # the numbers, whatever the width they are stored in (start + extent may exceed that width)
            parr = parr.astype(pdt)
            earr = None if earr is None else earr.astype(pdt)
            case["_pdt_used"] = True
        if pcal:
            # positions / extents kept in calibrated arrays (e.g. clock counts with a conversion): the region is
            # defined by what the arrays READ (raw * 2, exact in binary64), not by the stored raw numbers
            pa = blk.create_data_array("tag-pos", "c08.positions", data=parr / 2.0 if pcal in ("pos", "both") else parr)
            if pcal in ("pos", "both"):
                pa.polynom_coefficients = (0.0, 2.0)
            ea = None
            if earr is not None:
                ea = blk.create_data_array("tag-ext", "c08.extents", data=earr / 2.0 if pcal in ("ext", "both") else earr)
                if pcal in ("ext", "both"):
                    ea.polynom_coefficients = (0.0, 2.0)
            tag = blk.create_multi_tag("tag", "c08", pa, ea)
        else:
            tag = blk.create_multi_tag("tag", "c08", parr, earr)
    if case.get("units") is not None:
        tag.units = list(case["units"])
    sel = case.get("sel") or {}
    # a second referenced array / feature ("decoy": same descriptors, other values) before or after the one that is
    # asked for, and the reference / feature addressed by position, name or id: the data must come from the array
    # that was ASKED FOR
    rdecoy = sel.get("rdecoy", "none")
    if rdecoy == "before":
        tag.references.append(build_array(blk, "decoy", case["ref"], 2)[0])
    tag.references.append(ref)
    if rdecoy == "after":
        tag.references.append(build_array(blk, "decoy", case["ref"], 2)[0])
    rby = sel.get("rby", "index")
    refsel = {"index": 1 if rdecoy == "before" else 0, "neg": -2 if rdecoy == "after" else -1,
              "name": "ref", "id": ref.id}[rby]
    feat = featdata = None
    featsel = 0
    if case.get("feat"):
        lt = {"tagged": nixio.LinkType.Tagged, "indexed": nixio.LinkType.Indexed, "untagged": nixio.LinkType.Untagged}
        feat, featdata = build_array(blk, "feat", case["feat"], 1)
        fdecoy = sel.get("fdecoy", "none")
        dlink = lt[LINKS[(LINKS.index(case["feat"]["link"]) + 1) % len(LINKS)]]
        if fdecoy == "before":
            tag.create_feature(build_array(blk, "fdecoy", case["feat"], 3)[0], dlink)
        fobj = tag.create_feature(feat, lt[case["feat"]["link"]])
        if fdecoy == "after":
            tag.create_feature(build_array(blk, "fdecoy", case["feat"], 3)[0], dlink)
        featsel = {"index": 1 if fdecoy == "before" else 0, "neg": -2 if fdecoy == "after" else -1,
                   "fid": fobj.id, "dname": "feat", "did": feat.id}[sel.get("fby", "index")]
    return tag, refdata, featdata, refsel, featsel


def observe(fn, *args):
    """-> ("raised", kind, text) | ("view", valid, ndarray) | ("view-error", valid, text)"""
    nixio = _nix()
    try:
        view = fn(*args)
    except nixio.exceptions.IncompatibleDimensions as exc:
        return ("raised", "incompat", type(exc).__name__)
    except IndexError as exc:
        return ("raised", "index", type(exc).__name__)
    except Exception as exc:  # noqa
        return ("raised", "other", "%s: %s" % (type(exc).__name__, str(exc)[:120]))
    try:
        valid = view.valid
        data = np.asarray(view[:])
    except Exception as exc:  # noqa
        return ("view-error", None, "%s: %s" % (type(exc).__name__, str(exc)[:120]))
    return ("view", bool(valid), data)


def same_observation(a, b):
    if a[0] != b[0]:
        return False
    if a[0] == "view":
        return a[1] == b[1] and a[2].shape == b[2].shape and a[2].dtype == b[2].dtype and bool(np.array_equal(a[2], b[2]))
    return a[1] == b[1]


def show_obs(o):
    if o[0] == "view":
        return {"valid": o[1], "shape": list(o[2].shape), "data": o[2].ravel()[:40].tolist()}
    return {"status": o[0], "what": o[2]}


def _ranges(exp):
    return sorted([list(c) for c in combo] for combo in exp["accept"])[:4]


def observed_ranges(arr, got):
    """per-axis index range of a returned block inside the model array (data are distinct), or None"""
    if got.ndim != arr.ndim or got.size == 0:
        return None
    mask = np.isin(arr, got)
    if int(mask.sum()) != got.size:
        return None
    idx = np.argwhere(mask)
    lo, hi = idx.min(0), idx.max(0)
    if tuple(int(x) for x in hi - lo + 1) != got.shape:
        return None
    return [(int(a), int(b)) for a, b in zip(lo, hi)]


def blame(exp, obs, arr):
    """index of the axis whose selection is wrong, if it can be told (finding-key class only)"""
    per = exp.get("per")
    if not per:
        return None
    addressed = [d for d, r in enumerate(per) if not r.get("whole")]
    if obs[0] == "view" and obs[1]:
        rng = observed_ranges(arr, obs[2])
        if rng is None:
            return None
        for d, r in enumerate(per):
            if rng[d] not in r["cands"]:
                return d
        for d, r in enumerate(per):
            if all(c is None or c[1] >= arr.shape[d] for c in r["cands"]):
                return d
        return None
    return addressed[0] if len(addressed) == 1 else None


def axis_class(exp, d, axes, rule):
    if d is None or not exp.get("per"):
        return "several-axes"
    r = exp["per"][d]
    if r.get("whole"):
        return "unaddressed-axis"
    e = "zero-extent" if r["zero"] else ("no-extent" if r["point"] else "extent-" + rule)
    return "%s/%s" % (axes[d]["t"], e)


def judge(exp, obs, arr):
    """-> None or (sub-check, detail)"""
    if obs[0] == "view":
        shown = {"valid": obs[1], "shape": list(obs[2].shape), "data": obs[2].ravel()[:40].tolist()}
    else:
        shown = {"status": obs[0], "what": obs[2]}
    if exp.get("incompat"):
        if obs[0] == "raised" and obs[1] == "incompat":
            return None
        return "unconvertible-units-not-refused", {"expected": "IncompatibleDimensions", "observed": shown}
    want = {"ranges": _ranges(exp), "invalid_ok": exp["invalid_ok"], "why": exp.get("why")}
    if obs[0] == "raised" and obs[1] == "incompat":
        return "convertible-units-refused", {"expected": want, "observed": shown}
    if obs[0] == "view-error" or (obs[0] == "raised" and obs[1] == "other"):
        return "unexpected-exception", {"expected": want, "observed": shown}
    if obs[0] == "view" and not obs[1] and obs[2].size:
        return "invalid-view-with-data", {"expected": want, "observed": shown}
    if obs[0] == "raised" or not obs[1]:
        if exp["invalid_ok"]:
            return None
        return "selection", {"symptom": "valid-region-refused", "expected": want, "observed": shown}
    got = obs[2]
    for combo in exp["accept"]:
        w = take(arr, combo)
        if w.shape == got.shape and np.array_equal(w, got):
            return None
    if not exp["accept"]:
        return "selection", {"symptom": "data-for-empty-or-oob-region", "expected": want, "observed": shown}
    return "selection", {"symptom": "wrong-samples", "expected": want, "observed": shown,
                         "expected_data": take(arr, sorted(exp["accept"])[0]).ravel()[:40].tolist()}


# ====================================================================== one case

def unit_class(case, exp):
    if case.get("units") is None:
        return "no-units"
    if exp.get("incompat"):
        return "unconvertible"
    if any(r.get("factor", 1) != 1 for r in exp.get("per", [])):
        return "scaled-units"
    return "same-units"


def ext_class(case, row):
    if case.get("ext") is None or row is None:
        return "point"
    e = case["ext"][row]
    if all(float(x) == 0.0 for x in e):
        return "zero-extent"
    return "extent-" + case["rule"]


def run_case(case, ctx, bench):
    kind = case["kind"]
    mt = kind == "mtag"
    n = len(case["pos"])
    posidx = int(case.get("posidx", 0)) if mt else 0
    oor = mt and posidx >= n
    row = None if oor else posidx
    rshape = case["ref"]["shape"]
    rule = case["rule"]
    units = case.get("units")
    k = len(case["pos"][0])

    def exp_for(spec):
        if oor:
            return {"accept": set(), "invalid_ok": True, "why": ["posidx"], "per": [], "exact": True}
        return expected(spec["shape"], spec["axes"], case["pos"][row],
                        None if case.get("ext") is None else case["ext"][row], units, rule)

    exp = exp_for(case["ref"])

    def key_class(exp_, obs_, arr_, spec):
        if oor:
            return "posidx-out-of-range"
        if exp_.get("incompat"):
            return spec["axes"][exp_["axis"]]["t"]
        return axis_class(exp_, blame(exp_, obs_, arr_), spec["axes"], rule)

    from nixio.dimensions import SliceMode
    smode = SliceMode.Exclusive if rule == "excl" else SliceMode.Inclusive
    blk = bench.block()
    tag, refdata, featdata, refsel, featsel = build(case, blk)
    sel = case.get("sel") or {}

    ucls = unit_class(case, exp)
    ecls = ext_class(case, row)
    site = "%s.tagged_data" % kind
    if mt:
        obs = observe(tag.tagged_data, posidx, refsel, smode)
    else:
        obs = observe(tag.tagged_data, refsel, smode)
    bad = judge(exp, obs, refdata)
    if bad:
        ctx.violation("C08/%s/%s/%s" % (site, bad[0], key_class(exp, obs, refdata, case["ref"])),
                      case, dict(bad[1], call=site, reference_addressed_by=sel.get("rby", "index"),
                                 other_reference=sel.get("rdecoy", "none")))
    # the deprecated spellings are the same questions (default stop rule)
    if sel.get("dep") and rule == "excl" and hasattr(tag, "retrieve_data"):
        import warnings
        with warnings.catch_warnings():
            warnings.simplefilter("ignore")
            obs_d = observe(tag.retrieve_data, posidx, refsel) if mt else observe(tag.retrieve_data, refsel)
        if not same_observation(obs, obs_d):
            ctx.violation("C08/%s.retrieve_data/differs-from-tagged_data" % kind, case,
                          {"tagged_data": show_obs(obs), "retrieve_data": show_obs(obs_d)})

    # ---- the same tag object is asked again after the unit of an addressed axis changed (through another
    # handle): the region follows the descriptors as they are NOW (no conversion factor may be remembered)
    requeried = False
    if case.get("requery") and units is not None and not oor and not exp.get("incompat"):
        import copy
        for d in range(min(k, len(rshape))):
            ax = case["ref"]["axes"][d]
            if ax["t"] == "set" or not ax.get("unit") or not units[d]:
                continue
            parsed = units_ref.parse(ax["unit"])
            if parsed is None or parsed[2] not in ("", "1", 1, None):
                continue
            cands = [pfx for pfx in ("", "m", "k", "u") if pfx != parsed[0]]
            newunit = cands[(d + len(case["pos"])) % len(cands)] + parsed[1]
            spec2 = copy.deepcopy(case["ref"])
            spec2["axes"][d]["unit"] = newunit
            try:
                exp2 = expected(spec2["shape"], spec2["axes"], case["pos"][row],
                                None if case.get("ext") is None else case["ext"][row], units, rule)
            except OracleLimit:
                break
            try:
                tag.references["ref"].dimensions[d].unit = newunit
            except Exception:  # noqa
                break
            obs2 = observe(tag.tagged_data, posidx, refsel, smode) if mt else observe(tag.tagged_data, refsel, smode)
            bad2 = judge(exp2, obs2, refdata)
            if bad2:
                ctx.violation("C08/%s-after-axis-unit-change/%s/%s" % (site, bad2[0], key_class(exp2, obs2, refdata, spec2)),
                              case, dict(bad2[1], call=site, axis=d, new_axis_unit=newunit))
            requeried = True
            break

    # ---- classes
    classes = [kind, "rank%d" % len(rshape), "k%s" % ("=rank" if k == len(rshape) else "<rank"),
               "units:" + ucls, "ext:" + ecls, "rule:" + rule, "exact" if exp.get("exact", True) else "tolerant"]
    if exp.get("incompat"):
        out = "incompatible"
    elif oor:
        out = "posidx-out-of-range"
    elif exp["accept"] and exp["invalid_ok"]:
        out = "data-or-invalid(tolerance)"
    elif len(exp["accept"]) > 1:
        out = "data(tolerance)"
    elif exp["accept"]:
        out = "data"
    else:
        out = "/".join(exp["why"])
    classes.append("outcome:" + out)
    if requeried:
        classes.append("asked-again-after-axis-unit-change")
    classes.append("reference-addressed-by:%s/other-reference-%s" % (sel.get("rby", "index"), sel.get("rdecoy", "none")))
    if sel.get("dep") and rule == "excl":
        classes.append("deprecated-spellings-compared")
    nt = case.get("ext") is not None
    for d, r in enumerate(exp.get("per", [])):
        if r.get("whole"):
            continue
        akind = case["ref"]["axes"][d]["t"]
        classes.append("axis:" + akind)
        classes.append("start:%s/%s" % (akind, r["place"]))
        if r.get("pinned"):
            classes.append("start-pinned-to-reported-coordinate")
        if not r.get("exact", True) and not r.get("undecided"):
            classes.append("tolerant-recipe-but-decided")
        if r.get("zero"):
            classes.append("axis-extent:zero")
        if r["factor"] != 1:
            nt = True
            classes.append("factor:" + ("up" if r["factor"] > 1 else "down"))
        for c in r["cands"]:
            if c is not None and c[1] < rshape[d] and c[1] - c[0] + 1 < rshape[d]:
                nt = True
    if mt:
        classes.append("mtag:n=%d" % n)
        classes.append("mtag:positions-%s" % ("1d" if case.get("pos1d") else "2d"))
        if case.get("pcal"):
            classes.append("mtag:calibrated-positions/extents:" + case["pcal"])
        if case.get("pos1d") and len(rshape) > 1:
            classes.append("mtag:positions-1d-on-rank>1")
        if case.pop("_pdt_used", False):
            classes.append("mtag:positions-stored-as:" + case["pdt"])
            if case.get("ext") is not None and not oor:
                info = np.iinfo(np.dtype(case["pdt"]))
                if any(p_ + e_ > info.max for p_, e_ in zip(case["pos"][row], case["ext"][row])):
                    classes.append("mtag:position+extent-exceeds-the-stored-integer-type")

    # ---- feature data
    fspec = case.get("feat")
    if fspec:
        link = fspec["link"]
        fsite = "%s.feature_data/%s" % (kind, link)
        classes.append("feature:%s/%s" % (kind, link))
        if mt:
            fobs = observe(tag.feature_data, posidx, featsel, smode)
        else:
            fobs = observe(tag.feature_data, featsel, smode)
        if sel.get("dep") and rule == "excl":
            import warnings
            with warnings.catch_warnings():
                warnings.simplefilter("ignore")
                fobs_d = (observe(tag.retrieve_feature_data, posidx, featsel) if mt
                          else observe(tag.retrieve_feature_data, featsel))
            if not same_observation(fobs, fobs_d):
                ctx.violation("C08/%s.retrieve_feature_data/differs-from-feature_data" % kind, case,
                              {"feature_data": show_obs(fobs), "retrieve_feature_data": show_obs(fobs_d)})
        classes.append("feature-addressed-by:%s/other-feature-%s" % (sel.get("fby", "index"), sel.get("fdecoy", "none")))
        fshape = fspec["shape"]
        whole = tuple((0, m - 1) for m in fshape)
        fbad = None
        if link == "tagged":
            fexp = exp_for(fspec)
            fbad = judge(fexp, fobs, featdata)
            fcls = key_class(fexp, fobs, featdata, fspec)
            if not fexp.get("incompat"):
                classes.append("feature-outcome:" + ("data" if fexp["accept"] else "invalid"))
        elif link == "untagged":
            fexp = {"accept": {whole}, "invalid_ok": bool(oor), "why": []}
            fbad = judge(fexp, fobs, featdata)
            fcls = "posidx-out-of-range" if oor else "any"
        elif mt:
            if posidx < fshape[0]:
                fexp = {"accept": {((posidx, posidx),) + whole[1:]}, "invalid_ok": False, "why": []}
            else:
                fexp = {"accept": set(), "invalid_ok": True, "why": ["oob"]}
            fbad = judge(fexp, fobs, featdata)
            fcls = "index-in-feature" if posidx < fshape[0] else "index-past-feature"
            classes.append("feature-index:" + fcls)
        else:
            # (Tag, indexed): documented as "full data"; only required to be data of the feature array
            fcls = "any"
            ok = (fobs[0] == "view" and fobs[1] and fobs[2].size > 0 and
                  bool(np.isin(fobs[2], featdata).all()))
            if not ok:
                shown = ({"valid": fobs[1], "data": fobs[2].ravel()[:40].tolist()} if fobs[0] == "view"
                         else {"status": fobs[0], "what": fobs[2]})
                fbad = ("not-data-of-the-feature-array", {"observed": shown})
        if fbad:
            ctx.violation("C08/%s/%s/%s" % (fsite, fbad[0], fcls), case,
                          dict(fbad[1], call=fsite, feature_addressed_by=sel.get("fby", "index"),
                               other_feature=sel.get("fdecoy", "none")))

    ctx.case(case, nt, classes)


# ====================================================================== input domain

def _num(x):
    return isinstance(x, (int, float)) and not isinstance(x, bool) and math.isfinite(x)


def _valid_array(spec):
    shape, axes = spec["shape"], spec["axes"]
    if not (1 <= len(shape) <= 3) or len(axes) != len(shape):
        return False
    if not all(isinstance(n, int) and not isinstance(n, bool) and 1 <= n <= 6 for n in shape):
        return False
    for ax in axes:
        t = ax["t"]
        if t == "sampled":
            if not _num(ax["dt"]) or ax["dt"] <= 0:
                return False
            if ax.get("off") is not None and not _num(ax["off"]):
                return False
        elif t == "range":
            tk = ax["ticks"]
            if not tk or not all(_num(x) for x in tk) or any(b < a for a, b in zip(tk, tk[1:])):
                return False
        elif t == "set":
            nl = ax.get("labels")
            if nl is not None and not (isinstance(nl, int) and not isinstance(nl, bool) and 0 <= nl <= 9):
                return False
        else:
            return False
        if t != "set" and ax.get("unit") is not None and units_ref.parse(ax["unit"]) is None:
            return False
    return True


def _units_fit(units, spec, k, allow_other_quantity):
    """tag units against the addressed axes of an array (the documented convention)"""
    for d in range(k):
        ax = spec["axes"][d]
        if ax["t"] == "set":
            if units[d] != "":
                return False
        else:
            if ax.get("unit") is None or units_ref.parse(units[d]) is None:
                return False
            if not allow_other_quantity and unit_factor(units[d], ax["unit"]) is None:
                return False
    return True


def valid(case):
    try:
        if case["kind"] not in ("tag", "mtag") or case["rule"] not in ("excl", "incl"):
            return False
        if not _valid_array(case["ref"]):
            return False
        rank = len(case["ref"]["shape"])
        pos, ext = case["pos"], case.get("ext")
        n = len(pos)
        k = len(pos[0])
        if not (1 <= k <= rank) or any(len(r) != k or not all(_num(x) for x in r) for r in pos):
            return False
        if ext is not None:
            if len(ext) != n or any(len(r) != k or not all(_num(x) and x >= 0 for x in r) for r in ext):
                return False
        if case["kind"] == "tag":
            if n != 1 or case.get("pos1d"):
                return False
        else:
            if not (1 <= n <= 4) or not (0 <= int(case["posidx"]) <= n):
                return False
            if case.get("pos1d") and k != 1:
                return False
        units = case.get("units")
        if units is not None:
            if len(units) != k or not all(isinstance(u, str) for u in units):
                return False
            if not _units_fit(units, case["ref"], k, True):
                return False
        f = case.get("feat")
        if f:
            if f["link"] not in LINKS or not _valid_array(f):
                return False
            if f["link"] == "tagged":
                if len(f["shape"]) < k:
                    return False
                if units is not None:
                    # same quantity as the referenced array's axis (else the recipe says nothing sensible)
                    for d in range(k):
                        ra, fa = case["ref"]["axes"][d], f["axes"][d]
                        if (ra["t"] == "set") != (fa["t"] == "set"):
                            return False
                        if ra["t"] != "set":
                            if fa.get("unit") is None or unit_factor(fa["unit"], ra["unit"]) is None:
                                return False
            if f["link"] == "indexed" and case["kind"] == "mtag" and f["shape"][0] > n:
                return False
        sel = case.get("sel")
        if sel is not None:
            if sel.get("rdecoy", "none") not in ("none", "before", "after") or \
                    sel.get("fdecoy", "none") not in ("none", "before", "after") or \
                    sel.get("rby", "index") not in ("index", "neg", "name", "id") or \
                    sel.get("fby", "index") not in ("index", "neg", "fid", "dname", "did"):
                return False
        # the oracle must be able to enumerate the region
        rows = range(n)
        for spec in [case["ref"]] + ([f] if f and f["link"] == "tagged" else []):
            for r in rows:
                expected(spec["shape"], spec["axes"], pos[r], None if ext is None else ext[r], units,
                         case["rule"])
        return True
    except Exception:  # noqa
        return False


# ====================================================================== generator

UNIT_OK = {(p, b): units_ref.parse(p + b) == (p, b, "") for p in PREFIXES for b in BASES}
EXACT_UP = [(pt, pa) for pt in PREFIXES for pa in PREFIXES
            if PREFIX_EXP[pt] > PREFIX_EXP[pa] and PREFIX_EXP[pt] - PREFIX_EXP[pa] <= 9 and robust_exact(pt, pa)]
ANY_UP = [(pt, pa) for pt in PREFIXES for pa in PREFIXES if PREFIX_EXP[pt] > PREFIX_EXP[pa]]
ANY_DOWN = [(pt, pa) for pt in PREFIXES for pa in PREFIXES if PREFIX_EXP[pt] < PREFIX_EXP[pa]]
COMMON = ["", "m", "u", "k", "n", "M", "c"]


def _scaled(x, mult):
    """float nearest to x*mult (one rounding); x itself when mult == 1"""
    if x is None:
        return None
    if mult == 1:
        return float(x)
    return float(Fr(float(x)) * mult)


def coord_at(g, u):
    """coordinate (float arithmetic, geometry space) of the real-valued index u"""
    if g["t"] == "sampled":
        return (g["off"] or 0.0) + u * g["dt"]
    if g["t"] == "set":
        return float(u)
    tk = g["ticks"]
    last = len(tk) - 1
    if u <= 0:
        gap = (tk[1] - tk[0] if last >= 1 else 1.0) or 1.0
        return tk[0] + u * gap
    if u >= last:
        gap = (tk[last] - tk[last - 1] if last >= 1 else 1.0) or 1.0
        return tk[last] + (u - last) * gap
    i = int(math.floor(u))
    return tk[i] + (u - i) * (tk[i + 1] - tk[i])


@st.composite
def geometry(draw, kind, n, dyadic, moderate=False):
    if kind == "sampled":
        dts = DY_DT if dyadic else (DEC_DT_MODERATE if moderate else DEC_DT)
        return {"t": "sampled", "dt": draw(st.sampled_from(dts)),
                "off": draw(st.sampled_from(DY_OFF if dyadic else DEC_OFF))}
    if kind == "range":
        nt = max(1, n + draw(st.sampled_from([0, 0, 0, 0, 0, 1, 2, -1, -2])))
        t = draw(st.sampled_from(DY_T0 if dyadic else DEC_T0))
        ticks = [t]
        for _ in range(nt - 1):
            t = t + draw(st.sampled_from(DY_GAP if dyadic else DEC_GAP))
            ticks.append(t)
        return {"t": "range", "ticks": ticks}
    nl = draw(st.sampled_from([None, None, None, n, n, n, n + 1, n + 2, max(1, n - 1), max(1, n - 2)]))
    return {"t": "set", "labels": nl}


@st.composite
def placement(draw, g, n, with_ext):
    """-> (position, extent or None) in geometry space"""
    if with_ext:
        cls = draw(st.sampled_from(["on"] * 9 + ["between"] * 7 + ["before", "after", "unstored"]))
    else:
        # without an extent only an on-sample position selects anything
        cls = draw(st.sampled_from(["on"] * 15 + ["between"] * 2 + ["before", "after", "unstored"]))
    if cls == "on":
        u = float(draw(st.integers(0, n - 1)))
    elif cls == "between":
        u = draw(st.integers(0, n - 1)) + draw(st.sampled_from(FRACS))
    elif cls == "before":
        u = -draw(st.sampled_from([0.125, 0.5, 1.0, 3.0]))
    elif cls == "after":
        u = n - 1 + draw(st.sampled_from([0.125, 0.5, 1.5, 4.0]))
    else:
        u = float(n + draw(st.integers(0, 2)))
    p = coord_at(g, u)
    if not with_ext:
        return p, None
    ecls = draw(st.sampled_from(["zero", "zero", "on", "on", "on", "on", "frac", "frac", "frac", "past", "tiny"]))
    room = max(0, n - 1 - int(math.ceil(u))) if u >= 0 else n - 1
    if ecls == "zero":
        return p, 0.0
    if ecls == "on":
        # the region ends exactly on a sample (where the two stop rules differ)
        ue = math.floor(u) + draw(st.integers(1, max(1, room)))
    elif ecls == "frac":
        ue = math.floor(u) + draw(st.integers(0, max(0, room))) + draw(st.sampled_from(FRACS))
        if ue <= u:
            ue = u + 0.125
    elif ecls == "tiny":
        ue = u + draw(st.sampled_from([0.125, 0.25]))
    else:
        ue = n - 1 + draw(st.sampled_from([0.5, 1.0, 2.0, 3.25]))
        if ue <= u:
            ue = u + 1.0
    e = coord_at(g, float(ue)) - p
    if not e > 0:
        e = 0.0
    return p, e


def _unit(prefix, base):
    return prefix + base


@st.composite
def recipes(draw):
    kind = draw(st.sampled_from(["tag", "mtag"]))
    rank = draw(st.sampled_from([1, 1, 2, 2, 2, 3]))
    shape = [draw(st.sampled_from([1, 2, 3, 3, 4, 4, 5, 6])) for _ in range(rank)]
    strict = draw(st.sampled_from([True] * 11 + [False] * 9))
    has_units = draw(st.sampled_from([True] * 6 + [False] * 4))
    k = rank if draw(st.booleans()) else draw(st.integers(1, rank))
    with_ext = draw(st.sampled_from([True] * 7 + [False] * 3))
    rule = draw(st.sampled_from(["excl", "incl"]))
    n = 1 if kind == "tag" else draw(st.integers(1, 4))
    kinds = [draw(st.sampled_from(["sampled", "sampled", "sampled", "range", "range", "range", "set", "set"]))
             for _ in range(rank)]

    fspec = None
    link = draw(st.sampled_from([None, None, "tagged", "tagged", "indexed", "untagged"]))
    if link:
        if link == "tagged":
            frank = draw(st.integers(k, 3))
            fshape = [shape[d] if d < rank and draw(st.integers(0, 7)) < 6
                      else draw(st.integers(1, 6)) for d in range(frank)]
        else:
            frank = draw(st.integers(1, 3))
            fshape = [draw(st.integers(1, 6)) for _ in range(frank)]
            if link == "indexed" and kind == "mtag":
                fshape[0] = n if draw(st.integers(0, 9)) < 8 else max(1, n - 1)

    # which addressed non-set axis (if any) gets a unit of another quantity
    nonset = [d for d in range(k) if kinds[d] != "set"]
    bad_axis = None
    if has_units and nonset and draw(st.sampled_from([True] + [False] * 24)):
        bad_axis = draw(st.sampled_from(nonset))

    axes, faxes, tag_units = [], [], []
    cols = []           # per addressed axis: list of n (position, extent)
    for d in range(rank):
        akind = kinds[d]
        dyadic = strict or draw(st.sampled_from([True] + [False] * 9))
        g = draw(geometry(akind, shape[d], dyadic))
        A = B = Fr(1)
        unit = None
        pt = pa = ""
        base = draw(st.sampled_from(BASES))
        if akind != "set":
            if has_units and d < k:
                if strict:
                    mode = draw(st.sampled_from(["same", "same", "up", "up", "up"]))
                else:
                    mode = draw(st.sampled_from(["same", "up", "up", "down", "down", "down", "down"]))
                if mode == "same":
                    pt = pa = draw(st.sampled_from(COMMON + PREFIXES))
                elif mode == "up":
                    pt, pa = draw(st.sampled_from(EXACT_UP if strict else ANY_UP))
                    B = Fr(10) ** (PREFIX_EXP[pt] - PREFIX_EXP[pa])
                else:
                    pt, pa = draw(st.sampled_from(ANY_DOWN))
                    A = Fr(10) ** (PREFIX_EXP[pa] - PREFIX_EXP[pt])
                if not (UNIT_OK[(pt, base)] and UNIT_OK[(pa, base)]):
                    base = "s"
                unit = _unit(pa, base)
            elif draw(st.integers(0, 9)) < 6:
                pa = draw(st.sampled_from(COMMON))
                unit = _unit(pa, base) if UNIT_OK[(pa, base)] else "s"
        # the referenced array's axis
        if akind == "sampled":
            ax = {"t": "sampled", "dt": _scaled(g["dt"], B), "off": _scaled(g["off"], B), "unit": unit}
        elif akind == "range":
            ax = {"t": "range", "ticks": [_scaled(t, B) for t in g["ticks"]], "unit": unit}
        else:
            ax = {"t": "set", "labels": g["labels"]}
        axes.append(ax)
        if d < k:
            col = []
            for _ in range(n):
                p, e = draw(placement(g, shape[d], with_ext))
                col.append((_scaled(p, A), _scaled(e, A)))
            cols.append(col)
            if has_units:
                if akind == "set":
                    tag_units.append("")
                elif d == bad_axis:
                    other = "V" if base != "V" else "s"
                    tag_units.append(_unit(pt if UNIT_OK[(pt, other)] else "", other))
                else:
                    tag_units.append(_unit(pt, base))
        # the feature array's axis
        if link and d < frank:
            if link == "tagged" and d < k:
                same_geo = draw(st.integers(0, 7)) < 6
                if has_units:
                    fkind = akind if akind == "set" else (akind if same_geo else
                                                          draw(st.sampled_from(["sampled", "range"])))
                else:
                    fkind = akind if same_geo else draw(st.sampled_from(["sampled", "range", "set"]))
                fg = g if (same_geo and fkind == akind) else draw(geometry(fkind, fshape[d], dyadic, True))
                funit = None
                mult = Fr(1)
                if fkind != "set":
                    if has_units:
                        if strict:
                            opts = [q for (p_, q) in EXACT_UP if p_ == pt] + [pt]
                        else:
                            opts = PREFIXES
                        pf = draw(st.sampled_from(opts))
                        if not UNIT_OK[(pf, base)]:
                            pf = pa
                        funit = _unit(pf, base)
                        mult = A * Fr(10) ** (PREFIX_EXP[pt] - PREFIX_EXP[pf])
                    elif draw(st.booleans()):
                        funit = "ms"
            else:
                fkind = draw(st.sampled_from(["sampled", "range", "set"]))
                fg = draw(geometry(fkind, fshape[d], True))
                funit = draw(st.sampled_from([None, "ms", "V"])) if fkind != "set" else None
                mult = Fr(1)
            if fkind == "sampled":
                faxes.append({"t": "sampled", "dt": _scaled(fg["dt"], mult), "off": _scaled(fg["off"], mult),
                              "unit": funit})
            elif fkind == "range":
                faxes.append({"t": "range", "ticks": [_scaled(t, mult) for t in fg["ticks"]], "unit": funit})
            else:
                faxes.append({"t": "set", "labels": fg["labels"]})
    if link:
        for d in range(rank, frank):
            fkind = draw(st.sampled_from(["sampled", "range", "set"]))
            fg = draw(geometry(fkind, fshape[d], True))
            if fkind == "sampled":
                faxes.append({"t": "sampled", "dt": fg["dt"], "off": fg["off"], "unit": None})
            elif fkind == "range":
                faxes.append({"t": "range", "ticks": fg["ticks"], "unit": None})
            else:
                faxes.append({"t": "set", "labels": fg["labels"]})
        fspec = {"link": link, "shape": fshape, "axes": faxes}

    pos = [[cols[d][r][0] for d in range(k)] for r in range(n)]
    ext = [[cols[d][r][1] for d in range(k)] for r in range(n)] if with_ext else None
    case = {"kind": kind, "ref": {"shape": shape, "axes": axes}, "pos": pos, "ext": ext,
            "units": tag_units if has_units else None, "rule": rule, "feat": fspec}
    if kind == "mtag":
        oor = draw(st.sampled_from([False] * 5 + [True]))
        case["posidx"] = n if oor else draw(st.integers(0, n - 1))
        if k == 1:
            case["pos1d"] = draw(st.sampled_from([True] * 7 + [False] * 3 if rank == 1 else [True] * 3 + [False] * 7))
        else:
            case["pos1d"] = False
        case["pcal"] = draw(st.sampled_from([None, None, None, None, "pos", "ext", "both"]))
        case["pdt"] = draw(st.sampled_from([None, "uint8", "int8", "int16", "uint16", "uint8", "int8"]))
    case["requery"] = draw(st.booleans())
    if draw(st.sampled_from([True, True, False])):
        case["sel"] = {"rdecoy": draw(st.sampled_from(["none", "before", "before", "after"])),
                       "rby": draw(st.sampled_from(["index", "neg", "name", "id"])),
                       "fdecoy": draw(st.sampled_from(["none", "before", "before", "after"])),
                       "fby": draw(st.sampled_from(["index", "neg", "fid", "dname", "did"])),
                       "dep": draw(st.booleans())}
    return case


@st.composite
def narrow_int_recipes(draw):
    """multi-tags whose positions / extents are kept in a narrow integer type, with position + extent beyond that
    type's range although each number fits (sample numbers as uint16, channel numbers as int8 ...)"""
    dt = draw(st.sampled_from(["int8", "uint8", "int16", "uint16"]))
    top = int(np.iinfo(np.dtype(dt)).max)
    n = draw(st.integers(3, 6))
    step = draw(st.sampled_from([1, 2, 5, 10] if top < 1000 else [1, 10, 100, 1000]))
    first = top - step * draw(st.integers(1, n - 2)) - draw(st.integers(0, step - 1))
    coords = [first + i * step for i in range(n)]
    if draw(st.booleans()):
        axis = {"t": "range", "ticks": [float(c) for c in coords], "unit": draw(st.sampled_from([None, "ms"]))}
    else:
        axis = {"t": "sampled", "dt": float(step), "off": float(first), "unit": draw(st.sampled_from([None, "ms"]))}
    rows = draw(st.integers(1, 3))
    pos, ext = [], []
    for _ in range(rows):
        i0 = draw(st.integers(0, n - 2))
        p_ = coords[i0] if coords[i0] <= top else coords[0]
        p_ = min(p_, top)
        e_ = min(top, draw(st.integers(1, (n - 1) * step)))
        pos.append([float(p_)])
        ext.append([float(e_)])
    units = None
    if axis["unit"] is not None and draw(st.booleans()):
        units = [axis["unit"]]
    return {"kind": "mtag", "ref": {"shape": [n], "axes": [axis]}, "pos": pos, "ext": ext, "units": units,
            "rule": draw(st.sampled_from(["excl", "incl"])), "feat": None, "posidx": draw(st.integers(0, rows - 1)),
            "pos1d": draw(st.booleans()), "pcal": None, "pdt": dt, "requery": False}


# ====================================================================== runner interface

def shards(tier, seed):
    nshard, per = (16, 450) if tier == "quick" else (32, 2000)
    return [{"n": per, "seed": seed * 1000 + i} for i in range(nshard)]


def run_shard(spec, ctx):
    bench = Bench(ctx)

    def one(case):
        if not valid(case):
            ctx.add("generated_outside_domain")
            return
        run_case(case, ctx, bench)

    try:
        gen.generate(gen.weighted([recipes()] * 15 + [narrow_int_recipes()]), spec["n"], spec["seed"], one)
    finally:
        bench.close()


def replay(case, ctx):
    bench = Bench(ctx)
    try:
        run_case(case, ctx, bench)
    finally:
        bench.close()
