# -*- coding: utf-8 -*-
"""C07 - dimension descriptors map positions to sample indices by order, exactly (DESIGN 4/C07)."""
import math
import os
from fractions import Fraction as Fr

import numpy as np
from hypothesis import strategies as st

from vlib import gen

ID = "C07"
LEVEL = "exploration"
RULE = ("Sampled dimensions: interval x offset x position offset+(k+f)*interval, k in [-4,40] u "
        "{1e3,1e4,1e5,1e6}, f in {0,+-1/8,+-1/4,1/2}, 3 index modes, intervals [a,b] x 2 slice modes; "
        "range dimensions: weakly ascending tick vectors of length 1-8 incl. repeated/single ticks, "
        "positions on/between/before/after; set dimensions with 0-6 labels or none. The dyadic grid "
        "(intervals k/8.., offsets, k<=40) is enumerated exhaustively, decimal intervals/offsets and "
        "large k are Hypothesis-sampled. Oracle: exact rational model of the sample coordinates "
        "(index_of = max/min over the defining set, IndexError iff empty; range_indices = (min,max) of "
        "the samples in the interval, None iff empty) plus round trips position_at/tick_at/axis. "
        "Non-trivial: offset != 0, or non-default mode, or position outside the sampled range, or "
        "repeated ticks; distinct by the full input tuple.")
ASSUMPTIONS = [
    "sampling intervals are > 0 (<= 0 is invalid per validator/docs); offsets take any sign",
    "positions are given symbolically as offset+(k+f)*interval; for decimal intervals an on-sample "
    "position (f=0) is the library's own position_at(k) (round-trip law), off-sample positions are "
    ">= 1/8 interval away from any sample, so floating-point rounding cannot change the answer",
    "for an interval with start > end both None and IndexError are accepted",
    "a set dimension without labels has unboundedly many samples 0,1,2,...",
]

MODES = ["leq", "less", "geq"]
FS = [Fr(0), Fr(1, 8), Fr(-1, 8), Fr(1, 4), Fr(-1, 4), Fr(1, 2)]
DY_DT = [0.125, 0.25, 0.5, 1.0, 2.0, 3.0, 10.0]
DY_OFF = [None, 0.0, 0.125, -0.125, 0.5, -0.5, 1.0, -1.0, 3.0, -3.0, 10.5, -10.5]
DEC_DT = [0.1, 0.3, 1e-3, 2.5e-5]
DEC_OFF = [None, 0.05, -0.7, 2.0]
BIGK = [1000, 10000, 100000, 1000000]


def _nix():
    import nixio
    return nixio


def mode_of(name):
    nixio = _nix()
    return {"leq": nixio.IndexMode.LessOrEqual, "less": nixio.IndexMode.Less,
            "geq": nixio.IndexMode.GreaterOrEqual}[name]


def smode_of(name):
    from nixio.dimensions import SliceMode
    return {"excl": SliceMode.Exclusive, "incl": SliceMode.Inclusive}[name]


# ------------------------------------------------------------------ reference model

def ref_index(s, mode, nmax=None):
    """s: exact scaled position (Fraction); samples at 0,1,2,..(< nmax if given). -> int or None"""
    if mode == "leq":
        i = math.floor(s)
    elif mode == "less":
        i = math.ceil(s) - 1
    else:
        i = max(0, math.ceil(s))
        if nmax is not None and i >= nmax:
            return None
        return i
    if i < 0:
        return None
    if nmax is not None:
        i = min(i, nmax - 1)
    return i


def ref_range(sa, sb, smode, nmax=None):
    lo = max(0, math.ceil(sa))
    hi = math.floor(sb) if smode == "incl" else math.ceil(sb) - 1
    if nmax is not None:
        hi = min(hi, nmax - 1)
    if lo > hi:
        return None
    return (lo, hi)


def ref_ticks_index(ticks, p, mode):
    if mode == "leq":
        c = [i for i, t in enumerate(ticks) if t <= p]
        return c[-1] if c else None
    if mode == "less":
        c = [i for i, t in enumerate(ticks) if t < p]
        return c[-1] if c else None
    c = [i for i, t in enumerate(ticks) if t >= p]
    return c[0] if c else None


def ref_ticks_range(ticks, a, b, smode):
    c = [i for i, t in enumerate(ticks) if a <= t and (t <= b if smode == "incl" else t < b)]
    return (c[0], c[-1]) if c else None


# ------------------------------------------------------------------ bench (one file per worker)

class Bench:
    def __init__(self, ctx):
        nixio = _nix()
        self.path = os.path.join(ctx.workdir, "c07.nix")
        self.f = nixio.File.open(self.path, nixio.FileMode.Overwrite)
        blk = self.f.create_block("b", "t")
        self.da_s = blk.create_data_array("s", "t", data=np.zeros(4))
        self.sdim = self.da_s.append_sampled_dimension(1.0)
        self.da_r = blk.create_data_array("r", "t", data=np.zeros(4))
        self.rdim = self.da_r.append_range_dimension([0.0])
        self.da_c = blk.create_data_array("c", "t", data=np.zeros(4))
        self.cdim = self.da_c.append_set_dimension()
        self.cur_s = self.cur_r = self.cur_c = None

    def sampled(self, dt, off):
        if self.cur_s != (dt, off):
            # written through a FRESH handle, queried through the long-lived one (which has answered queries for
            # the previous geometry): a descriptor handle must not remember interval, offset or ticks
            fresh = self.da_s.dimensions[0]
            fresh.sampling_interval = dt
            fresh.offset = off
            self.cur_s = (dt, off)
        return self.sdim

    def ranged(self, ticks):
        key = tuple(ticks)
        if self.cur_r != key:
            self.da_r.dimensions[0].ticks = list(ticks)
            self.cur_r = key
        return self.rdim

    def setdim(self, nlabels):
        if self.cur_c != nlabels:
            # labels can only be replaced, so a fresh descriptor set is made
            self.da_c.delete_dimensions()
            if nlabels is None:
                self.cdim = self.da_c.append_set_dimension()
            else:
                self.cdim = self.da_c.append_set_dimension(["l%d" % i for i in range(nlabels)])
            self.cur_c = nlabels
        return self.cdim

    def close(self):
        self.f.close()


def call(fn, *a, **kw):
    try:
        return ("ok", fn(*a, **kw))
    except IndexError:
        return ("IndexError", None)
    except Exception as exc:  # noqa
        return (type(exc).__name__, str(exc)[:100])


def fr(pair):
    return Fr(pair[0], pair[1])


def pos_float(dim_off, dt, k, f, dyadic, dim):
    off = dim_off or 0.0
    if not dyadic and f == 0 and k >= 0:
        return dim.position_at(k)
    return off + (k + float(f)) * dt


def icls(case):
    if case.get("k", 0) >= 10000 and fr(case["f"]) != 0:
        return "rel-tolerance-large-index"
    if case["dim"] == "sampled" and case.get("off"):
        return "offset!=0"
    return "plain"


def run_case(case, ctx, bench):
    kind = case["dim"]
    what = case["what"]
    nt = True
    classes = [kind + "." + what]
    if kind == "sampled":
        dt, off = case["dt"], case["off"]
        dim = bench.sampled(dt, off)
        dy = case.get("dy", True)
        if what == "index_of":
            k, f, mode = case["k"], fr(case["f"]), case["mode"]
            p = pos_float(off, dt, k, f, dy, dim)
            want = ref_index(Fr(k) + f, mode)
            st_, got = call(dim.index_of, p, mode_of(mode))
            _cmp_index(ctx, case, "C07/sampled.index_of/%s/%s" % (mode, icls(case)), want, st_, got, p)
            nt = bool(off) or mode != "leq" or k < 0
            classes.append("mode:" + mode)
        elif what == "range":
            ka, fa, kb, fb, sm = case["ka"], fr(case["fa"]), case["kb"], fr(case["fb"]), case["sm"]
            a = pos_float(off, dt, ka, fa, dy, dim)
            b = pos_float(off, dt, kb, fb, dy, dim)
            sa, sb = Fr(ka) + fa, Fr(kb) + fb
            st_, got = call(dim.range_indices, a, b, smode_of(sm))
            if sa > sb:
                if not (st_ == "IndexError" or (st_ == "ok" and got is None)):
                    ctx.violation("C07/sampled.range_indices/start>end", case, {"status": st_, "got": _j(got)})
            else:
                want = ref_range(sa, sb, sm)
                big = max(ka, kb) >= 10000 and (fa != 0 or fb != 0)
                key = "C07/sampled.range_indices/%s/%s" % (
                    sm, "rel-tolerance-large-index" if big else ("offset!=0" if off else "plain"))
                _cmp_range(ctx, case, key, want, st_, got, (a, b))
            classes.append("smode:" + sm)
        elif what == "roundtrip":
            i = case["i"]
            p = dim.position_at(i)
            offv = off or 0.0
            wantp = Fr(offv) + i * Fr(dt)
            if abs(Fr(p) - wantp) > (abs(Fr(offv)) + abs(i * Fr(dt))) * Fr(1, 10 ** 12) + Fr(1, 10 ** 300):
                ctx.violation("C07/sampled.position_at/value", case, {"got": p, "want": float(wantp)})
            for mode in MODES:
                want = i if mode != "less" else (i - 1 if i > 0 else None)
                st_, got = call(dim.index_of, p, mode_of(mode))
                _cmp_index(ctx, case, "C07/sampled.roundtrip/%s/%s" % (mode, "offset!=0" if off else "plain"),
                           want, st_, got, p)
            n, s = case.get("n", 3), case.get("s", 0)
            st_, ax = call(dim.axis, n, s)
            if st_ != "ok":
                ctx.violation("C07/sampled.axis/raised", case, {"status": st_})
            else:
                wantax = [Fr(offv) + (s + j) * Fr(dt) for j in range(n)]
                scale = abs(Fr(offv)) + abs((s + n) * Fr(dt))
                if len(ax) != n or any(abs(Fr(float(g)) - w) > scale * Fr(1, 10 ** 12) + Fr(1, 10 ** 300)
                                       for g, w in zip(ax, wantax)):
                    ctx.violation("C07/sampled.axis/values", case, {"got": [float(x) for x in ax][:6]})
    elif kind == "range":
        ticks = case["ticks"]
        dim = bench.ranged(ticks)
        rep = len(set(ticks)) < len(ticks)
        tcls = "repeated-ticks" if rep else ("single-tick" if len(ticks) == 1 else "plain")
        if what == "index_of":
            p, mode = case["p"], case["mode"]
            want = ref_ticks_index(ticks, p, mode)
            st_, got = call(dim.index_of, p, mode_of(mode))
            _cmp_index(ctx, case, "C07/range.index_of/%s/%s" % (mode, tcls), want, st_, got, p)
            nt = rep or mode != "leq" or p < ticks[0] or p > ticks[-1]
        elif what == "range":
            a, b, sm = case["a"], case["b"], case["sm"]
            st_, got = call(dim.range_indices, a, b, smode_of(sm))
            if a > b:
                if not (st_ == "IndexError" or (st_ == "ok" and got is None)):
                    ctx.violation("C07/range.range_indices/start>end", case, {"status": st_, "got": _j(got)})
            else:
                _cmp_range(ctx, case, "C07/range.range_indices/%s/%s" % (sm, tcls),
                           ref_ticks_range(ticks, a, b, sm), st_, got, (a, b))
        elif what == "roundtrip":
            got_ticks = [float(t) for t in dim.ticks]
            if got_ticks != [float(t) for t in ticks]:
                ctx.violation("C07/range.ticks/readback", case, {"got": got_ticks})
            for i, t in enumerate(ticks):
                st_, g = call(dim.tick_at, i)
                if st_ != "ok" or float(g) != float(t):
                    ctx.violation("C07/range.tick_at/value", case, {"i": i, "status": st_, "got": _j(g)})
                # converting the position of sample i back yields i (first/last of equal ticks)
                first = ticks.index(t)
                last = len(ticks) - 1 - ticks[::-1].index(t)
                for mode, want in (("leq", last), ("geq", first), ("less", first - 1 if first > 0 else None)):
                    st2, g2 = call(dim.index_of, t, mode_of(mode))
                    _cmp_index(ctx, case, "C07/range.roundtrip/%s/%s" % (mode, tcls), want, st2, g2, t)
            n = len(ticks)
            for s in range(0, n + 1):
                for cnt in (1, n - s, n - s + 1):
                    if cnt < 0:
                        continue
                    st_, ax = call(dim.axis, cnt, s)
                    if s + cnt > n:
                        if st_ != "IndexError":
                            ctx.violation("C07/range.axis/beyond-ticks-not-refused", case,
                                          {"s": s, "n": cnt, "status": st_})
                    elif st_ != "ok" or [float(x) for x in ax] != [float(x) for x in ticks[s:s + cnt]]:
                        ctx.violation("C07/range.axis/values", case, {"s": s, "n": cnt, "status": st_})
    else:  # set
        nl = case["labels"]
        dim = bench.setdim(nl)
        nmax = nl if nl else None
        if what == "index_of":
            k, f, mode = case["k"], fr(case["f"]), case["mode"]
            p = float(Fr(k) + f)
            want = ref_index(Fr(k) + f, mode, nmax)
            st_, got = call(dim.index_of, p, mode_of(mode))
            _cmp_index(ctx, case, "C07/set.index_of/%s/%s" % (mode, icls(case)), want, st_, got, p)
            nt = mode != "leq" or k < 0 or (nmax is not None and k >= nmax)
        elif what == "range":
            sa, sb, sm = Fr(case["ka"]) + fr(case["fa"]), Fr(case["kb"]) + fr(case["fb"]), case["sm"]
            st_, got = call(dim.range_indices, float(sa), float(sb), smode_of(sm))
            if sa > sb:
                if not (st_ == "IndexError" or (st_ == "ok" and got is None)):
                    ctx.violation("C07/set.range_indices/start>end", case, {"status": st_, "got": _j(got)})
            else:
                big = max(case["ka"], case["kb"]) >= 10000 and (fr(case["fa"]) != 0 or fr(case["fb"]) != 0)
                _cmp_range(ctx, case, "C07/set.range_indices/%s/%s" % (
                    sm, "rel-tolerance-large-index" if big else "plain"),
                    ref_range(sa, sb, sm, nmax), st_, got, (float(sa), float(sb)))
    ctx.case(case, nt, classes)


def _j(v):
    if v is None:
        return None
    if isinstance(v, (tuple, list)):
        return [_j(x) for x in v]
    try:
        return float(v) if not float(v).is_integer() else int(v)
    except Exception:  # noqa
        return repr(v)


def _cmp_index(ctx, case, key, want, status, got, p):
    if want is None:
        if status != "IndexError":
            ctx.violation(key, case, {"position": p, "expected": "IndexError", "status": status, "got": _j(got)})
    else:
        if status != "ok":
            ctx.violation(key, case, {"position": p, "expected": want, "status": status})
        elif int(got) != want or isinstance(got, bool):
            ctx.violation(key, case, {"position": p, "expected": want, "got": _j(got)})


def _cmp_range(ctx, case, key, want, status, got, ab):
    if status != "ok":
        ctx.violation(key, case, {"interval": ab, "expected": want, "status": status})
    elif want is None:
        if got is not None:
            ctx.violation(key, case, {"interval": ab, "expected": None, "got": _j(got)})
    elif got is None or (int(got[0]), int(got[1])) != want:
        ctx.violation(key, case, {"interval": ab, "expected": list(want), "got": _j(got)})


def valid(case):
    """input domain (used to keep shrinking inside it)"""
    try:
        kind = case["dim"]
        if kind == "sampled":
            if case["dt"] not in DY_DT + DEC_DT or case["off"] not in DY_OFF + DEC_OFF:
                return False
            if bool(case.get("dy", True)) != (case["dt"] in DY_DT):
                return False
            if case["off"] is not None and (case["off"] in DY_OFF) != (case["dt"] in DY_DT) and case["off"] != 0.0:
                return False
        if kind == "range":
            t = case["ticks"]
            if not t or sorted(t) != t:
                return False
        for key in ("f", "fa", "fb"):
            if key in case and fr(case[key]) not in FS:
                return False
        if case["what"] == "roundtrip" and kind == "sampled":
            if case["i"] < 0 or case.get("n", 0) < 0 or case.get("s", 0) < 0:
                return False
        if kind == "set" and case["labels"] not in (None, 0, 1, 2, 3, 4, 6):
            return False
        return True
    except Exception:  # noqa
        return False


# ------------------------------------------------------------------ enumeration / generation

def fpair(f):
    return [f.numerator, f.denominator]


def dyadic_grid(dts, offs):
    for dt in dts:
        for off in offs:
            for k in range(-4, 41):
                for f in FS:
                    for mode in MODES:
                        yield {"dim": "sampled", "what": "index_of", "dt": dt, "off": off, "k": k,
                               "f": fpair(f), "mode": mode}
            pts = [(k, f) for k in (-2, -1, 0, 1, 2, 5) for f in (Fr(0), Fr(1, 4), Fr(-1, 8), Fr(1, 2))]
            for (ka, fa) in pts:
                for (kb, fb) in pts:
                    for sm in ("excl", "incl"):
                        yield {"dim": "sampled", "what": "range", "dt": dt, "off": off, "ka": ka,
                               "fa": fpair(fa), "kb": kb, "fb": fpair(fb), "sm": sm}
            for i in (0, 1, 2, 7, 40):
                yield {"dim": "sampled", "what": "roundtrip", "dt": dt, "off": off, "i": i, "n": 4, "s": i}


TICKSETS = [[0.0], [2.5], [-1.0], [0.0, 1.0], [1.0, 1.0], [-2.0, -1.0, 0.5], [0.0, 0.0, 0.0],
            [1.0, 2.0, 2.0, 3.5], [0.125, 0.25, 0.5, 0.5, 4.0], [-3.0, -3.0, 1.0, 1.0, 2.0, 8.0],
            [0.0, 1.0, 2.0, 3.0, 4.0, 5.0, 6.0, 7.0], [10.0, 10.125, 10.25, 20.0, 20.0, 20.0, 21.0]]


def tick_positions(ticks):
    ps = set()
    for t in ticks:
        ps.update((t, t - 0.125, t + 0.125))
    for a, b in zip(ticks, ticks[1:]):
        ps.add((a + b) / 2)
    ps.update((ticks[0] - 5, ticks[-1] + 5))
    return sorted(ps)


def range_grid(ticksets):
    for ticks in ticksets:
        ps = tick_positions(ticks)
        for p in ps:
            for mode in MODES:
                yield {"dim": "range", "what": "index_of", "ticks": ticks, "p": p, "mode": mode}
        for a in ps:
            for b in ps:
                for sm in ("excl", "incl"):
                    yield {"dim": "range", "what": "range", "ticks": ticks, "a": a, "b": b, "sm": sm}
        yield {"dim": "range", "what": "roundtrip", "ticks": ticks}


def set_grid():
    for nl in (None, 0, 1, 2, 3, 6):
        for k in range(-2, 9):
            for f in FS:
                for mode in MODES:
                    yield {"dim": "set", "what": "index_of", "labels": nl, "k": k, "f": fpair(f), "mode": mode}
        pts = [(k, f) for k in (-1, 0, 1, 2, 5, 6) for f in (Fr(0), Fr(1, 4), Fr(-1, 8), Fr(1, 2))]
        for ka, fa in pts:
            for kb, fb in pts:
                for sm in ("excl", "incl"):
                    yield {"dim": "set", "what": "range", "labels": nl, "ka": ka, "fa": fpair(fa),
                           "kb": kb, "fb": fpair(fb), "sm": sm}


@st.composite
def sampled_random(draw):
    dy = draw(st.booleans())
    dt = draw(st.sampled_from(DY_DT if dy else DEC_DT))
    off = draw(st.sampled_from(DY_OFF if dy else DEC_OFF))
    kk = st.one_of(st.integers(-4, 60), st.sampled_from(BIGK), st.integers(1000, 2000000))
    f = st.sampled_from(FS).map(fpair)
    what = draw(st.sampled_from(["index_of", "index_of", "range", "roundtrip"]))
    base = {"dim": "sampled", "what": what, "dt": dt, "off": off, "dy": dy}
    if what == "index_of":
        base.update(k=draw(kk), f=draw(f), mode=draw(st.sampled_from(MODES)))
    elif what == "range":
        base.update(ka=draw(kk), fa=draw(f), kb=draw(kk), fb=draw(f), sm=draw(st.sampled_from(["excl", "incl"])))
    else:
        base.update(i=draw(st.one_of(st.integers(0, 100), st.sampled_from(BIGK))), n=draw(st.integers(0, 5)),
                    s=draw(st.integers(0, 50)))
    return base


@st.composite
def range_random(draw):
    dy = draw(st.booleans())
    if dy:
        vals = st.integers(-80, 80).map(lambda i: i / 8.0)
    else:
        vals = st.sampled_from([0.1, 0.3, -0.7, 1e-3, 2.5e-5, 7.125, 1e6 + 0.1, -1e3 - 0.3, 0.30000000000000004])
    ticks = sorted(draw(st.lists(vals, min_size=1, max_size=8)))
    ps = tick_positions(ticks)
    what = draw(st.sampled_from(["index_of", "range", "roundtrip"]))
    base = {"dim": "range", "what": what, "ticks": ticks}
    if what == "index_of":
        base.update(p=draw(st.sampled_from(ps)), mode=draw(st.sampled_from(MODES)))
    elif what == "range":
        base.update(a=draw(st.sampled_from(ps)), b=draw(st.sampled_from(ps)),
                    sm=draw(st.sampled_from(["excl", "incl"])))
    return base


@st.composite
def set_random(draw):
    nl = draw(st.sampled_from([None, 0, 1, 2, 4, 6]))
    kk = st.one_of(st.integers(-3, 12), st.sampled_from(BIGK))
    f = st.sampled_from(FS).map(fpair)
    if draw(st.booleans()):
        return {"dim": "set", "what": "index_of", "labels": nl, "k": draw(kk), "f": draw(f),
                "mode": draw(st.sampled_from(MODES))}
    return {"dim": "set", "what": "range", "labels": nl, "ka": draw(kk), "fa": draw(f), "kb": draw(kk),
            "fb": draw(f), "sm": draw(st.sampled_from(["excl", "incl"]))}


def shards(tier, seed):
    specs = [{"part": "dyadic", "dts": [dt], "seed": seed} for dt in DY_DT]
    specs += [{"part": "range-grid", "sets": TICKSETS[i::3], "seed": seed} for i in range(3)]
    specs.append({"part": "set-grid", "seed": seed})
    nrand, per = (5, 500) if tier == "quick" else (16, 15000)
    for i in range(nrand):
        specs.append({"part": "random", "n": per, "seed": seed * 1000 + i})
    return specs


def run_shard(spec, ctx):
    bench = Bench(ctx)
    try:
        part = spec["part"]
        if part == "dyadic":
            for case in dyadic_grid(spec["dts"], DY_OFF):
                run_case(case, ctx, bench)
            ctx.exhaustive = True
        elif part == "range-grid":
            for case in range_grid(spec["sets"]):
                run_case(case, ctx, bench)
            ctx.exhaustive = True
        elif part == "set-grid":
            for case in set_grid():
                run_case(case, ctx, bench)
            ctx.exhaustive = True
        else:
            strat = st.one_of(sampled_random(), sampled_random(), range_random(), set_random())
            gen.generate(strat, spec["n"], spec["seed"], lambda c: run_case(c, ctx, bench))
    finally:
        bench.close()


def replay(case, ctx):
    bench = Bench(ctx)
    try:
        run_case(case, ctx, bench)
    finally:
        bench.close()
