# -*- coding: utf-8 -*-
"""C04 - deleting an entity removes it, what it owns and every link to it - nothing else (DESIGN 4/C04)."""
import copy
import json
import os

import h5py
from hypothesis import strategies as st

from vlib import gen, ops, walk
from vlib.interp import Interp

ID = "C04"
LEVEL = "exploration"
RULE = ("Two-phase Hypothesis-generated programs: a build phase (densely cross-linked two-block prefix - one array "
        "in several groups, referenced by tags and multi-tags, used as positions/extents/feature data and "
        "dimension-link target, nested sources and sections linked from every kind, identical names in different "
        "blocks/parents - plus random create/link ops), then 1-6 delete or unlink ops addressing the victim by "
        "name, id, index, negative index or object, then optional reopen. Oracle (metamorphic on the observed "
        "state): walk after == prune(walk before, D) where D = ids of the victim and everything nested under it; "
        "owned subtrees removed, every reference to D removed from lists, single-valued slots that pointed into D "
        "become wildcards that must not mention D; no id of D anywhere in the new walk nor in a raw HDF5 scan; "
        "unlink ops remove exactly one reference and keep the target. Non-trivial: victim has >= 1 inbound link or "
        ">= 1 owned child, or a same-named entity exists under another parent; distinct by program hash.")
ASSUMPTIONS = [
    "slots that referred to a deleted entity may read as None, as an error, or be absent - they must only not "
    "yield the deleted entity",
    "the target of a dimension link is not exposed by the public API; the skeleton model supplies it",
    "h5py visititems is trusted for the raw scan",
]

WILD = "__wild__"


def collect_ids(node):
    return {n["id"] for n in walk.entities(node)}


def find_node(W, eid):
    for n in walk.entities(W):
        if n.get("id") == eid:
            return n
    return None


def prune(node, D, wild_dims):
    """expected walk after deleting the ids in D"""
    if isinstance(node, dict):
        if set(node) == {"ref"}:
            return {WILD: True} if node["ref"] in D else node
        out = {}
        for k, v in node.items():
            if k == "dimensions" and isinstance(v, list) and node.get("id") in wild_dims:
                dl = []
                for i, d in enumerate(v):
                    if i in wild_dims[node["id"]] and isinstance(d, dict):
                        dl.append({WILD: True, "keep": {kk: d.get(kk) for kk in ("kind", "index", "dimension_type")}})
                    else:
                        dl.append(prune(d, D, wild_dims))
                out[k] = dl
            else:
                out[k] = prune(v, D, wild_dims)
        return out
    if isinstance(node, list):
        res = []
        for x in node:
            if isinstance(x, dict) and x.get("id") in D and "kind" in x:
                continue
            if isinstance(x, dict) and set(x) == {"ref"} and x["ref"] in D:
                continue
            res.append(prune(x, D, wild_dims))
        return res
    return node


def mentions(node, D):
    if isinstance(node, dict):
        return any(mentions(v, D) for v in node.values())
    if isinstance(node, list):
        return any(mentions(v, D) for v in node)
    return isinstance(node, str) and node in D


def match(exp, got, D, path=""):
    """None if ``got`` matches the expected walk (wildcards allowed), else (path, exp, got)"""
    if isinstance(exp, dict) and exp.get(WILD):
        if mentions(got, D):
            return (path, "<anything not mentioning a deleted id>", got)
        keep = exp.get("keep")
        if keep and isinstance(got, dict):
            for k, v in keep.items():
                if got.get(k) != v:
                    return ("%s/%s" % (path, k), v, got.get(k))
        return None
    if type(exp) is not type(got):
        return (path, exp, got)
    if isinstance(exp, dict):
        for k in sorted(set(exp) | set(got)):
            if k not in exp:
                return ("%s/%s" % (path, k), "<absent>", got[k])
            if k not in got:
                return ("%s/%s" % (path, k), exp[k], "<absent>")
            d = match(exp[k], got[k], D, "%s/%s" % (path, k))
            if d:
                return d
        return None
    if isinstance(exp, list):
        if len(exp) != len(got):
            return ("%s[len]" % path, walk._brief(exp), walk._brief(got))
        for i, (x, y) in enumerate(zip(exp, got)):
            d = match(x, y, D, "%s[%d]" % (path, i))
            if d:
                return d
        return None
    return None if exp == got else (path, exp, got)


def raw_scan(path, D):
    """entity ids still present anywhere in the HDF5 file (by attribute) that are in D"""
    found = []
    with h5py.File(path, "r") as hf:
        def visit(name, obj):
            eid = obj.attrs.get("entity_id")
            if isinstance(eid, bytes):
                eid = eid.decode()
            if eid in D:
                found.append(name)
        hf.visititems(visit)
    return found


def inbound(W, D):
    return sum(1 for r in walk.refs(W) if r in D)


def keyclean(p):
    import re
    return re.sub(r"\[\d+\]", "", p) or "/"


def warm_owner_handles(it):
    """
    handles of every entity that has link lists, obtained BEFORE the delete and used for reading each list by
    index, id and NAME: whatever such a handle (or its list objects) remembers must not outlive the delete
    """
    from vlib.interp import LINK_ROLES
    kept = []
    for e in it.ents:
        if not e.alive or e.kind not in LINK_ROLES:
            continue
        try:
            h = it.handle(e, "_raw")
        except Exception:  # noqa
            continue
        lists = {}
        for role in LINK_ROLES[e.kind]:
            try:
                lst = getattr(h, role)
                members = [(x.id, x.name) for x in lst]
                for mid, nm in members:
                    lst[mid]
                    lst[nm]
                    nm in lst
                lists[role] = (lst, members)
            except Exception:  # noqa
                pass
        kept.append((e, h, lists))
    return kept


def kept_after_delete(kept, D, ctx, case, i, victim):
    for e, h, lists in kept:
        if e.id in D:
            continue
        for role, (lst, members) in lists.items():
            gone = [(mid, nm) for mid, nm in members if mid in D]
            if not gone:
                continue
            for which, lobj in (("kept-list", lst), ("kept-owner", None)):
                try:
                    L = lobj if lobj is not None else getattr(h, role)
                    ids_now = [x.id for x in L]
                except Exception as exc:  # noqa
                    ctx.violation("C04/kept-handle/%s.%s/iteration-raises" % (e.kind, role), case,
                                  {"op": i, "raised": type(exc).__name__, "through": which})
                    continue
                for mid, nm in gone:
                    found = []
                    if mid in ids_now:
                        found.append("iteration")
                    for how, key in (("id", mid), ("name", nm)):
                        try:
                            x = L[key]
                            if x.id in D:
                                found.append("lookup-by-" + how)
                        except Exception:  # noqa
                            pass
                        try:
                            if how == "id" and key in L:
                                found.append("contains-id")
                        except Exception:  # noqa
                            pass
                    if found:
                        ctx.violation("C04/kept-handle/%s.%s/deleted-%s-still-yielded/%s" % (
                            e.kind, role, victim.kind, found[0]), case,
                            {"op": i, "through": which, "how": found, "deleted": nm, "victim": victim.path()})
    return


def run_case(case, ctx):
    path = os.path.join(ctx.workdir, "c04.nix")
    if os.path.exists(path):
        os.remove(path)
    it = Interp(path, policy=case.get("policy", "fresh"))
    nontrivial = False
    classes = set()
    try:
        for op in ops.rich_prefix() + case.get("build", []):
            it.step(op)
        for i, op in enumerate(case["ops"]):
            if op["op"] == "reopen":
                it.reopen(op.get("mode", "a"))
                if op.get("mode") == "r":
                    it.reopen("a")
                classes.add("reopen-between")
                continue
            W0 = walk.walk(it.f, timestamps=False)
            if op["op"] == "del":
                victim = it.pick(op["k"], op["t"])
                if victim is None:
                    continue
                vnode = find_node(W0, victim.id)
                if vnode is None:
                    ctx.violation("C04/harness/victim-not-in-walk", case, {"entity": victim.path()})
                    continue
                D = collect_ids(vnode)
                # dimension descriptors (of surviving arrays) linked to something in D
                wild_dims = {}
                for e in it.alive("array"):
                    for di, d in enumerate(e.info.get("dims", [])):
                        tgt = d.get("link")
                        if tgt not in (None, "dangling") and tgt.id in D and e.id not in D:
                            wild_dims.setdefault(e.id, set()).add(di)
                nin = inbound(W0, D) - inbound(vnode, D)
                same_name = sum(1 for n in walk.entities(W0) if n.get("name") == victim.name and n["id"] != victim.id
                                and n.get("kind") == vnode.get("kind"))
                if nin or len(D) > 1 or same_name:
                    nontrivial = True
                classes.add("victim:" + victim.kind)
                classes.add("how:" + op.get("how", "name"))
                if nin:
                    classes.add("inbound-links")
                if same_name:
                    classes.add("same-name-elsewhere")
                if wild_dims:
                    classes.add("dim-link-target-deleted")
                kept = warm_owner_handles(it)
                st_ = it.step(op)
                if st_ == "ok":
                    kept_after_delete(kept, D, ctx, case, i, victim)
                if op.get("how") in ("obj-link", "obj-top"):
                    classes.add("how:%s/%s" % (op["how"], getattr(it, "del_variant", "own")))
                if st_ != "ok" and op.get("how") == "obj-top" and getattr(it, "del_variant", "") == "top-container":
                    # a container that is not the direct parent may refuse the object - but then nothing changes
                    classes.add("refused-by-top-container")
                    dd = walk.diff(W0, walk.walk(it.f, timestamps=False))
                    if dd:
                        ctx.violation("C04/delete-through-top-container/refused-but-changed/%s" % victim.kind, case,
                                      {"op": i, "status": st_, "victim": victim.path(), "path": dd[0]})
                        break
                    continue
                if st_ != "ok":
                    ctx.violation("C04/delete-refused/%s/%s" % (victim.kind, op.get("how", "name")), case,
                                  {"op": i, "status": st_, "msg": str(getattr(it, "last_exc", ""))[:150],
                                   "victim": victim.path()})
                    break
                W1 = walk.walk(it.f, timestamps=False)
                exp = prune(W0, D, wild_dims)
                d = match(exp, W1, D)
                if d:
                    ctx.violation("C04/delete/%s%s" % (victim.kind, keyclean(d[0])), case,
                                  {"op": i, "victim": victim.path(), "path": d[0], "expected": walk.brief(d[1]),
                                   "got": walk.brief(d[2])})
                if mentions(W1, D):
                    ctx.violation("C04/delete/%s/deleted-id-still-visible" % victim.kind, case,
                                  {"op": i, "victim": victim.path()})
                it.f.flush()
                left = raw_scan(path, D)
                if left:
                    ctx.violation("C04/delete/%s/raw-hdf5-object-left" % victim.kind, case,
                                  {"op": i, "victim": victim.path(), "objects": left[:5]})
            else:
                # unlink family: exactly one reference disappears, target stays
                st_ = it.step(op)
                if st_ == "skip":
                    continue
                classes.add("unlink:" + op["op"])
                nontrivial = True
                if st_ != "ok":
                    ctx.violation("C04/unlink-refused/%s/%s" % (op["op"], op.get("by", op.get("role", ""))), case,
                                  {"op": i, "status": st_, "msg": str(getattr(it, "last_exc", ""))[:150]})
                    break
                W1 = walk.walk(it.f, timestamps=False)
                if len(walk.entities(W1)) != len(walk.entities(W0)):
                    ctx.violation("C04/unlink/%s/entity-count-changed" % op["op"], case,
                                  {"op": i, "before": len(walk.entities(W0)), "after": len(walk.entities(W1))})
                from collections import Counter
                r0, r1 = Counter(walk.refs(W0)), Counter(walk.refs(W1))
                gone, added = r0 - r1, r1 - r0
                noop = op["op"] in ("del_meta", "clear_ext") and sum(gone.values()) == 0
                if noop:
                    classes.add("unlink-noop")
                if added or (sum(gone.values()) != 1 and not noop):
                    ctx.violation("C04/unlink/%s/reference-set" % op["op"], case,
                                  {"op": i, "gone": dict(gone), "added": dict(added)})
                # everything else identical: remove all refs from both and compare
                d = walk.diff(_strip_refs(W0), _strip_refs(W1))
                if d:
                    ctx.violation("C04/unlink/%s%s" % (op["op"], keyclean(d[0])), case,
                                  {"op": i, "path": d[0], "before": walk.brief(d[1]), "after": walk.brief(d[2])})
        # final reopen: the pruned state persists
        Wend = walk.walk(it.f, timestamps=False)
        it.reopen("a")
        d = walk.diff(Wend, walk.walk(it.f, timestamps=False))
        if d:
            ctx.violation("C04/reopen-after-delete" + keyclean(d[0]), case, {"path": d[0]})
    finally:
        it.close()
        try:
            os.remove(path)
        except OSError:
            pass
    ctx.case(case, nontrivial, sorted(classes) or ["none"],
             sample={"build": len(case.get("build", [])), "ops": case["ops"]})


def _strip_refs(node):
    if isinstance(node, dict):
        if set(node) == {"ref"}:
            return "<slot>"
        return {k: ("<slot>" if (v is None and k in ("metadata", "extents", "link")) else _strip_refs(v))
                for k, v in node.items()}
    if isinstance(node, list):
        return [_strip_refs(v) for v in node if not (isinstance(v, dict) and set(v) == {"ref"})]
    return node


BUILD = ["mk_section", "mk_prop", "mk_group", "mk_array_ul", "mk_tag", "mk_mtag", "mk_source", "mk_feature",
         "mk_dim_range", "mk_dim_set", "mk_dim_self", "dim_link", "dim_link", "link", "link", "link", "set_meta",
         "set_meta", "set_pos", "set_pos", "set_featdata", "mk_frame", "sec_link", "sec_link"]


def case_strategy():
    S = ops.op_strategies()
    dele = st.fixed_dictionaries({
        "op": st.just("del"),
        "k": st.sampled_from(["section", "section", "section", "array", "array", "array", "source", "source", "block",
                              "prop", "group", "frame", "tag", "mtag", "feature"]),
        "t": ops.IDX, "how": st.sampled_from(["name", "id", "index", "neg", "obj", "obj-link", "obj-top", "obj-top"])})
    unl = gen.weighted([S["unlink"], S["unlink"], S["del_meta"], S["clear_ext"]])
    reop = st.fixed_dictionaries({"op": st.just("reopen"), "mode": st.sampled_from(["a", "r"])})
    return st.fixed_dictionaries({
        "policy": st.sampled_from(["fresh", "fresh", "cached", "two"]),
        "build": ops.program(BUILD, min_size=0, max_size=12, name_pool=["sig", "sub", "src", "g1", "tag"]),
        "ops": st.lists(gen.weighted([dele, dele, dele, dele, dele, dele, unl, unl, unl, reop]), min_size=1, max_size=6),
    })


def shards(tier, seed):
    n, per = (16, 10) if tier == "quick" else (64, 80)
    return [{"n": per, "seed": seed * 1000 + i} for i in range(n)]


def run_shard(spec, ctx):
    gen.generate(case_strategy(), spec["n"], spec["seed"], lambda c: run_case(c, ctx))


def replay(case, ctx):
    run_case(case, ctx)


def valid(case):
    return (isinstance(case, dict) and isinstance(case.get("ops"), list) and len(case["ops"]) >= 1 and
            all(isinstance(o, dict) and "op" in o for o in case["ops"] + case.get("build", [])))
