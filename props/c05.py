# -*- coding: utf-8 -*-
"""C05 - links are aliases of the original entity, never copies, and stay in their block (DESIGN 4/C05)."""
import os

import numpy as np
from hypothesis import strategies as st

from vlib import gen, ops, walk
from vlib.interp import LINK_ROLES, META_KINDS, Interp

ID = "C05"
LEVEL = "exploration"
RULE = ("Densely cross-linked generated files (two-block prefix with equal names in both blocks + random create/link "
        "ops), then Hypothesis-generated probes: (alias) pick a target and enumerate every access path the model "
        "knows (owning container by name/id/index, each link list it is in, role links positions/extents/feature "
        "data/metadata, found handles), mutate through one path (setter, data write, child creation), read through "
        "all others, also after reopen - all paths must report the same id and the same walk and show the mutation; "
        "(dimlink) arrays of rank 1-3 with every valid linked-vector index (one -1) and invalid ones: ticks/labels == "
        "target[index] read now, unit/label == target's, has_link / explicit ticks replace each other; (append) "
        "acceptance probes for every link list: right kind same block (accept, list grows by exactly that id), wrong "
        "kind, other block with different name, other block with the same name as a local entity, source of another "
        "block's tree (refuse, list unchanged), nested source of the own block (accept). Non-trivial: mutation "
        "through a non-owning path with >= 2 other paths compared, a refusal probe where a same-named local entity "
        "exists, or a dimension link on rank >= 2; distinct by case hash.")
ASSUMPTIONS = [
    "path handles are re-obtained after the mutation (no claim about stale cached Python objects beyond what the "
    "statement says: the change is visible through all other paths)",
    "dimension-link targets are numeric arrays for range dimensions; any array for set dimensions",
]


# ------------------------------------------------------------------ access paths

def paths_to(it, ent):
    """list of (label, getter) giving independent handles to ``ent``"""
    P = []
    if ent.kind != "feature":
        P.append(("own:name", lambda: it.handle(ent, "name")))
    P.append(("own:id", lambda: it.handle(ent, "id")))
    P.append(("own:index", lambda: it.handle(ent, "index")))
    P.append(("own:neg", lambda: it.handle(ent, "neg")))
    for o in [e for e in it.ents if e.alive]:
        for role, lst in o.links.items():
            if ent in lst:
                P.append(("link:%s.%s:id" % (o.kind, role), lambda o=o, role=role: getattr(it.handle(o), role)[ent.id]))
                if sum(1 for x in lst if x.name == ent.name) == 1:     # by-name is ambiguous otherwise
                    P.append(("link:%s.%s:name" % (o.kind, role),
                              lambda o=o, role=role: getattr(it.handle(o), role)[ent.name]))
                P.append(("link:%s.%s:iter" % (o.kind, role),
                          lambda o=o, role=role: [x for x in getattr(it.handle(o), role) if x.id == ent.id][0]))
        for role, tgt in o.single.items():
            if tgt is ent:
                P.append(("role:%s.%s" % (o.kind, role), lambda o=o, role=role: getattr(it.handle(o), role)))
    if ent.kind == "source":
        blk = ent.block()
        P.append(("find:block.find_sources", lambda: it.handle(blk).find_sources(lambda s: s.id == ent.id)[0]))
    if ent.kind == "section":
        P.append(("find:file.find_sections", lambda: it.f.find_sections(lambda s: s.id == ent.id)[0]))
    return P


SETTABLE = {
    "array": [("definition", "text"), ("type", "type"), ("label", "text"), ("unit", "unit"), ("data", "data"),
              ("expansion_origin", "num")],
    "frame": [("definition", "text"), ("type", "type")],
    "tag": [("definition", "text"), ("type", "type"), ("position", "pos"), ("units", "units")],
    "mtag": [("definition", "text"), ("type", "type"), ("units", "units")],
    "source": [("definition", "text"), ("type", "type"), ("child", "child")],
    "section": [("definition", "text"), ("type", "type"), ("repository", "text"), ("child", "child"),
                ("prop", "prop")],
}


def mutate(h, ent, what, val, n):
    """apply mutation ``what`` through handle h; returns a checker(handle) -> None | detail"""
    if what == "data":
        shape = tuple(h.shape)
        if not int(np.prod(shape)) or ent.info.get("dtype") in ("str", "bool"):
            return None
        new = (np.arange(int(np.prod(shape)), dtype=np.float64).reshape(shape) + 100.0 * (n + 1))
        new = new.astype(h.dtype) if np.dtype(h.dtype).kind in "iuf" else None
        if new is None:
            return None
        h[:] = new
        return lambda g: None if np.array_equal(np.asarray(g[:]), new) else {"attr": "data"}
    if what == "child":
        name = "c05-child-%d" % n
        taken = [c.name for c in (h.sources if ent.kind == "source" else h.sections)]
        while name in taken:            # the same probe number may hit one entity twice in a case
            name += "'"
        ent.info["c05_last_child"] = name
        if ent.kind == "source":
            h.create_source(name, "t")
            return lambda g: None if name in [s.name for s in g.sources] else {"attr": "child source"}
        h.create_section(name, "t")
        return lambda g: None if name in [s.name for s in g.sections] else {"attr": "child section"}
    if what == "prop":
        name = "c05-prop-%d" % n
        while name in h.props:
            name += "'"
        h.create_property(name, [n, n + 1])
        return lambda g: None if (name in g.props and list(g.props[name].values) == [n, n + 1]) else {"attr": "prop"}
    v = {"text": "c05 %s %d ü" % (val, n), "type": "c05.type.%d" % n, "unit": ["mV", "s", "kHz", "uA"][n % 4],
         "num": float(n) + 0.5, "pos": [float(n), 1.5], "units": ["ms", "mV"]}[val]
    setattr(h, what, v)

    def chk(g):
        got = getattr(g, what)
        if isinstance(v, list):
            got = list(got)
        return None if got == v else {"attr": what, "want": v, "got": walk.cval(got)}
    return chk


# ------------------------------------------------------------------ probes

def probe_alias(it, pr, ctx, case, flags):
    ent = it.pick(pr["k"], pr["t"])
    if ent is None:
        return
    P = paths_to(it, ent)
    via = P[pr["via"] % len(P)]
    muts = SETTABLE[ent.kind]
    what, val = muts[pr["mut"] % len(muts)]
    key = "C05/alias/%s/%s" % (ent.kind, via[0].split(":")[0] + ":" + via[0].split(":")[1].split(".")[-1])
    # handles obtained before the mutation and already used for reading are access paths as well:
    # a change must be visible through them (no per-handle caches of attributes, data or children)
    kept = []
    for label, getter in P:
        try:
            g = getter()
            walk.walk_obj(g, timestamps=False)
            kept.append((label, g))
        except Exception:  # noqa
            pass
    try:
        h = via[1]()
    except Exception as exc:  # noqa
        ctx.violation(key + "/path-unreachable", case, {"path": via[0], "raised": type(exc).__name__, "entity": ent.path()})
        return
    try:
        chk = mutate(h, ent, what, val, pr.get("n", 0))
    except Exception as exc:  # noqa
        ctx.violation(key + "/mutation-refused/" + what, case, {"path": via[0], "raised": type(exc).__name__,
                                                               "msg": str(exc)[:100]})
        return
    if chk is None:
        return
    if what == "child":
        # keep the model in sync for later probes
        name = ent.info.get("c05_last_child", "c05-child-%d" % pr.get("n", 0))
        kid = [c for c in (h.sources if ent.kind == "source" else h.sections) if c.name == name][0]
        it._new("source" if ent.kind == "source" else "section", name, kid.id, ent, None)
    others = [p for p in P if p[0] != via[0]]
    if not via[0].startswith("own") and len(others) >= 2:
        flags.add("nontrivial")
    flags.add("alias:" + via[0].split(":")[0])
    flags.add("mut:" + what)
    for rnd in ("now", "reopened"):
        if rnd == "reopened":
            if not pr.get("reopen"):
                break
            it.reopen("a")
            flags.add("alias-reopen")
        ref_walk = None
        paths_now = list(P)
        if rnd == "now":
            paths_now += [("kept-handle:" + lab, (lambda g=g: g)) for lab, g in kept]
            flags.add("alias-kept-handles")
        for label, getter in paths_now:
            try:
                g = getter()
            except Exception as exc:  # noqa
                ctx.violation("C05/alias/%s/path-unreachable" % ent.kind, case,
                              {"path": label, "raised": type(exc).__name__, "when": rnd, "entity": ent.path()})
                continue
            if g.id != ent.id:
                ctx.violation("C05/alias/%s/other-entity-reached" % ent.kind, case,
                              {"path": label, "want": ent.id, "got": g.id, "when": rnd})
                continue
            bad = chk(g)
            if bad is not None:
                bad.update(mutated_via=via[0], read_via=label, when=rnd)
                ctx.violation("C05/alias/%s/mutation-not-visible/%s" % (ent.kind, label.split(":")[0]), case, bad)
            w = walk.walk_obj(g, timestamps=True)
            if ref_walk is None:
                ref_walk = (label, w)
            else:
                d = walk.diff(ref_walk[1], w)
                if d:
                    ctx.violation("C05/alias/%s/paths-disagree" % ent.kind, case,
                                  {"a": ref_walk[0], "b": label, "path": d[0], "when": rnd,
                                   "va": walk.brief(d[1], 120), "vb": walk.brief(d[2], 120)})


def probe_dimlink(it, pr, ctx, case, flags):
    import nixio
    blk = it.pick("block", pr["blk"])
    if blk is None:
        return
    bh = it.handle(blk)
    shape = tuple(pr["shape"])
    n = pr.get("n", 0)
    tname, hname = "c05-target-%d" % n, "c05-holder-%d" % n
    kind = pr["dimkind"]
    if kind == "set" and pr.get("text"):
        data = np.array(["L%d" % i for i in range(int(np.prod(shape)))], dtype=object).reshape(shape)
        tgt = bh.create_data_array(tname, "t", dtype=nixio.DataType.String, data=data)
    else:
        data = np.arange(int(np.prod(shape)), dtype=np.float64).reshape(shape) * 0.5 + 1.0
        tgt = bh.create_data_array(tname, "t", data=data)
    tgt.unit, tgt.label = "mV", "orig"
    holder = bh.create_data_array(hname, "t", data=np.zeros(3))
    for nm, hh, shp in ((tname, tgt, shape), (hname, holder, (3,))):      # keep the skeleton model in sync
        e = it._new("array", nm, hh.id, blk, None)
        e.info.update(dtype="str" if (kind == "set" and pr.get("text")) else "float64", shape=tuple(shp), dims=[])
    dim = holder.append_range_dimension([1.0, 2.0, 3.0]) if kind == "range" else holder.append_set_dimension(["x", "y"])
    rank = len(shape)
    index = list(pr["index"])[:rank] + [0] * max(0, rank - len(pr["index"]))
    valid_idx = (len(pr["index"]) == rank and index.count(-1) == 1 and all(i >= -1 for i in index)
                 and all(i < s for i, s in zip(index, shape) if i != -1))
    in_bounds = all(i < s for i, s in zip(index, shape) if i >= 0)
    raw_index = list(pr["index"])
    malformed = not (len(raw_index) == rank and raw_index.count(-1) == 1 and all(i >= -1 for i in raw_index))
    cls = "rank%d" % rank
    if rank >= 2:
        flags.add("nontrivial")
    flags.add("dimlink:" + kind)
    before = walk.walk_obj(holder, timestamps=False)
    try:
        dim.link_data_array(tgt, raw_index)
        linked = True
    except Exception as exc:  # noqa
        linked = False
        err = type(exc).__name__
    if malformed:
        flags.add("dimlink:malformed-index")
        if linked:
            ctx.violation("C05/dimlink/%s/malformed-index-accepted" % kind, case, {"index": raw_index, "shape": list(shape)})
        else:
            after = walk.walk_obj(holder, timestamps=False)
            d = walk.diff(before, after)
            if d:
                ctx.violation("C05/dimlink/%s/refused-but-changed" % kind, case, {"path": d[0], "index": raw_index})
        return
    if not linked:
        if in_bounds:
            ctx.violation("C05/dimlink/%s/valid-index-refused/%s" % (kind, cls), case,
                          {"index": raw_index, "shape": list(shape), "raised": err})
        return
    if not in_bounds:
        return          # out-of-range vector position: accepted at link time, unspecified on read
    sel = tuple(slice(None) if i == -1 else i for i in raw_index)

    def expect_values(cur):
        v = cur[sel]
        return [str(x) for x in v] if cur.dtype == object else [float(x) for x in v]

    def observe(d):
        vals = d.ticks if kind == "range" else d.labels
        return [str(x) for x in vals] if data.dtype == object else [float(x) for x in vals]

    kept_dims = []

    def compare(when, cur):
        _compare(when, cur, holder.dimensions[0], "fresh")
        for lab, kd in kept_dims:
            _compare(when + ":" + lab, cur, kd, "kept-handle")
        if not kept_dims:
            kd = holder.dimensions[0]
            try:
                observe(kd)
                kd.unit, kd.label
            except Exception:  # noqa
                pass
            kept_dims.append(("kept-since-link", kd))

    def _compare(when, cur, d, hcls):
        try:
            got = observe(d)
        except Exception as exc:  # noqa
            ctx.violation("C05/dimlink/%s/values-unreadable/%s" % (kind, cls), case,
                          {"when": when, "raised": type(exc).__name__, "index": raw_index, "shape": list(shape)})
            return
        want = expect_values(cur)
        if got != want:
            ctx.violation("C05/dimlink/%s/values/%s/%s" % (kind, cls, hcls), case,
                          {"when": when, "want": want[:6], "got": got[:6], "index": raw_index})
        if not d.has_link:
            ctx.violation("C05/dimlink/%s/has_link-false" % kind, case, {"when": when})
        if kind == "range":
            if d.unit != tgt.unit or d.label != tgt.label:
                ctx.violation("C05/dimlink/range/unit-label/" + hcls, case,
                              {"when": when, "unit": [d.unit, tgt.unit], "label": [d.label, tgt.label]})
            if not d.is_alias:
                ctx.violation("C05/dimlink/range/is_alias-false", case, {"when": when})

    cur = data.copy()
    compare("after-link", cur)
    # mutate the target: the dimension must follow
    if cur.dtype == object:
        cur = np.array(["M%d" % i for i in range(cur.size)], dtype=object).reshape(shape)
    else:
        cur = cur + 10.0
    tgt[:] = cur
    tgt.unit, tgt.label = "kV", "changed"
    compare("after-target-change", cur)
    if kind == "range":
        # unit / label written through the dimension land on the linked array, and a later change of
        # the array shows through the dimension again
        d = holder.dimensions[0]
        d.unit, d.label = "uA", "via-dim"
        if tgt.unit != "uA" or tgt.label != "via-dim":
            ctx.violation("C05/dimlink/range/unit-label-set-through-dimension", case,
                          {"unit": tgt.unit, "label": tgt.label})
        tgt.unit, tgt.label = "Hz", "direct"
        compare("after-unit-roundtrip", cur)
    if pr.get("reopen"):
        it.reopen("a")
        bh = it.handle(blk)
        tgt, holder = bh.data_arrays[tname], bh.data_arrays[hname]
        del kept_dims[:]
        compare("after-reopen", cur)
    # explicit ticks / labels replace the link
    d = holder.dimensions[0]
    if kind == "range":
        newticks, tcls = [5.0, 6.0], "other-values"
        if pr["n"] % 2:
            # "freezing" the link: the explicit ticks are exactly the values the link reports right now
            newticks, tcls = [float(x) for x in d.ticks], "same-values-as-linked"
            flags.add("dimlink:explicit-ticks-equal-to-linked-values")
        d.ticks = list(newticks)
        d2 = holder.dimensions[0]
        if d2.has_link or [float(x) for x in d2.ticks] != newticks:
            ctx.violation("C05/dimlink/range/explicit-ticks-do-not-replace-link/" + tcls, case,
                          {"has_link": d2.has_link, "ticks": [float(x) for x in d2.ticks][:4], "set": newticks[:4]})
        if tcls == "same-values-as-linked":
            # explicit ticks do not follow the array any more
            cur = cur + 3.0
            tgt[:] = cur
            d3 = holder.dimensions[0]
            got = [float(x) for x in d3.ticks]
            if got != newticks or [float(x) for x in d.ticks] != newticks:
                ctx.violation("C05/dimlink/range/explicit-ticks-still-follow-the-array", case,
                              {"set": newticks[:4], "now": got[:4]})
        if tgt.shape != shape or not np.array_equal(np.asarray(tgt[:]), cur):
            ctx.violation("C05/dimlink/range/setting-ticks-changed-target", case, {})
        # and linking again replaces the ticks
        d2.link_data_array(tgt, raw_index)
        compare("after-relink", cur)
        if pr["n"] % 3 == 0:
            # removing the link never removes (or changes) the linked array
            d3 = holder.dimensions[0]
            try:
                d3.remove_link()
                flags.add("dimlink:remove_link")
                d4 = holder.dimensions[0]
                if d4.has_link or d3.has_link:
                    ctx.violation("C05/dimlink/range/remove_link/still-linked", case, {})
                bh2 = it.handle(blk)
                if tname not in bh2.data_arrays or not np.array_equal(np.asarray(bh2.data_arrays[tname][:]), cur) \
                        or bh2.data_arrays[tname].id != tgt.id:
                    ctx.violation("C05/dimlink/range/remove_link/target-changed", case, {})
            except Exception as exc:  # noqa
                ctx.violation("C05/dimlink/range/remove_link/raised", case, {"raised": type(exc).__name__})


def probe_append(it, pr, ctx, case, flags):
    owner = it.pick(pr["k"], pr["t"])
    if owner is None:
        return
    roles = sorted(LINK_ROLES[owner.kind])
    role = roles[pr["role"] % len(roles)]
    tkind = LINK_ROLES[owner.kind][role]
    blk = owner.block()
    scen = pr["scenario"]
    lst = getattr(it.handle(owner), role)
    before = [x.id for x in lst]
    other_blocks = [b for b in it.alive("block") if b is not blk]
    cand = None
    expect = "refuse"
    if scen == "same-block":
        cand = it.pick(tkind, pr["c"], lambda e: e.block() is blk)
        expect = "accept"
    elif scen == "nested-source" and tkind == "source":
        cand = it.pick("source", pr["c"], lambda e: e.block() is blk and e.parent.kind == "source")
        expect = "accept"
    elif scen == "wrong-kind":
        wk = [k for k in ("array", "tag", "mtag", "source", "section", "group", "frame") if k != tkind]
        cand = it.pick(wk[pr["c"] % len(wk)], pr["c"])
    elif scen == "other-block-different-name" and other_blocks:
        local = {e.name for e in it.alive(tkind, lambda e: e.block() is blk)}
        cand = it.pick(tkind, pr["c"], lambda e: e.block() is not blk and e.name not in local)
    elif scen == "other-block-same-name" and other_blocks:
        local = {e.name for e in it.alive(tkind, lambda e: e.block() is blk and (tkind != "source" or e.parent is blk))}
        cand = it.pick(tkind, pr["c"], lambda e: e.block() is not blk and e.name in local and
                       (tkind != "source" or e.parent.kind == "block"))
        if cand is not None:
            flags.add("nontrivial")
    if cand is None:
        return
    flags.add("append:" + scen)
    ch = it.handle(cand)
    if pr.get("hvia"):
        # the candidate's handle comes from a link (a link list, a role slot, a search), not from its owning container:
        # it is the same entity, so acceptance must not depend on the path
        alt = [(lab, g) for lab, g in paths_to(it, cand) if not lab.startswith("own:")]
        if alt:
            lab, g = alt[pr["hvia"] % len(alt)]
            try:
                ch = g()
                flags.add("append:candidate-handle-through-" + lab.split(":")[0])
                if expect == "accept":
                    flags.add("nontrivial")
            except Exception:  # noqa  (an unreachable path is the alias probe's business)
                ch = it.handle(cand)
    if pr.get("via") == "extend" and expect == "refuse":
        # extend([acceptable..., unacceptable]): the whole call is refused, nothing of it is linked
        goods = [g for g in it.alive(tkind, lambda e: e.block() is blk) if g.id not in before][:2]
        if goods:
            flags.add("extend:acceptable-items-before-the-refused-one")
        try:
            lst.extend([it.handle(g) for g in goods] + [ch])
            status = "ok"
        except Exception as exc:  # noqa
            status = type(exc).__name__
        after = [x.id for x in getattr(it.handle(owner), role)]
        if status == "ok":
            ctx.violation("C05/extend/%s/accepted/%s.%s" % (scen, owner.kind, role), case,
                          {"candidate": cand.path(), "owner": owner.path()})
        if after != before:
            ctx.violation("C05/extend/%s/refused-but-changed/%s.%s" % (scen, owner.kind, role), case,
                          {"before": before, "after": after, "raised": status})
            for x in after:
                if x not in before:
                    try:
                        del getattr(it.handle(owner), role)[x]
                    except Exception:  # noqa
                        pass
        return
    try:
        lst.append(ch)
        status = "ok"
    except Exception as exc:  # noqa
        status = type(exc).__name__
    after = [x.id for x in getattr(it.handle(owner), role)]
    key = "C05/append/%s/%s.%s" % (scen, owner.kind, role)
    if expect == "accept":
        if status != "ok":
            ctx.violation(key + "/refused", case, {"raised": status, "candidate": cand.path()})
        else:
            want = before if cand.id in before else before + [cand.id]
            if sorted(after) != sorted(want) or (cand.id not in before and after[:-1] != before):
                ctx.violation(key + "/list-after-accept", case, {"before": before, "after": after, "cand": cand.id})
            if cand.id not in before:
                owner.links.setdefault(role, []).append(cand)
            # the member is the original: same id, same content as through the owning container
            a = walk.walk_obj(getattr(it.handle(owner), role)[cand.id])
            b = walk.walk_obj(it.handle(cand))
            d = walk.diff(a, b)
            if d:
                ctx.violation(key + "/member-differs-from-original", case, {"path": d[0]})
    else:
        if status == "ok":
            ctx.violation("C05/append/%s/accepted/%s.%s" % (scen, owner.kind, role), case,
                          {"candidate": cand.path(), "owner": owner.path(), "before": before, "after": after})
            # undo so that later probes see a consistent file
            try:
                del getattr(it.handle(owner), role)[cand.id]
            except Exception:  # noqa
                pass
        elif after != before:
            ctx.violation("C05/append/%s/refused-but-changed/%s.%s" % (scen, owner.kind, role), case,
                          {"before": before, "after": after})


def probe_relink(it, pr, ctx, case, flags):
    """
    A link slot / list that holds entity X is given X' instead, where X' is an id-preserving copy of X (same id,
    other name and, after one edit, other content): afterwards the link denotes X', the entity that was given -
    an alias is an alias of the entity linked last, not of 'whatever has that id'.  Last probe of a case (the
    copy is unknown to the skeleton).
    """
    slot = pr["slot"]
    n = pr["n"]
    if slot == "metadata":
        e = it.pick(["block", "array", "group", "tag", "mtag", "source"][pr["k"] % 6], pr["t"],
                    lambda x: x.single.get("metadata") not in (None, "dangling"))
        if e is None:
            return
        x = e.single["metadata"]
        cp = it.f.copy_section(it.handle(x), name="c05-copy-%d" % n)
        cp.definition = "the copy"
        assign = lambda: setattr(it.handle(e), "metadata", it.f.sections["c05-copy-%d" % n])  # noqa: E731
        read = lambda: it.handle(e).metadata  # noqa: E731
        probe_attr = "definition"
    elif slot in ("extents", "positions"):
        e = it.pick("mtag", pr["t"], lambda x: x.single.get(slot) not in (None, "dangling"))
        if e is None:
            return
        x = e.single[slot]
        bh = it.handle(e.parent)
        cp = bh.create_data_array(name="c05-copy-%d" % n, copy_from=it.handle(x))
        cp.label = "the copy"
        assign = lambda: setattr(it.handle(e), slot, bh.data_arrays["c05-copy-%d" % n])  # noqa: E731
        read = lambda: getattr(it.handle(e), slot)  # noqa: E731
        probe_attr = "label"
    else:   # a reference list: X out, X' in
        e = it.pick(["tag", "mtag", "group"][pr["k"] % 3], pr["t"],
                    lambda y: y.links.get("references" if y.kind != "group" else "data_arrays"))
        if e is None:
            return
        role = "references" if e.kind != "group" else "data_arrays"
        x = e.links[role][pr["t"] % len(e.links[role])]
        bh = it.handle(e.parent)
        cp = bh.create_data_array(name="c05-copy-%d" % n, copy_from=it.handle(x))
        cp.label = "the copy"

        def assign():
            lst = getattr(it.handle(e), role)
            lst.append(bh.data_arrays["c05-copy-%d" % n])

        read = lambda: [m for m in getattr(it.handle(e), role) if m.name == "c05-copy-%d" % n][0]  # noqa: E731
        probe_attr = "label"
        slot = "list:" + role
    if cp.id != x.id:
        ctx.count("relink:copy-did-not-keep-id")
        return
    flags.add("relink-to-id-preserving-copy:" + slot.split(":")[0])
    flags.add("nontrivial")
    key = "C05/relink-to-copy/%s/%s" % (e.kind, slot)
    try:
        assign()
    except Exception as exc:  # noqa
        ctx.count("relink-refused:" + type(exc).__name__)
        return
    for when in ("in-session", "after-reopen"):
        if when == "after-reopen":
            it.reopen("a")
        try:
            got = read()
            seen = (got.name, getattr(got, probe_attr))
        except Exception as exc:  # noqa
            ctx.violation(key + "/not-reachable", case, {"when": when, "raised": type(exc).__name__})
            continue
        if seen != ("c05-copy-%d" % n, "the copy"):
            ctx.violation(key + "/link-denotes-the-old-entity", case,
                          {"when": when, "want": ["c05-copy-%d" % n, "the copy"], "got": list(seen)})


def probe_stale_source(it, pr, ctx, case, flags):
    """
    A handle to a source that has meanwhile been deleted from the tree (itself, or with an ancestor) denotes nothing
    that belongs to the block any more: every sources list refuses it and stays as it is.  Last probe of a case.
    """
    s = it.pick("source", pr["t"], lambda x: x.parent.kind == "source") or it.pick("source", pr["t"])
    if s is None:
        return
    blk = s.block()
    kept = it.handle(s)
    kept.name, kept.id
    victim = s
    if pr["k"] % 2 and s.parent.kind == "source":
        victim = s.parent                      # the ancestor goes, the kept descendant with it
    cont = it.container_of(victim)
    del cont[victim.id]
    it._kill(victim)
    owners = [e for e in it.ents if e.alive and e.kind in ("array", "tag", "mtag", "group") and e.block() is blk]
    if not owners:
        return
    flags.add("append:deleted-source-handle")
    flags.add("nontrivial")
    for o in owners[pr["n"] % len(owners):][:3]:
        lst = it.handle(o).sources
        before = [x.id for x in lst]
        for via in ("append", "extend"):
            try:
                lst.append(kept) if via == "append" else lst.extend([kept])
                status = "ok"
            except Exception as exc:  # noqa
                status = type(exc).__name__
            after = [x.id for x in it.handle(o).sources]
            key = "C05/%s/deleted-source-handle/%s.sources" % (via, o.kind)
            if status == "ok":
                ctx.violation(key + "/accepted", case, {"owner": o.path(), "before": before, "after": after})
            elif after != before:
                ctx.violation(key + "/refused-but-changed", case, {"before": before, "after": after})
            if after != before:
                return


def probe_refeature(it, pr, ctx, case, flags):
    """a feature retargeted frame -> array (and back): feature.data IS the entity assigned last, of its kind"""
    ft = it.pick("feature", pr["t"])
    if ft is None:
        return
    blk = ft.parent.parent
    fr = it.pick("frame", pr["k"], lambda x: x.parent is blk)
    arr = it.pick("array", pr["n"], lambda x: x.parent is blk)
    if fr is None or arr is None:
        return
    flags.add("feature-retargeted:frame->array")
    flags.add("nontrivial")
    fh = lambda: it.handle(ft)  # noqa: E731
    seq = [("frame", fr), ("array", arr)] + ([("frame", fr), ("array", arr)] if pr["k"] % 2 else [])
    for step, (kind, tgt) in enumerate(seq):
        try:
            fh().data = it.handle(tgt)
        except Exception as exc:  # noqa
            ctx.count("refeature-refused:" + type(exc).__name__)
            return
        ft.single["data"] = tgt
        for when in ("in-session",) + (("after-reopen",) if step == len(seq) - 1 else ()):
            if when == "after-reopen":
                it.reopen("a")
            try:
                got = fh().data
                a = walk.walk_obj(got, timestamps=False)
                b = walk.walk_obj(it.handle(tgt), timestamps=False)
            except Exception as exc:  # noqa
                ctx.violation("C05/feature-retarget/%s/not-readable" % kind, case, {"when": when, "raised": type(exc).__name__, "step": step})
                return
            d = walk.diff(a, b)
            if d:
                ctx.violation("C05/feature-retarget/%s/differs-from-original" % kind, case,
                              {"when": when, "step": step, "path": d[0], "via-feature": walk.brief(d[1], 120),
                               "original": walk.brief(d[2], 120)})
                return


PROBES = {"alias": probe_alias, "dimlink": probe_dimlink, "append": probe_append, "relink": probe_relink,
          "stale_source": probe_stale_source, "refeature": probe_refeature}


def run_case(case, ctx):
    path = os.path.join(ctx.workdir, "c05.nix")
    if os.path.exists(path):
        os.remove(path)
    it = Interp(path)
    flags = set()
    try:
        for op in ops.rich_prefix() + case.get("build", []):
            it.step(op)
        for pr in list(case["probes"]) + ([case["final"]] if case.get("final") else []):
            try:
                PROBES[pr["probe"]](it, pr, ctx, case, flags)
            except Exception as exc:  # harness trouble inside a probe is not a violation
                ctx.count("probe-harness-exception:" + type(exc).__name__)
                ctx.add("probe_exceptions", 1)
                ctx.note("last_probe_exception", "%s: %s" % (type(exc).__name__, str(exc)[:200]))
    finally:
        it.close()
        try:
            os.remove(path)
        except OSError:
            pass
    nt = "nontrivial" in flags
    flags.discard("nontrivial")
    ctx.case(case, nt, sorted(flags) or ["none"], sample={"build": len(case.get("build", [])), "probes": case["probes"]})


BUILD = ["mk_group", "mk_array_ul", "mk_tag", "mk_mtag", "mk_source", "mk_source", "mk_feature", "link", "link", "link",
         "link", "set_meta", "set_meta", "set_pos", "mk_section"]


def probe_strategy():
    I = ops.IDX
    alias = st.fixed_dictionaries({"probe": st.just("alias"),
                                   "k": st.sampled_from(["array", "array", "tag", "mtag", "source", "section", "section", "frame"]),
                                   "t": I, "via": st.integers(0, 30), "mut": st.integers(0, 9), "n": st.integers(0, 99),
                                   "reopen": st.booleans()})
    shape = st.lists(st.integers(1, 4), min_size=1, max_size=3)
    dimlink = st.fixed_dictionaries({"probe": st.just("dimlink"), "blk": I, "shape": shape,
                                     "index": st.lists(st.integers(-2, 3), min_size=0, max_size=4),
                                     "dimkind": st.sampled_from(["range", "range", "set"]), "text": st.booleans(),
                                     "n": st.integers(0, 9999), "reopen": st.booleans()})

    @st.composite
    def good_dimlink(draw):
        d = draw(dimlink)
        sh = d["shape"]
        ax = draw(st.integers(0, len(sh) - 1))
        d["index"] = [-1 if i == ax else draw(st.integers(0, s - 1)) for i, s in enumerate(sh)]
        return d
    append = st.fixed_dictionaries({"probe": st.just("append"), "k": st.sampled_from(sorted(LINK_ROLES)), "t": I,
                                    "role": st.integers(0, 9), "c": I, "via": st.sampled_from(["append", "append", "extend"]),
                                    "hvia": st.sampled_from([0, 0, 1, 2, 3, 5, 8]),
                                    "scenario": st.sampled_from(["same-block", "nested-source", "wrong-kind",
                                                                 "other-block-different-name", "other-block-same-name",
                                                                 "other-block-same-name"])})
    return gen.weighted([alias, alias, good_dimlink(), dimlink, append, append])


def case_strategy():
    return st.fixed_dictionaries({
        "build": ops.program(BUILD, min_size=0, max_size=10, name_pool=["sig", "src", "g1", "tag", "time"]),
        "probes": st.lists(probe_strategy(), min_size=1, max_size=8),
        "final": st.one_of(st.none(), st.fixed_dictionaries({
            "probe": st.sampled_from(["relink", "relink", "stale_source", "refeature"]),
            "slot": st.sampled_from(["metadata", "extents", "positions", "list"]),
            "k": ops.IDX, "t": ops.IDX, "n": st.integers(0, 99)}))})


def shards(tier, seed):
    n, per = (16, 14) if tier == "quick" else (64, 80)
    return [{"n": per, "seed": seed * 1000 + i} for i in range(n)]


def run_shard(spec, ctx):
    gen.generate(case_strategy(), spec["n"], spec["seed"], lambda c: run_case(c, ctx))


def replay(case, ctx):
    run_case(case, ctx)


def valid(case):
    try:
        for p in case["probes"]:
            if p["probe"] == "dimlink":
                if not (1 <= len(p["shape"]) <= 3 and all(1 <= s <= 4 for s in p["shape"])):
                    return False
        return len(case["probes"]) >= 1
    except Exception:  # noqa
        return False
