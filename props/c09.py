# -*- coding: utf-8 -*-
"""C09 - SI unit recognition and scaling are exact and consistent (DESIGN 4/C09)."""
import itertools

from hypothesis import strategies as st

from vlib import gen
from vlib.ref import units_ref as R

ID = "C09"
LEVEL = "exploration"
RULE = ("Exhaustive enumeration of prefix x unit x power strings (recognition, split), of all "
        "21x21 prefix pairs per (unit, power) (scalable/scaling/inverse), of all prefix triples on a "
        "7-prefix subset (composition), of (unit,power) pairs that differ (not scalable), of all "
        "clean-up inputs over a 9-letter alphabet up to length 5; plus Hypothesis-generated compounds "
        "of 2-4 atomics, non-unit strings and Unicode clean-up inputs. Oracle: independent reference "
        "grammar with exact rational factors (vlib/ref/units_ref.py). Non-trivial: a pair with two "
        "different non-empty prefixes, a base unit that starts with another unit or prefix, a "
        "compound, a rejected string, or a clean-up input containing a micro sign / 'mu' / blank; "
        "distinct by the input tuple.")
ASSUMPTIONS = [
    "powers ^1 and ^+n are used for recognition/split only, not for scalability pairs (the library "
    "compares power spellings; the statement says 'same power')",
    "non-unit strings are drawn without '*', '/', and newline characters",
    "scaling factors compared with relative tolerance 1e-12 (library works in binary floating point)",
]
SHRINK = True

POWERS_RECOG = ["", "^1", "^2", "^3", "^-1", "^-2", "^-3", "^+2"]
POWERS_SCALE = ["", "^2", "^3", "^-1", "^-2", "^-3"]
SUB7 = ["", "m", "u", "k", "M", "da", "c"]
TRICKY = {u for u in R.UNITS
          if any(u != o and u.startswith(o) for o in R.UNITS) or any(p and u.startswith(p) for p in R.PREFIX_EXP)}


def _units():
    from nixio.util import units
    return units


def shadowed(prefix, unit, power):
    return power == "" and prefix != "" and any(unit != o and unit.startswith(o) for o in R.UNITS)


def close(a, b, rel=1e-12):
    return abs(a - b) <= rel * max(abs(a), abs(b))


# ---------------------------------------------------------------- single-case oracles

def check_atomic(case, ctx):
    """case = {"k":"atomic","s":string}"""
    U = _units()
    s = case["s"]
    ref = R.parse(s)
    if ref is None:
        ctx.count("dropped_ambiguous")
        return
    p, u, w = ref
    cls = "shadowed-unit" if shadowed(p, u, w) else ("tricky-unit" if u in TRICKY else "plain")
    if not U.is_atomic(s):
        ctx.violation("C09/is_atomic/%s" % cls, case, {"expected": "recognised", "got": "rejected"})
    if not U.is_si(s):
        ctx.violation("C09/is_si/%s" % cls, case, {"expected": "recognised", "got": "rejected"})
    if U.is_compound(s):
        ctx.violation("C09/is_compound/atomic-as-compound", case, {"got": "compound"})
    got = tuple(U.split(s))
    if got != (p, u, w):
        key = ("C09/split/unit-shadowed-by-shorter-unit" if cls == "shadowed-unit"
               else "C09/split/%s" % cls)
        ctx.violation(key, case, {"expected": [p, u, w], "got": list(got)})


def check_pair(case, ctx):
    """case = {"k":"pair","a":s,"b":s}: both atomic per reference"""
    U = _units()
    a, b = case["a"], case["b"]
    ra, rb = R.parse(a), R.parse(b)
    if ra is None or rb is None:
        ctx.count("dropped_ambiguous")
        return
    same = ra[1] == rb[1] and ra[2] == rb[2]
    shad = shadowed(*ra) or shadowed(*rb)
    both = ra[0] != "" and rb[0] != "" and ra[0] != rb[0]
    cls = "operand-with-shadowed-unit" if shad else ("both-prefixed" if both else "simple")
    got_sc = bool(U.scalable(a, b))
    if got_sc != same:
        ctx.violation("C09/scalable/%s" % cls, case, {"expected": same, "got": got_sc})
    try:
        f = U.scaling(a, b)
        raised = None
    except Exception as exc:  # noqa
        f, raised = None, type(exc).__name__
    if same:
        want = R.factor(ra[0], rb[0], ra[2])
        if raised is not None:
            ctx.violation("C09/scaling/%s" % cls, case, {"expected": str(want), "raised": raised})
        elif not close(float(f), float(want)):
            ctx.violation("C09/scaling/%s" % cls, case, {"expected": float(want), "got": float(f)})
        else:
            try:
                g = U.scaling(b, a)
                if not close(float(f) * float(g), 1.0, 1e-11):
                    ctx.violation("C09/scaling-inverse/%s" % cls, case, {"f": f, "g": g})
            except Exception as exc:  # noqa
                ctx.violation("C09/scaling-inverse/%s" % cls, case, {"raised": type(exc).__name__})
    else:
        if raised is None:
            ctx.violation("C09/scaling/not-scalable-not-refused/%s" % cls, case, {"got": f})
        elif raised != "InvalidUnit":
            ctx.violation("C09/scaling/not-scalable-wrong-error/%s" % cls, case, {"raised": raised})


def check_triple(case, ctx):
    U = _units()
    a, b, c = case["a"], case["b"], case["c"]
    ps = [R.parse(x) for x in (a, b, c)]
    if any(p is None for p in ps):
        return
    shad = any(shadowed(*p) for p in ps)
    pref = {p[0] for p in ps}
    cls = "operand-with-shadowed-unit" if shad else (
        "both-prefixed" if len(pref - {""}) >= 2 else "simple")
    try:
        ab, bc, ac = U.scaling(a, b), U.scaling(b, c), U.scaling(a, c)
    except Exception as exc:  # noqa
        ctx.violation("C09/compose/%s" % cls, case, {"raised": type(exc).__name__})
        return
    if not close(ab * bc, ac, 1e-11):
        ctx.violation("C09/compose/%s" % cls, case, {"ab": ab, "bc": bc, "ac": ac})


def check_compound(case, ctx):
    U = _units()
    s = case["s"]
    if not R.is_compound_ref(s):
        return
    if not U.is_compound(s):
        ctx.violation("C09/is_compound/compound-rejected", case, {"got": "rejected"})
    if not U.is_si(s):
        ctx.violation("C09/is_si/compound-rejected", case, {"got": "rejected"})
    if U.is_atomic(s):
        ctx.violation("C09/is_atomic/compound-as-atomic", case, {"got": "atomic"})


def check_reject(case, ctx):
    U = _units()
    s = case["s"]
    if R.decompositions(s) or "*" in s or "/" in s or "\n" in s or s == "":
        ctx.count("reject_not_applicable")
        return
    if U.is_si(s):
        ctx.violation("C09/is_si/non-unit-accepted", case, {"got": "accepted"})
    if U.scalable(s, "m") or U.scalable("V", s):
        ctx.violation("C09/scalable/non-unit-accepted", case, {"got": True})
    try:
        f = U.scaling(s, "m")
        ctx.violation("C09/scaling/non-unit-not-refused", case, {"got": f})
    except Exception as exc:  # noqa
        if type(exc).__name__ != "InvalidUnit":
            ctx.violation("C09/scaling/non-unit-wrong-error", case, {"raised": type(exc).__name__})


def check_sanitize(case, ctx):
    U = _units()
    s = case["s"]
    once = U.sanitizer(s)
    twice = U.sanitizer(once)
    if once != twice:
        ctx.violation("C09/sanitizer/not-idempotent", case, {"once": once, "twice": twice})
    if " " in once or "µ" in once or "μ" in once:
        ctx.violation("C09/sanitizer/leaves-blank-or-micro", case, {"once": once})
    exp = s.replace(" ", "")
    if "mu" not in exp and "µ" not in exp and "μ" not in exp and once != exp:
        ctx.violation("C09/sanitizer/changes-other-text", case, {"once": once})


CHECKS = {"atomic": check_atomic, "pair": check_pair, "triple": check_triple,
          "compound": check_compound, "reject": check_reject, "sanitize": check_sanitize}


def nontrivial(case):
    k = case["k"]
    if k == "atomic":
        r = R.parse(case["s"])
        return bool(r) and (r[1] in TRICKY or r[0] != "" or r[2] != "")
    if k == "pair":
        ra, rb = R.parse(case["a"]), R.parse(case["b"])
        if not ra or not rb:
            return False
        return (ra[0] != "" and rb[0] != "" and ra[0] != rb[0]) or ra[1] in TRICKY or \
            (ra[1], ra[2]) != (rb[1], rb[2])
    if k == "triple":
        return len({case["a"], case["b"], case["c"]}) == 3
    if k == "sanitize":
        s = case["s"]
        return " " in s or "mu" in s or "µ" in s or "μ" in s
    return True


def run_case(case, ctx):
    CHECKS[case["k"]](case, ctx)
    ctx.case(case, nontrivial(case), classes=(case["k"],))


# ---------------------------------------------------------------- shards

def shards(tier, seed):
    specs = [{"part": "units", "units": R.UNITS[i::12], "seed": seed * 1000 + i} for i in range(12)]
    specs.append({"part": "sanitize-exh", "seed": seed})
    nrand = 4 if tier == "quick" else 16
    per = 1500 if tier == "quick" else 60000
    for i in range(nrand):
        specs.append({"part": "random", "n": per, "seed": seed * 1000 + 100 + i})
    return specs


def atomic_strings():
    return st.builds(lambda p, u, w: p + u + w, st.sampled_from(R.PREFIXES),
                     st.sampled_from(R.UNITS), st.sampled_from(POWERS_RECOG))


def run_shard(spec, ctx):
    part = spec["part"]
    if part == "units":
        allunits = R.UNITS
        for u in spec["units"]:
            for p in R.PREFIXES:
                for w in POWERS_RECOG:
                    run_case({"k": "atomic", "s": p + u + w}, ctx)
            for w in POWERS_SCALE:
                for pa in R.PREFIXES:
                    for pb in R.PREFIXES:
                        run_case({"k": "pair", "a": pa + u + w, "b": pb + u + w}, ctx)
                for pa, pb, pc in itertools.product(SUB7, repeat=3):
                    run_case({"k": "triple", "a": pa + u + w, "b": pb + u + w, "c": pc + u + w}, ctx)
                # different unit or different power => not scalable
                for u2 in allunits:
                    for w2 in POWERS_SCALE:
                        if (u2, w2) == (u, w):
                            continue
                        for pa, pb in (("", ""), ("m", ""), ("k", "m"), ("", "u")):
                            run_case({"k": "pair", "a": pa + u + w, "b": pb + u2 + w2}, ctx)
        ctx.exhaustive = True
    elif part == "sanitize-exh":
        alpha = ["m", "u", "µ", "μ", " ", "V", "s", "k", "^"]
        for n in range(0, 6):
            for tup in itertools.product(alpha, repeat=n):
                run_case({"k": "sanitize", "s": "".join(tup)}, ctx)
        ctx.exhaustive = True
    else:
        atom = atomic_strings()
        compound = st.builds(
            lambda first, rest: first + "".join(op + a for op, a in rest),
            atom, st.lists(st.tuples(st.sampled_from("*/"), atom), min_size=1, max_size=3))
        junk_alpha = "mgsAKolcdHzNPaJWCVFSbTHxBqGyvktLOh%Bradu^+-123450 qQ_.e"
        junk = st.text(alphabet=junk_alpha, min_size=1, max_size=7)
        near = st.builds(lambda a, i, ch: a[:i % (len(a) + 1)] + ch + a[i % (len(a) + 1):],
                         atom, st.integers(0, 9), st.sampled_from(list("xq^0-+. _mk2")))
        san = st.text(alphabet=st.one_of(st.sampled_from(list("muµμ Vsk")),
                                         st.characters(blacklist_categories=("Cs",))), max_size=12)
        cases = st.one_of(
            compound.map(lambda s: {"k": "compound", "s": s}),
            junk.map(lambda s: {"k": "reject", "s": s}),
            near.map(lambda s: {"k": "reject", "s": s}),
            san.map(lambda s: {"k": "sanitize", "s": s}),
            st.tuples(atom, atom).map(lambda t: {"k": "pair", "a": t[0], "b": t[1]}),
        )

        def one(case):
            if case["k"] == "pair":
                # ^1 / ^+n spellings are recognition-only (see ASSUMPTIONS)
                for x in (case["a"], case["b"]):
                    if x.endswith("^1") or "^+" in x:
                        ctx.count("pair_skipped_power_spelling")
                        return
            run_case(case, ctx)
        gen.generate(cases, spec["n"], spec["seed"], one)


def replay(case, ctx):
    run_case(case, ctx)
