# -*- coding: utf-8 -*-
"""C11 - open modes and format-version gating protect existing files (DESIGN 4/C11)."""
import contextlib
import copy
import datetime as _dt
import gc
import hashlib
import io
import os
import re
import shutil
import uuid

import numpy as np
from hypothesis import strategies as st

from vlib import gen, ops, walk
from vlib.interp import Interp

ID = "C11"
LEVEL = "exploration"
RULE = ("(a) header lattice, enumerated exhaustively: version in {X-1,X,X+1} x {Y-2..Y+2} x {0..Z+2} around the "
        "library version (X,Y,Z) plus versions of length 0,1,2,4,5 and a missing version attribute, x mode in "
        "{r,a,w} x file id in {valid, text, truncated uuid, missing} x format tag in {nix, NIX, nixx, hdf5, '', "
        "missing}, written with raw h5py into a copy of a small non-empty NIX file; oracle = the statement as a "
        "function (opens / refused), SHA-256 of the file unchanged after every refused open and after every "
        "read-only session, walk of an opened file == walk of the base file with the edited header, 'w' gives "
        "an empty file with library version, tag nix and a new valid id. (b) read-only immutability as a "
        "differential twin: a file built by a generated op program (usually behind a densely linked two-block "
        "prefix) is opened read-only; one op of every op kind of the grammar (create / set-attribute / link / "
        "unlink / data / delete / force-timestamp over all entity kinds, generated arguments and handle "
        "strategies) is attempted one at a time on the read-only handle and on a fresh read-write byte copy; an "
        "op that changes the twin's canonical walk is mutating and must raise on the read-only handle; after "
        "every attempt the read-only walk equals the initial walk (which equals the writable session's walk) and "
        "the bytes on disk are unchanged, also after close. (c) mode semantics on generated files: 'a' and the "
        "default mode keep the walk, 'w' empties the file and renews the id, 'a'/default/'w' create a missing "
        "path, 'r' on a missing path raises and creates nothing. Non-trivial: every lattice point; a read-only "
        "case with >= 1 twin-mutating attempt; every mode case; distinct by case hash.")
ASSUMPTIONS = [
    "the library's format version is read from nixio.file.HDF_FF_VERSION (a constant, not logic); the id "
    "threshold (1,2,0) and all gating rules are re-stated independently in this module",
    "a version attribute whose length is not 3 (or that is missing) is not a version triple and must be refused in "
    "'r' and 'a' (file.py documents 'Invalid version specified in file')",
    "'refused' means any exception; a valid id is anything uuid.UUID() parses",
    "the wall clock of nixio.util.util is replaced by a controlled clock (build time != attempt time) so that an "
    "op that only touches updated_at changes the twin's walk deterministically",
    "lattice files are current-layout files whose header was relabelled; for versions other than the library's "
    "the content comparison masks Property nodes (nixio reads pre-1.1.1 properties from a different layout)",
    "mutation of the twin is judged by the canonical walk only (bytes of a read-write session are not compared)",
    "attempts are independent by construction (fresh twin per attempt, read-only file restored if it ever changed), "
    "so a violating attempt is reported as a case with this single attempt",
]

MODES = {"r": "ReadOnly", "a": "ReadWrite", "w": "Overwrite"}
IDS = ["valid", "text", "short", "missing", "long", "suffixed", "double", "empty"]
TAGS = ["nix", "NIX", "nixx", "hdf5", "", None]
TAGCLASS = {"nix": "nix", "NIX": "uppercase", "nixx": "longer", "hdf5": "other", "": "empty", None: "missing"}
ID_THRESHOLD = (1, 2, 0)
T_BUILD = 1600000000
T_ATTEMPT = 1700000000

GRAMMAR = []
for _n in ops.CREATE + ops.SETTERS + ops.LINKS + ops.DATA + ops.DELETE + ["force_ts"]:
    if _n not in GRAMMAR:
        GRAMMAR.append(_n)
BUILD_OPS = ops.CREATE * 2 + ops.SETTERS + ops.LINKS + ops.DATA + ops.DELETE + ["force_ts"]
NAME_POOL = ["a", "b", "sig", "sub", "ü"]

CANARIES = [
    {"op": "mk_block", "name": "c11-canary", "type": "t"},
    {"op": "mk_section", "p": None, "name": "c11-canary", "type": "t"},
    {"op": "force_ts", "k": "file", "t": 0, "which": "updated", "time": 86400},
]


def _nixio():
    import nixio
    return nixio


def lib_version():
    from nixio import file as nfile
    return tuple(int(x) for x in nfile.HDF_FF_VERSION)


def sha(path):
    with open(path, "rb") as fh:
        return hashlib.sha256(fh.read()).hexdigest()


def is_uuid(text):
    if not isinstance(text, str):
        return False
    try:
        uuid.UUID(text)
        return True
    except ValueError:
        return False


def keyify(path):
    return re.sub(r"\[\d+\]", "", path) or "/"


# ------------------------------------------------------------------ controlled clock

@contextlib.contextmanager
def fake_clock():
    from nixio.util import util as nutil
    state = {"t": T_BUILD}

    class FakeDT(_dt.datetime):
        @classmethod
        def now(cls, tz=None):
            return _dt.datetime(1970, 1, 1) + _dt.timedelta(seconds=state["t"])

    old = nutil.datetime
    nutil.datetime = FakeDT
    try:
        yield state
    finally:
        nutil.datetime = old


# ------------------------------------------------------------------ (a) the statement as a function

def vclass(ver, lib):
    if ver is None:
        return "missing"
    if len(ver) != 3:
        return "malformed-length"
    ver = tuple(ver)
    if ver == lib:
        return "same"
    for i, nm in enumerate(("major", "minor", "patch")):
        if ver[i] != lib[i]:
            return "%s-%s" % (nm, "older" if ver[i] < lib[i] else "newer")
    return "same"


def oracle(ver, mode, idc, tag, lib):
    """-> (must_open, deciding input class)"""
    if mode == "w":
        return True, "overwrite"
    if tag != "nix":
        return False, "tag-" + TAGCLASS[tag]
    vc = vclass(ver, lib)
    if vc in ("missing", "malformed-length"):
        return False, "version-" + vc
    ver = tuple(ver)
    if mode == "a":
        if ver != lib:
            return False, "write-version-" + vc
    else:
        if ver[0] != lib[0] or ver[1] > lib[1]:
            return False, "read-version-" + vc
    if ver >= ID_THRESHOLD:
        if idc != "valid":
            return False, "id-%s-from-1.2.0" % idc
        return True, "version-%s+valid-id" % vc
    return True, "version-%s+id-%s-not-required" % (vc, idc)


def version_grid(lib):
    X, Y, Z = lib
    out = []
    for x in (X - 1, X, X + 1):
        for y in range(max(0, Y - 2), Y + 3):
            for z in range(0, Z + 3):
                if x >= 0:
                    out.append([x, y, z])
    out += [[], [X], [X, Y], [X, Y, Z, 0], [X, Y, Z, 0, 0], None]
    return out


def lattice(lib):
    for ver in version_grid(lib):
        for mode in ("r", "a", "w"):
            for idc in IDS:
                for tag in TAGS:
                    yield {"part": "lattice", "ver": ver, "mode": mode, "id": idc, "tag": tag}


class Base:
    """small non-empty NIX file of the current format, built once per worker"""

    def __init__(self, workdir):
        nixio = _nixio()
        self.dir = os.path.join(workdir, "lattice")
        os.makedirs(self.dir, exist_ok=True)
        self.path = os.path.join(self.dir, "base.nix")
        self.scratch = os.path.join(self.dir, "t.nix")
        f = nixio.File.open(self.path, nixio.FileMode.Overwrite)
        blk = f.create_block("blk", "t")
        da = blk.create_data_array("sig", "t", data=np.arange(6.0).reshape(2, 3))
        da.unit = "mV"
        da.append_sampled_dimension(0.5, unit="s")
        da.append_set_dimension(["a", "b", "c"])
        tag = blk.create_tag("tag", "t", [0.5, 1.0])
        tag.references.append(da)
        grp = blk.create_group("grp", "t")
        grp.data_arrays.append(da)
        src = blk.create_source("src", "t")
        da.sources.append(src)
        sec = f.create_section("meta", "t")
        sec.create_property("p", [1, 2, 3])
        sec.create_section("sub", "t").create_property("q", ["x", "ü"])
        blk.metadata = sec
        f.close()
        import h5py
        with h5py.File(self.path, "r") as h:
            self.old_id = h.attrs["id"]
        f = nixio.File.open(self.path, nixio.FileMode.ReadOnly)
        self.W = walk.walk(f)
        f.close()
        self.sha = sha(self.path)

    def id_value(self, idc):
        if idc == "valid":
            return self.old_id
        if idc == "text":
            return "not-a-uuid"
        if idc == "short":
            return self.old_id[:-1]
        # a well-formed id followed by something else is not a well-formed id
        if idc == "long":
            return self.old_id + "0"
        if idc == "suffixed":
            return self.old_id + "-old"
        if idc == "double":
            return self.old_id + " " + self.old_id
        if idc == "empty":
            return ""
        return None

    def prepare(self, ver, idc, tag):
        import h5py
        shutil.copyfile(self.path, self.scratch)
        try:
            with h5py.File(self.scratch, "r+"):
                pass
        except OSError:
            # something in this process still holds the previous scratch file open (a refused open that did not
            # let go of its handle): carry on under a new name, the lattice point itself is unaffected
            self.nscratch = getattr(self, "nscratch", 0) + 1
            self.scratch = os.path.join(self.dir, "scratch-%d.nix" % self.nscratch)
            shutil.copyfile(self.path, self.scratch)
        with h5py.File(self.scratch, "r+") as h:
            del h.attrs["version"]
            if ver is not None:
                h.attrs.create("version", np.array(ver, dtype=np.int32))
            if tag != "nix":
                del h.attrs["format"]
                if tag is not None:
                    h.attrs["format"] = tag
            if idc != "valid":
                del h.attrs["id"]
                if idc != "missing":
                    h.attrs["id"] = self.id_value(idc)
        return self.scratch


def raw_header(path):
    import h5py
    with h5py.File(path, "r") as h:
        names = []
        h.visit(names.append)
        ver = h.attrs.get("version")
        fmt = h.attrs.get("format")
        fid = h.attrs.get("id")
        if isinstance(fmt, bytes):
            fmt = fmt.decode()
        if isinstance(fid, bytes):
            fid = fid.decode()
        return {"version": None if ver is None else [int(x) for x in np.asarray(ver).ravel()],
                "format": fmt, "id": fid, "objects": sorted(names)}


def check_fresh(ctx, case, keybase, path, f, old_id, lib):
    """'an empty file with a fresh header' - through the handle and raw, after close"""
    def v(what, detail):
        ctx.violation("%s/%s" % (keybase, what), case, detail)
    try:
        nb, ns = len(f.blocks), len(f.sections)
        if nb or ns:
            v("not-empty", {"blocks": nb, "sections": ns})
        hv, hf, hid = tuple(int(x) for x in f.version), f.format, f.id
        if hv != lib:
            v("version-not-library", {"got": list(hv), "want": list(lib)})
        if hf != "nix":
            v("format-not-nix", {"got": hf})
        if not is_uuid(hid):
            v("id-invalid", {"got": repr(hid)})
        elif old_id is not None and hid == old_id:
            v("id-not-fresh", {"old": old_id, "new": hid})
    except Exception as exc:
        v("reading-header-raised", {"exc": type(exc).__name__})
        hid = None
    finally:
        try:
            f.close()
        except Exception as exc:  # noqa
            v("close-raised", {"exc": type(exc).__name__})
    gc.collect()
    raw = raw_header(path)
    if raw["version"] != list(lib) or raw["format"] != "nix":
        v("raw-header", {"got": raw})
    if not is_uuid(raw["id"]):
        v("id-invalid", {"raw": repr(raw["id"])})
    elif old_id is not None and raw["id"] == old_id:
        v("id-not-fresh", {"old": old_id, "raw": raw["id"]})
    extra = [n for n in raw["objects"] if n not in ("data", "metadata")]
    if extra:
        v("not-empty", {"leftover-objects": extra[:8]})
    nixio = _nixio()
    try:
        g = nixio.File.open(path, nixio.FileMode.ReadOnly)
    except Exception as exc:
        gc.collect()
        v("fresh-file-not-readable", {"exc": type(exc).__name__})
        return
    try:
        W = walk.walk(g)
        if W.get("blocks") != [] or W.get("sections") != []:
            v("not-empty", {"walk-blocks": walk.brief(W.get("blocks")), "walk-sections": walk.brief(W.get("sections"))})
        if hid is not None and W.get("id") != hid:
            v("id-not-stored", {"session": hid, "reopened": W.get("id")})
    finally:
        g.close()


def strip_props(node):
    if isinstance(node, dict):
        return {k: strip_props(v) for k, v in node.items() if not (k == "props" and node.get("kind") == "Section")}
    if isinstance(node, list):
        return [strip_props(v) for v in node]
    return node


def run_lattice(case, ctx, base):
    nixio = _nixio()
    lib = lib_version()
    ver, mode, idc, tag = case["ver"], case["mode"], case["id"], case["tag"]
    want, reason = oracle(ver, mode, idc, tag, lib)
    path = base.prepare(ver, idc, tag)
    before = sha(path)
    listing = sorted(os.listdir(base.dir))
    kb = "C11/lattice/%s" % mode
    f = None
    excname = None
    try:
        f = nixio.File.open(path, getattr(nixio.FileMode, MODES[mode]))
    except Exception as exc:
        excname = type(exc).__name__
    classes = ["lattice:%s:%s:%s" % (mode, "open" if want else "refuse", reason)]
    if f is None:
        gc.collect()    # a refused File.open leaves a half-constructed h5py handle behind
        classes.append("refusal:" + excname)
        if mode != "w" and sha(path) != before:
            ctx.violation("%s/refused-open-changed-file/%s" % (kb, reason), case, {"exc": excname})
        if want:
            ctx.violation("%s/refused-but-must-open/%s" % (kb, reason), case, {"exc": excname})
        if mode == "a" and oracle(ver, "r", idc, tag, lib)[0]:
            # the refused read-write attempt must leave nothing behind in the process: a read-only session on
            # the same path right afterwards is still read-only
            fr = None
            try:
                fr = nixio.File.open(path, nixio.FileMode.ReadOnly)
            except Exception as exc:  # noqa
                ctx.violation("%s/read-only-open-after-refused-read-write/raised" % kb, case, {"exc": type(exc).__name__})
            if fr is not None:
                classes.append("read-only-session-after-refused-read-write")
                mutated = []
                for label, fn in (("create_block", lambda: fr.create_block("c11-after-refusal", "t")),
                                  ("create_section", lambda: fr.create_section("c11-after-refusal", "t")),
                                  ("force_updated_at", lambda: fr.force_updated_at(12345))):
                    try:
                        fn()
                        mutated.append(label)
                    except Exception:  # noqa
                        pass
                try:
                    fr.close()
                except Exception:  # noqa
                    pass
                gc.collect()
                if mutated:
                    ctx.violation("%s/read-only-after-refused-read-write/mutating-call-accepted" % kb, case,
                                  {"calls": mutated})
                if sha(path) != before:
                    ctx.violation("%s/read-only-after-refused-read-write/bytes-changed" % kb, case, {})
    elif mode == "w":
        check_fresh(ctx, case, kb, path, f, base.old_id if idc == "valid" else base.id_value(idc), lib)
    elif not want:
        ctx.violation("%s/opened-but-must-be-refused/%s" % (kb, reason), case,
                      {"version": ver, "id": idc, "tag": tag})
        try:
            f.close()
        except Exception:  # noqa
            pass
        gc.collect()
        if mode == "r" and sha(path) != before:
            ctx.violation("%s/session-changed-file/%s" % (kb, reason), case, {})
    else:
        try:
            W = walk.walk(f)
        finally:
            f.close()
        gc.collect()
        expect = dict(base.W)
        expect["version"] = list(ver)
        expect["id"] = base.id_value(idc)
        if tuple(ver) != lib:
            # a current-layout file relabelled with another version is not a genuine file of that version and
            # nixio reads properties of old formats from a different layout: property nodes are masked
            expect, W = strip_props(expect), strip_props(W)
        d = walk.diff(expect, W)
        if d:
            ctx.violation("%s/content-differs%s" % (kb, keyify(d[0])), case,
                          {"path": d[0], "want": walk.brief(d[1]), "got": walk.brief(d[2])})
        if mode == "r" and sha(path) != before:
            ctx.violation("%s/session-changed-file/%s" % (kb, reason), case, {})
        if mode == "a":
            raw = raw_header(path)
            if raw["version"] != list(ver) or raw["id"] != base.id_value(idc) or raw["format"] != "nix":
                ctx.violation("%s/session-changed-header/%s" % (kb, reason), case, {"raw": raw})
    if sorted(os.listdir(base.dir)) != listing:
        ctx.violation("%s/stray-files" % kb, case, {"listing": sorted(os.listdir(base.dir))})
    ctx.case(case, True, classes)


# ------------------------------------------------------------------ (b) read-only immutability

def opclass(op):
    n = op["op"]
    if n == "set":
        return "set:%s.%s" % (op["k"], op["attr"])
    if n == "set_dim":
        return "set_dim:" + op["attr"]
    if n == "mk_dim":
        return "mk_dim:" + op["kind"]
    if n in ("link", "unlink"):
        return "%s:%s.%s" % (n, op["k"], op["role"])
    if n in ("set_meta", "del_meta", "del"):
        return "%s:%s" % (n, op["k"])
    if n == "force_ts":
        return "force_ts:%s.%s" % (op["k"], op.get("which", "updated"))
    if n == "mk_mtag":
        return "mk_mtag:" + ("list" if isinstance(op.get("pos"), list) else "array")
    if n == "mk_prop":
        return "mk_prop:" + ("dtype" if op.get("dtype") else "values")
    if n == "mk_feature":
        return "mk_feature:" + op.get("on", "tag")
    if n == "set_pos":
        return "set_pos:" + op.get("role", "positions")
    if n == "prop_clear":
        return "prop_clear:" + str(op.get("via"))
    if n == "mk_section":
        return "mk_section:" + ("top" if op.get("p") is None else "nested")
    if n == "mk_source":
        return "mk_source:" + ("top" if op.get("p") is None else "nested")
    return n


def snapshot(it):
    for e in it.ents:
        e.handle = None
    it.root.handle = None
    return copy.deepcopy((it.root, it.ents, it.serial))


def install(interp, snap, f):
    root, ents, serial = copy.deepcopy(snap)
    interp.root, interp.ents, interp.serial = root, ents, serial
    interp.f = f
    root.handle = f
    interp.stats = {}
    interp.last_exc = None


def build_file(path, case, clock):
    clock["t"] = T_BUILD
    if os.path.exists(path):
        os.remove(path)
    it = Interp(path)
    prog = (ops.rich_prefix() if case.get("rich") else []) + list(case.get("build", []))
    refused = 0
    for op in prog:
        if it.step(op).startswith("raised"):
            refused += 1
    it.last_exc = None
    it.f.close()
    return it, refused


def run_ro(case, ctx, clock):
    nixio = _nixio()
    d = os.path.join(ctx.workdir, "ro")
    os.makedirs(d, exist_ok=True)
    orig, pristine, twin = (os.path.join(d, n) for n in ("orig.nix", "pristine.nix", "twin.nix"))
    it, build_refused = build_file(orig, case, clock)
    snap = snapshot(it)
    shutil.copyfile(orig, pristine)
    sha0 = sha(orig)
    clock["t"] = T_ATTEMPT
    ro = copy.copy(it)
    tw = copy.copy(it)
    tw.path = twin
    state = {"mutating": 0, "nonmut": 0, "skip": 0, "writable": False}
    classes = ["ro:%s" % ("rich" if case.get("rich") else "plain")]

    def open_ro():
        return nixio.File.open(orig, nixio.FileMode.ReadOnly)

    def one(case1):
        return {"part": "ro", "rich": bool(case.get("rich")), "build": case.get("build", []), "attempts": case1}

    rf = open_ro()
    try:
        W0 = walk.walk(rf)
        # reads in the read-only session == reads in a writable session on the same bytes
        shutil.copyfile(pristine, twin)
        tf = nixio.File.open(twin, nixio.FileMode.ReadWrite)
        try:
            Wt0 = walk.walk(tf)
        finally:
            tf.close()
        dd = walk.diff(Wt0, W0)
        if dd:
            ctx.violation("C11/ro/reads-differ-from-writable-session" + keyify(dd[0]), one([]),
                          {"path": dd[0], "writable": walk.brief(dd[1]), "read-only": walk.brief(dd[2])})

        def attempt(op, canary=False):
            """-> (read-only status, twin status, mutating)"""
            nonlocal rf
            oc = opclass(op)
            install(ro, snap, rf)
            st_r = ro.step(op)
            ro.last_exc = None
            if st_r == "skip":
                state["skip"] += 1
                ctx.count("ro-attempt:skip:" + op["op"])
                return st_r, "skip", False
            # the same call on a fresh read-write byte copy
            shutil.copyfile(pristine, twin)
            tf = nixio.File.open(twin, nixio.FileMode.ReadWrite)
            try:
                install(tw, snap, tf)
                st_t = tw.step(op)
                tw.last_exc = None
                Wt = walk.walk(tf)
            finally:
                try:
                    tf.close()
                except Exception:  # noqa
                    pass
            mutating = walk.diff(Wt0, Wt) is not None
            Wr = walk.walk(rf)
            dr = walk.diff(W0, Wr)
            changed_bytes = sha(orig) != sha0
            if not canary:
                state["mutating" if mutating else "nonmut"] += 1
                ctx.count("ro-attempt:%s:%s" % ("mutating" if mutating else "non-mutating", oc))
                ctx.count("ro-twin-status:" + st_t.split(":")[0])
                if st_r.startswith("raised"):
                    ctx.count("ro-refusal:" + st_r.split(":")[1])
            if not state["writable"] and not canary:
                if mutating and not st_r.startswith("raised"):
                    ctx.violation("C11/ro/mutator-not-refused/" + oc, one([op]),
                                  {"op": op, "read-only": st_r, "twin": st_t})
                if dr:
                    ctx.violation("C11/ro/walk-changed/" + oc, one([op]),
                                  {"op": op, "read-only": st_r, "path": dr[0], "before": walk.brief(dr[1]),
                                   "after": walk.brief(dr[2])})
                if changed_bytes:
                    ctx.violation("C11/ro/bytes-changed/" + oc, one([op]), {"op": op, "read-only": st_r})
            if dr or changed_bytes:
                # re-synchronise: restore the original bytes and take a fresh read-only handle
                try:
                    rf.close()
                except Exception:  # noqa
                    pass
                gc.collect()
                shutil.copyfile(pristine, orig)
                rf = open_ro()
            return st_r, st_t, mutating

        # canaries: is the 'read-only' handle simply writable?  (one root cause -> one key)
        res = [attempt(op, canary=True) for op in CANARIES]
        if all(r[0] == "ok" and r[2] for r in res):
            state["writable"] = True
            ctx.violation("C11/ro/handle-writable", one([]),
                          {"canaries": [opclass(o) for o in CANARIES], "read-only": [r[0] for r in res]})
        else:
            for op, r in zip(CANARIES, res):
                if r[2] and not r[0].startswith("raised"):
                    ctx.violation("C11/ro/mutator-not-refused/" + opclass(op), one([]),
                                  {"op": op, "read-only": r[0], "twin": r[1], "canary": True})
        if not state["writable"]:
            for op in case.get("attempts", []):
                attempt(op)
    finally:
        try:
            rf.close()
        except Exception:  # noqa
            pass
        gc.collect()
    if sha(orig) != sha0 and not state["writable"]:
        ctx.violation("C11/ro/bytes-changed-after-close", one(case.get("attempts", [])), {})
    classes.append("ro-mutating-attempts:%s" % ("0" if not state["mutating"] else
                                                 "1-9" if state["mutating"] < 10 else "10+"))
    if build_refused:
        classes.append("ro:build-with-refusals")
    ctx.add("ro_attempts_mutating", state["mutating"])
    ctx.add("ro_attempts_non_mutating", state["nonmut"])
    ctx.add("ro_attempts_skipped", state["skip"])
    ctx.case(case, state["mutating"] >= 1, classes,
             sample={"part": "ro", "rich": case.get("rich"), "build": case.get("build", [])[:6],
                     "attempts": case.get("attempts", [])[:6], "n_attempts": len(case.get("attempts", []))})
    for p in (orig, pristine, twin):
        try:
            os.remove(p)
        except OSError:
            pass


# ------------------------------------------------------------------ (c) mode semantics

def open_mode(path, mode):
    nixio = _nixio()
    if mode == "default":
        return nixio.File.open(path)
    return nixio.File.open(path, getattr(nixio.FileMode, MODES[mode]))


def run_modes(case, ctx, clock):
    """existing non-empty file: 'a' / default keep the walk, 'w' empties it"""
    nixio = _nixio()
    lib = lib_version()
    d = os.path.join(ctx.workdir, "modes")
    os.makedirs(d, exist_ok=True)
    src, work = os.path.join(d, "src.nix"), os.path.join(d, "work.nix")
    it, build_refused = build_file(src, case, clock)
    del it
    clock["t"] = T_ATTEMPT
    f = nixio.File.open(src, nixio.FileMode.ReadOnly)
    try:
        W = walk.walk(f)
    finally:
        f.close()
    old_id = raw_header(src)["id"]
    nonempty = bool(W.get("blocks") or W.get("sections"))
    for mode in ("a", "default"):
        kb = "C11/modes/%s-existing" % mode
        shutil.copyfile(src, work)
        try:
            f = open_mode(work, mode)
        except Exception as exc:
            gc.collect()
            ctx.violation(kb + "/open-raised", case, {"exc": type(exc).__name__})
            continue
        try:
            Wa = walk.walk(f)
        finally:
            f.close()
        dd = walk.diff(W, Wa)
        if dd:
            ctx.violation(kb + "/content-not-kept" + keyify(dd[0]), case,
                          {"path": dd[0], "before": walk.brief(dd[1]), "after": walk.brief(dd[2])})
        f = nixio.File.open(work, nixio.FileMode.ReadOnly)
        try:
            Wb = walk.walk(f)
        finally:
            f.close()
        dd = walk.diff(W, Wb)
        if dd:
            ctx.violation(kb + "/content-not-kept-after-close" + keyify(dd[0]), case,
                          {"path": dd[0], "before": walk.brief(dd[1]), "after": walk.brief(dd[2])})
    shutil.copyfile(src, work)
    kb = "C11/modes/w-existing"
    try:
        f = open_mode(work, "w")
    except Exception as exc:
        gc.collect()
        ctx.violation(kb + "/open-raised", case, {"exc": type(exc).__name__})
    else:
        check_fresh(ctx, case, kb, work, f, old_id, lib)
    # ---- overwrite while another handle of this process still holds the file open: refused (file left alone) or
    # an empty file with a fresh header - never a "new" file that keeps the old header
    import h5py
    held_classes = []
    for held in ("nix-rw", "h5py-rw", "h5py-r", "h5py-rw-old-version"):
        kb = "C11/modes/w-existing-still-open/" + held
        shutil.copyfile(src, work)
        if held.endswith("old-version"):
            with h5py.File(work, "r+") as h:
                del h.attrs["version"]
                h.attrs.create("version", np.array((1, 1, 0), dtype=np.int32))
        raw0 = raw_header(work)
        try:
            holder = (nixio.File.open(work, nixio.FileMode.ReadWrite) if held == "nix-rw"
                      else h5py.File(work, "r" if held == "h5py-r" else "r+"))
        except Exception:  # noqa
            gc.collect()
            continue
        try:
            f = open_mode(work, "w")
        except Exception:  # noqa - refused
            gc.collect()
            try:
                holder.close()
            except Exception:  # noqa
                pass
            gc.collect()
            held_classes.append("modes:overwrite-while-open:%s:refused" % held)
            raw1 = raw_header(work)
            if raw1 != raw0:
                ctx.violation(kb + "/refused-but-header-changed", case, {"before": raw0, "after": raw1})
            if not held.endswith("old-version"):
                try:
                    g = nixio.File.open(work, nixio.FileMode.ReadOnly)
                    try:
                        dd = walk.diff(W, walk.walk(g))
                    finally:
                        g.close()
                    if dd:
                        ctx.violation(kb + "/refused-but-content-changed", case, {"path": dd[0]})
                except Exception as exc:  # noqa
                    gc.collect()
                    ctx.violation(kb + "/refused-but-file-unreadable", case, {"exc": type(exc).__name__})
            continue
        held_classes.append("modes:overwrite-while-open:%s:opened" % held)
        try:
            holder.close()
        except Exception:  # noqa
            pass
        check_fresh(ctx, case, kb, work, f, old_id, lib)
    for p in (src, work):
        try:
            os.remove(p)
        except OSError:
            pass
    ctx.case(case, True, held_classes + ["modes:existing:%s" % ("non-empty" if nonempty else "empty"),
                          "modes:%s" % ("rich" if case.get("rich") else "plain")],
             sample={"part": "modes", "rich": case.get("rich"), "build": case.get("build", [])[:8]})


def run_missing(case, ctx):
    """missing path: 'r' raises and creates nothing; 'a' / default / 'w' create an empty file"""
    lib = lib_version()
    mode = case["mode"]
    d = os.path.join(ctx.workdir, "missing")
    shutil.rmtree(d, ignore_errors=True)
    os.makedirs(d)
    path = os.path.join(d, case["name"])
    kb = "C11/modes/%s-missing" % mode
    f = None
    excname = None
    try:
        f = open_mode(path, mode)
    except Exception as exc:
        excname = type(exc).__name__
    if mode == "r":
        if f is not None:
            ctx.violation(kb + "/not-refused", case, {})
            try:
                f.close()
            except Exception:  # noqa
                pass
        gc.collect()
        if os.listdir(d):
            ctx.violation(kb + "/something-created", case, {"listing": sorted(os.listdir(d))})
    else:
        if f is None:
            gc.collect()
            ctx.violation(kb + "/open-raised", case, {"exc": excname})
        else:
            check_fresh(ctx, case, kb, path, f, None, lib)
            if sorted(os.listdir(d)) != [case["name"]]:
                ctx.violation(kb + "/wrong-files-created", case, {"listing": sorted(os.listdir(d))})
    shutil.rmtree(d, ignore_errors=True)
    ctx.case(case, True, ["modes:missing:" + mode,
                          "modes:missing-name:%s" % ("ascii" if case["name"].isascii() else "non-ascii")])


# ------------------------------------------------------------------ strategies

def build_strategy(max_ops):
    return ops.program(BUILD_OPS, min_size=0, max_size=max_ops, name_pool=NAME_POOL)


@st.composite
def ro_strategy(draw, max_build=10, extra=4):
    rich = draw(st.sampled_from([True, True, True, False]))
    build = draw(build_strategy(max_build if rich else max_build * 3))
    S = ops.op_strategies(NAME_POOL)
    sweep = [draw(S[n]) for n in GRAMMAR]
    sweep.append(draw(ops.fixed(op="force_ts", k="file", t=0, which=st.sampled_from(["created", "updated"]),
                                time=st.integers(0, 4102444800), how="name")))
    sweep += draw(st.lists(st.one_of([S[n] for n in GRAMMAR]), max_size=extra))
    sweep = draw(st.permutations(sweep))
    return {"part": "ro", "rich": rich, "build": build, "attempts": list(sweep)}


def modes_strategy():
    return st.fixed_dictionaries({"part": st.just("modes"), "rich": st.sampled_from([True, False, False]),
                                  "build": build_strategy(25)})


FILE_NAMES = gen.names(10).filter(lambda s: s.strip() == s and not s.startswith("-")).map(lambda s: s + ".nix")


def run_foreign(case, ctx):
    """
    an EXISTING path that is no NIX file at all (not even HDF5: text, a few bytes, a NIX file cut short): refused
    in read-only, read-write and default mode with the bytes on disk untouched ('keeps all existing content and
    creates the file only if it is missing'); overwrite replaces it by a fresh empty file
    """
    lib = lib_version()
    mode = case["mode"]
    d = os.path.join(ctx.workdir, "foreign")
    shutil.rmtree(d, ignore_errors=True)
    os.makedirs(d)
    path = os.path.join(d, "some.nix")
    kind = case["kind"]
    if kind == "text":
        content = ("not a NIX file, line %d\n" % case["n"]).encode() * (1 + case["n"] % 50)
    elif kind == "bytes":
        content = bytes((case["n"] * 7 + i * 31) % 256 for i in range(1 + case["n"] % 300))
    else:
        nixio = _nixio()
        tmp = os.path.join(d, "whole.nix")
        f = nixio.File.open(tmp, nixio.FileMode.Overwrite)
        b = f.create_block("b", "t")
        b.create_data_array("a", "t", data=list(range(200)))
        f.close()
        with open(tmp, "rb") as fh:
            raw = fh.read()
        os.remove(tmp)
        cut = {"cut-head": 8 + case["n"] % 500, "cut-half": len(raw) // 2 + case["n"] % 100,
               "cut-tail": len(raw) - 1 - case["n"] % 64}[kind]
        content = raw[:cut]
    with open(path, "wb") as fh:
        fh.write(content)
    kb = "C11/foreign/%s/%s" % (kind, mode)
    f = None
    try:
        f = open_mode(path, mode)
    except Exception:  # noqa
        pass
    gc.collect()
    if mode == "w":
        if f is None:
            ctx.violation(kb + "/overwrite-refused", case, {})
        else:
            check_fresh(ctx, case, kb, path, f, None, lib)
    else:
        if f is not None:
            ctx.violation(kb + "/not-refused", case, {"size": len(content)})
            try:
                f.close()
            except Exception:  # noqa
                pass
            gc.collect()
        now = None
        if os.path.exists(path):
            with open(path, "rb") as fh:
                now = fh.read()
        if now != content:
            ctx.violation(kb + "/bytes-changed", case,
                          {"size_before": len(content), "size_after": None if now is None else len(now)})
        if sorted(os.listdir(d)) != ["some.nix"]:
            ctx.violation(kb + "/other-files-created", case, {"listing": sorted(os.listdir(d))})
    shutil.rmtree(d, ignore_errors=True)
    ctx.case(case, True, ["foreign:%s:%s" % (kind, mode)])


FOREIGN_KINDS = ["text", "bytes", "cut-head", "cut-half", "cut-tail"]


def foreign_strategy():
    return st.fixed_dictionaries({"part": st.just("foreign"), "kind": st.sampled_from(FOREIGN_KINDS),
                                  "mode": st.sampled_from(["r", "a", "default", "a", "default", "w"]),
                                  "n": st.integers(0, 9999)})


def missing_strategy():
    return st.fixed_dictionaries({"part": st.just("missing"), "mode": st.sampled_from(["r", "a", "default", "w"]),
                                  "name": st.one_of(st.just("missing.nix"), FILE_NAMES)})


# ------------------------------------------------------------------ runner interface

N_LATTICE_SHARDS = 12


def shards(tier, seed):
    nro, per_ro = (32, 1) if tier == "quick" else (64, 6)
    nmo, per_mo = (4, 6) if tier == "quick" else (16, 40)
    # Hypothesis always starts with the same minimal example: only shard 0 runs it (skip_first elsewhere)
    specs = [{"part": "ro", "n": per_ro, "seed": seed * 1000 + i, "skip_first": i > 0} for i in range(nro)]
    specs += [{"part": "lattice", "i": i, "of": N_LATTICE_SHARDS, "seed": seed} for i in range(N_LATTICE_SHARDS)]
    specs += [{"part": "modes", "n": per_mo, "seed": seed * 1000 + 500 + i, "skip_first": i > 0} for i in range(nmo)]
    specs += [{"part": "missing", "n": 40 if tier == "quick" else 400, "seed": seed * 1000 + 900}]
    specs += [{"part": "foreign", "n": 30 if tier == "quick" else 400, "seed": seed * 1000 + 950}]
    return specs


def _generate(strategy, spec, fn):
    skip = 1 if spec.get("skip_first") else 0
    seen = [0]

    def call(case):
        seen[0] += 1
        if seen[0] > skip:
            fn(case)
    gen.generate(strategy, spec["n"] + skip, spec["seed"], call)


def run_shard(spec, ctx):
    part = spec["part"]
    # every nixio File.close() and every refused open is followed by a full gc.collect(); with the modules of
    # the harness loaded that costs ~25 ms each - park the long-lived objects in the permanent generation
    gc.collect()
    gc.freeze()
    # nixio prints diagnostics ("MultiTag Creation Failed ...") to stdout
    with fake_clock() as clock, contextlib.redirect_stdout(io.StringIO()):
        if part == "lattice":
            base = Base(ctx.workdir)
            for j, case in enumerate(lattice(lib_version())):
                if j % spec["of"] == spec["i"]:
                    run_lattice(case, ctx, base)
            ctx.exhaustive = True
        elif part == "ro":
            _generate(ro_strategy(), spec, lambda c: run_ro(c, ctx, clock))
        elif part == "modes":
            _generate(modes_strategy(), spec, lambda c: run_modes(c, ctx, clock))
        elif part == "foreign":
            for kind in FOREIGN_KINDS:
                for mode in ("r", "a", "default", "w"):
                    run_foreign({"part": "foreign", "kind": kind, "mode": mode, "n": 1}, ctx)
            gen.generate(foreign_strategy(), spec["n"], spec["seed"], lambda c: run_foreign(c, ctx))
        else:
            for mode in ("r", "a", "default", "w"):
                run_missing({"part": "missing", "mode": mode, "name": "missing.nix"}, ctx)
            gen.generate(missing_strategy(), spec["n"], spec["seed"], lambda c: run_missing(c, ctx))


def replay(case, ctx):
    with fake_clock() as clock, contextlib.redirect_stdout(io.StringIO()):
        part = case.get("part")
        if part == "lattice":
            run_lattice(case, ctx, Base(ctx.workdir))
        elif part == "ro":
            run_ro(case, ctx, clock)
        elif part == "modes":
            run_modes(case, ctx, clock)
        elif part == "foreign":
            run_foreign(case, ctx)
        else:
            run_missing(case, ctx)


def _valid_prog(p):
    return isinstance(p, list) and all(isinstance(o, dict) and "op" in o for o in p)


def valid(case):
    try:
        part = case["part"]
        if part == "lattice":
            lib = lib_version()
            return (case["ver"] in version_grid(lib) and case["mode"] in MODES and case["id"] in IDS
                    and case["tag"] in TAGS)
        if part == "ro":
            return isinstance(case["rich"], bool) and _valid_prog(case["build"]) and _valid_prog(case["attempts"])
        if part == "modes":
            return isinstance(case["rich"], bool) and _valid_prog(case["build"])
        if part == "foreign":
            return (case["kind"] in FOREIGN_KINDS and case["mode"] in ("r", "a", "default", "w") and
                    isinstance(case["n"], int) and 0 <= case["n"] <= 9999)
        if part == "missing":
            n = case["name"]
            return (case["mode"] in ("r", "a", "default", "w") and isinstance(n, str) and n.endswith(".nix")
                    and len(n) > 4 and "/" not in n and "\x00" not in n and n.strip() == n and not n.startswith("-"))
        return False
    except Exception:  # noqa
        return False
