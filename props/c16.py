# -*- coding: utf-8 -*-
"""C16 - a data frame is a faithful table of named, typed columns (DESIGN 4/C16).

A case is a JSON program on ONE data frame::

    {"cols": [[name, type], ...], "how": <creation variant>, "rows": [[atom, ...], ...],
     "prog": [op, ...]}

Cell values are "atoms": small non-negative integers that are mapped to a value of the column's type
by the pure function :func:`val` (0..15 = table of boundary values per type, >= 16 = a value derived
from the number, practically unique), so that an op stays applicable whatever the schema is at the
time it runs; row / column addresses are integers resolved modulo the current row / column count.
The oracle is the Python model :class:`Model` (ordered columns (name, type, unit) + list of rows).
"""
import math
import os
from collections import OrderedDict

import numpy as np
from hypothesis import strategies as st

from vlib import gen

ID = "C16"
LEVEL = "exploration"
RULE = ("Hypothesis-generated op programs on one data frame: schema of 1-6 columns with types from {str, int, "
        "float, bool, int8, int16, uint8, float32} and distinct non-empty names (non-ASCII, blanks, punctuation); "
        "created by col_dict / col_names+col_dtypes / col_names+data (types inferred) / structured array with 0-6 "
        "initial rows; 3-16 ops out of append_rows, append_column (with / without datatype), write_rows (strictly "
        "increasing index lists, first / last / -1), write_column by index (0 and last included) and by name, "
        "write_cell by position and by col_name+row_idx, units assignment (list, None), close+reopen (read-only "
        "and read-write), reads df[:], read_rows (int / list), read_columns (index / name list / name string, "
        "slc, group_by_cols), read_cell (position, col_name+row_idx), and refusal probes (wrong column length, "
        "unknown column, row index out of range, duplicate column name at append_column and at creation). "
        "Oracle: Python model (ordered columns (name, type, unit) + list of rows): after every op and every "
        "reopen column_names / dtype / shape / df_shape / row_count() / len / units / columns / df[:] equal the "
        "model (numpy type per column, NaN- and signed-zero-aware numbers, text exact); every addressed read "
        "equals the model; a valid op must not raise; a refusal probe must raise and leave all of the above "
        "unchanged. Non-trivial: >= 1 successful structural or overwrite op after creation followed by an "
        "addressed read that touches the first or the last row / column; distinct by program hash.")
ASSUMPTIONS = [
    "cell values are taken from the column type's own value range (conversion of foreign values is not the subject); "
    "float32 cells are exactly representable, so all comparisons are exact",
    "the position of read_cell / write_cell is (row index, column index): write_cell unpacks and reports it that way "
    "('need row and column index'), read_cell evaluates self[first][second] = row first, field second (its local "
    "variable names say the opposite, its behaviour and the unit test do not)",
    "index lists for write_rows / read_rows are strictly increasing (h5py's requirement); -1 is only used as the "
    "last element and only in place of the last row",
    "col_name+row_idx addressing uses the documented form (col_name: str, row_idx: list of length 1) and the form "
    "of the unit tests (read_cell(col_name=[name], row_idx=int), write_cell(col_name=name, row_idx=int))",
    "append_column without datatype is only used with >= 1 row and bool / int / float / str values (the type is "
    "inferred from the first entry); creation with data is only used with >= 1 row",
    "unit strings are already sanitised spellings; '' and None both read back as None",
    "group_by_cols over columns of different types returns one coerced array: only its shape is checked",
    "write_column(name=<unknown>) on a frame without rows has nothing to write: only 'unchanged' is required",
    "after a violation the affected aspect is re-synchronised (units) or the program is abandoned (table)",
]

TYPES = ["str", "int", "float", "bool", "int8", "int16", "uint8", "float32"]
BASE_TYPES = ["str", "int", "float", "bool"]
NPT = {"str": np.dtype("O"), "int": np.dtype("int64"), "float": np.dtype("float64"), "bool": np.dtype("bool"),
       "int8": np.dtype("int8"), "int16": np.dtype("int16"), "uint8": np.dtype("uint8"),
       "float32": np.dtype("float32")}
PYT = {"str": str, "int": int, "float": float, "bool": bool, "int8": np.int8, "int16": np.int16,
       "uint8": np.uint8, "float32": np.float32}
FMT = {"int": "i8", "float": "f8", "bool": "?", "int8": "i1", "int16": "i2", "uint8": "u1", "float32": "f4"}
HOWS = ["col_dict", "names_dtypes", "names_data", "structured"]
UNITS = [None, "", "mV", "s", "Hz", "ms", "uV", "kg"]
MAXCOLS = 8
MAXROWS = 12
NAN = float("nan")
INF = float("inf")

T_STR = ["", "a", " ", "ü", "日本", "a b", "\U0001f600", "0", "None", "nan", "x" * 40, "é\tz",
         "A", "-1", "λ µ", "b'x'"]
T_INT = [0, 1, -1, 2 ** 63 - 1, -2 ** 63, 127, 128, 255, 256, -128, -129, 32767, 32768, -32768, 2 ** 31,
         2 ** 53 + 1]
T_FLOAT = [0.0, -0.0, 1.5, NAN, INF, -INF, 1.7976931348623157e308, 5e-324, 0.1, -2.5, 1e-7, 123456789.125,
           float(2 ** 53), -1e300, 3.141592653589793, 1.0 / 3]
T_F32 = [0.0, -0.0, 0.5, NAN, INF, -INF, 3.4028234663852886e38, 1.401298464324817e-45, 0.10000000149011612, -2.5,
         1.0000000116860974e-07, 16777216.0, -16777215.0, 1.1754943508222875e-38, 3.1415927410125732, 0.3333333432674408]
SMALL = {"int8": (-128, 127), "int16": (-32768, 32767), "uint8": (0, 255)}


def val(t, k):
    """value of column type ``t`` for atom ``k`` (pure)"""
    k = int(k)
    if t == "str":
        return T_STR[k] if k < 16 else "s%d" % k
    if t == "bool":
        return bool(k % 2)
    if t == "int":
        return T_INT[k] if k < 16 else (-1) ** k * k * 1000003
    if t == "float":
        return T_FLOAT[k] if k < 16 else (-1) ** k * k / 8.0
    if t == "float32":
        return T_F32[k] if k < 16 else (-1) ** k * k / 8.0
    lo, hi = SMALL[t]
    if k < 4:
        return [0, hi, lo, 1][k]
    return ((-1) ** k * k * 37 - lo) % (hi - lo + 1) + lo


def show(v):
    if isinstance(v, float):
        return repr(v)
    return v


def _nix():
    import nixio
    return nixio


# ------------------------------------------------------------------ comparison (typed, NaN aware)

def cell_ok(t, want, got):
    if t == "str":
        return isinstance(got, str) and not isinstance(got, bytes) and str(got) == want
    if t == "bool":
        return bool(got) is want
    if t in ("float", "float32"):
        try:
            g = float(got)
        except Exception:  # noqa
            return False
        if math.isnan(want):
            return math.isnan(g)
        return g == want and math.copysign(1.0, g) == math.copysign(1.0, want)
    return isinstance(got, (int, np.integer)) and not isinstance(got, (bool, np.bool_)) and int(got) == want


def brief(x, n=160):
    try:
        s = repr(x.tolist() if isinstance(x, (np.ndarray, np.generic)) else x)
    except Exception:  # noqa
        s = repr(x)
    return s if len(s) <= n else s[:n] + "..."


def col_mismatch(t, want, arr):
    """-> None or a short description; ``arr`` is what nixio returned for one column (1-D)"""
    try:
        arr = np.asarray(arr)
    except Exception as exc:  # noqa
        return "not an array: %r" % exc
    if arr.dtype != NPT[t]:
        return "numpy type %s, expected %s" % (arr.dtype, NPT[t])
    if arr.shape != (len(want),):
        return "shape %s, expected (%d,)" % (arr.shape, len(want))
    for i, (w, g) in enumerate(zip(want, arr.tolist() if t == "str" else arr)):
        if not cell_ok(t, w, g):
            return "entry %d is %s, expected %s" % (i, brief(g, 60), brief(show(w), 60))
    return None


def table_mismatch(cols, rows, arr):
    """cols: [(name, type)], rows: list of row lists; arr: structured ndarray"""
    if not isinstance(arr, np.ndarray) or arr.dtype.names is None:
        return "not a structured array: %s" % brief(arr)
    names = [c[0] for c in cols]
    if list(arr.dtype.names) != names:
        return "fields %s, expected %s" % (list(arr.dtype.names), names)
    if arr.shape != (len(rows),):
        return "shape %s, expected (%d,)" % (arr.shape, len(rows))
    for j, (name, t) in enumerate(cols):
        m = col_mismatch(t, [r[j] for r in rows], arr[name])
        if m:
            return "column %d (%r, %s): %s" % (j, name, t, m)
    return None


def row_mismatch(cols, row, rec):
    if not isinstance(rec, np.void) or rec.dtype.names is None:
        return "not a single record: %s" % brief(rec)
    names = [c[0] for c in cols]
    if list(rec.dtype.names) != names:
        return "fields %s, expected %s" % (list(rec.dtype.names), names)
    for j, (name, t) in enumerate(cols):
        g = rec[name]
        if t != "str" and np.asarray(g).dtype != NPT[t]:
            return "column %d (%r): numpy type %s, expected %s" % (j, name, np.asarray(g).dtype, NPT[t])
        if not cell_ok(t, row[j], g):
            return "column %d (%r): %s, expected %s" % (j, name, brief(g, 60), brief(show(row[j]), 60))
    return None


# ------------------------------------------------------------------ model

class Model:
    def __init__(self, cols):
        self.cols = [[n, t, None] for n, t in cols]     # name, type, unit
        self.units_set = False
        self.rows = []
        self.rebuilt = False        # append_column happened (the library re-creates the dataset)

    names = property(lambda s: [c[0] for c in s.cols])
    types = property(lambda s: [c[1] for c in s.cols])
    nt = property(lambda s: [(c[0], c[1]) for c in s.cols])
    n = property(lambda s: len(s.rows))
    nc = property(lambda s: len(s.cols))

    def units(self):
        return [c[2] for c in self.cols] if self.units_set else None

    def row(self, atoms):
        return [val(t, atoms[j % len(atoms)]) for j, t in enumerate(self.types)]


class Abandon(Exception):
    pass


# ------------------------------------------------------------------ interpreter

class Run:
    def __init__(self, case, ctx):
        self.case = case
        self.ctx = ctx
        self.path = os.path.join(ctx.workdir, "c16.nix")
        self.f = None
        self.blk = None
        self._dfs = []
        self._turn = 0
        # how handles to the frame are used: "single" = one retained handle, "fresh" = a new handle from
        # block.data_frames for every step, "two" = two retained handles used in turn (what one handle
        # writes, the other must read: no per-handle caches of names, types, units, counts or data)
        self.handles = case.get("handles", "single")
        self.m = None
        self.last = ("create", "create")    # (op name, op class) of the last state change
        self.skip_units = False     # units aspect out of sync after a reported violation
        self.trace = []
        self.stats = {}
        self.changed = 0            # successful structural / overwrite ops after creation
        self.nontrivial = False
        self.classes = set()
        self.keys = set()

    # -- handles
    @property
    def df(self):
        if not self._dfs:
            return None
        if self.handles == "fresh" and self.blk is not None:
            return self.blk.data_frames["frame"]
        if self.handles == "two":
            if len(self._dfs) < 2:
                self._dfs.append(self.blk.data_frames["frame"])
            self._turn += 1
            return self._dfs[self._turn % 2]
        return self._dfs[0]

    @df.setter
    def df(self, h):
        self._dfs = [] if h is None else [h]

    # -- plumbing
    def stat(self, k, n=1):
        self.stats[k] = self.stats.get(k, 0) + n

    def viol(self, key, detail):
        d = dict(detail)
        d["trace"] = self.trace[-6:]
        d["schema"] = ["%s:%s" % (n, t) for n, t in self.m.nt] if self.m else None
        d["n_rows"] = self.m.n if self.m else None
        self.keys.add(key)
        self.ctx.violation("C16/" + key, self.case, d)

    def open(self, mode):
        nixio = _nix()
        fm = {"w": nixio.FileMode.Overwrite, "a": nixio.FileMode.ReadWrite, "r": nixio.FileMode.ReadOnly}[mode]
        self.f = nixio.File.open(self.path, fm)

    def close(self):
        if self.f is not None:
            try:
                self.f.close()
            except Exception:  # noqa
                pass
            self.f = None

    def fetch(self):
        self.blk = self.f.blocks["blk"]
        self.df = self.blk.data_frames["frame"]

    # -- whole-state comparison
    def observe(self):
        """everything the property lists, in a comparable form (before / after relation of the probes)"""
        df = self.df
        out = {}
        for key, fn in (("column_names", lambda: list(df.column_names)),
                        ("dtype", lambda: [str(d) for d in df.dtype]),
                        ("units", lambda: None if df.units is None else list(df.units)),
                        ("shape", lambda: list(df.shape)), ("df_shape", lambda: list(df.df_shape)),
                        ("row_count", lambda: int(df.row_count())), ("len", lambda: len(df)),
                        ("columns", lambda: [(n, str(d), u) for n, d, u in df.columns]),
                        ("table", lambda: [[repr(x) for x in r] for r in df[:].tolist()])):
            try:
                out[key] = fn()
            except Exception as exc:  # noqa
                out[key] = "raises " + type(exc).__name__
        out["frames"] = len(self.blk.data_frames)
        return out

    def check_state(self, prefix=""):
        """meta data and df[:] against the model; key = C16/state/<aspect>/after-<what>: the table and the column
        types are keyed by the class of the last change (e.g. append_column/inferred/str), everything else by
        its op name only (one root cause = one key)"""
        m, df = self.m, self.df
        fatal = False
        coarse = "after-" + prefix + self.last[0]
        fine = "after-" + prefix + self.last[1]
        site = coarse

        def get(what, fn):
            try:
                return True, fn()
            except Exception as exc:  # noqa
                self.viol("state/%s/%s" % (what, site), {"raised": type(exc).__name__, "msg": str(exc)[:200]})
                return False, None

        ok, names = get("column_names", lambda: df.column_names)
        if ok and (list(names) != m.names or not all(type(x) is str for x in names)):
            self.viol("state/column_names/" + site, {"got": list(names), "want": m.names})
            fatal = True
        ok, dts = get("dtype", lambda: df.dtype)
        if ok:
            want = [NPT[t] for t in m.types]
            if len(dts) != len(want) or any(np.dtype(g) != w for g, w in zip(dts, want)):
                self.viol("state/dtype/" + fine, {"got": [str(d) for d in dts], "want": [str(w) for w in want]})
                fatal = True
        counts = {}
        for what, fn in (("shape", lambda: tuple(df.shape)), ("df_shape", lambda: tuple(df.df_shape)),
                         ("row_count", lambda: df.row_count()), ("len", lambda: len(df))):
            ok, g = get(what, fn)
            if ok:
                counts[what] = g
        want = {"shape": (m.n,), "df_shape": (m.n, m.nc), "row_count": m.n, "len": m.n}
        for what, g in counts.items():
            if g != want[what] or isinstance(g, bool):
                self.viol("state/%s/%s" % (what, site), {"got": brief(g), "want": brief(want[what])})
                fatal = True
        if not self.skip_units:
            ok, un = get("units", lambda: df.units)
            wantu = m.units()
            bad = False
            if ok:
                if wantu is None:
                    bad = un is not None
                else:
                    bad = un is None or list(un) != wantu
                if bad:
                    self.viol("state/units/" + site, {"got": brief(un), "want": wantu})
                    self.skip_units = True
            if ok and not bad and not fatal:
                ok2, cl = get("columns", lambda: df.columns)
                if ok2:
                    wantc = [(n, NPT[t], u) for n, t, u in m.cols]
                    try:
                        same = len(cl) == len(wantc) and all(
                            g[0] == w[0] and np.dtype(g[1]) == w[1] and g[2] == w[2] and len(g) == 3
                            for g, w in zip(cl, wantc))
                    except Exception:  # noqa
                        same = False
                    if not same:
                        self.viol("state/columns/" + site, {"got": brief(cl, 300), "want": brief(wantc, 300)})
        ok, arr = (True, None) if fatal else get("table", lambda: df[:])
        if fatal:
            pass        # names / types / counts already differ: the table comparison would repeat that
        elif ok:
            mm = table_mismatch(m.nt, m.rows, arr)
            if mm:
                self.viol("state/table/" + fine, {"mismatch": mm, "got": brief(arr, 300)})
                fatal = True
        else:
            fatal = True
        if fatal:
            raise Abandon()

    def table_is(self, rows):
        try:
            return table_mismatch(self.m.nt, rows, self.df[:]) is None
        except Exception:  # noqa
            return False

    # -- creation
    def create(self):
        case = self.case
        cols = [(c[0], c[1]) for c in case["cols"]]
        self.m = Model(cols)
        m = self.m
        rows = [m.row(r) for r in case["rows"]]
        how = case["how"]
        self.open("w")
        self.blk = self.f.create_block("blk", "t")
        self.trace.append("create_data_frame[%s] cols=%s rows=%d" % (how, ["%s:%s" % c for c in cols], len(rows)))
        data = [tuple(r) for r in rows] if rows else None
        kw = {}
        if how == "col_dict":
            kw = dict(col_dict=OrderedDict((n, PYT[t]) for n, t in cols), data=data)
        elif how == "names_dtypes":
            kw = dict(col_names=[n for n, _ in cols], col_dtypes=[PYT[t] for _, t in cols], data=data)
        elif how == "names_data":
            typed = [tuple(v if t in BASE_TYPES else PYT[t](v) for v, (_, t) in zip(r, cols)) for r in rows]
            kw = dict(col_names=[n for n, _ in cols], data=typed)
        else:
            dt = []
            for j, (n, t) in enumerate(cols):
                if t == "str":
                    dt.append((n, "U%d" % max([1] + [len(r[j]) for r in rows])))
                else:
                    dt.append((n, FMT[t]))
            arr = np.array([tuple(r) for r in rows], dtype=dt)
            if case.get("view") and len(cols) >= 2 and not any(t == "str" for _, t in cols):
                # the same table as a multi-field view of a record array whose fields are laid out in another
                # order: the column order is the order of the NAMES, not of the byte offsets
                order = [n for n, _ in cols]
                base_dt = [dt[j] for j in reversed(range(len(dt)))]
                base = np.zeros(len(rows), dtype=base_dt)
                for n in order:
                    base[n] = arr[n]
                arr = base[order]
                self.classes.add("create:structured-view-with-permuted-offsets")
            kw = dict(data=arr)
        try:
            self.df = self.blk.create_data_frame("frame", "t", **kw)
        except Exception as exc:  # noqa
            self.viol("create/%s/raised" % how, {"raised": type(exc).__name__, "msg": str(exc)[:200]})
            raise Abandon()
        m.rows = rows
        self.last = ("create", "create:" + how)
        self.check_state()

    # -- ops ---------------------------------------------------------------------------------
    def step(self, op):
        kind = op["op"]
        fn = getattr(self, "op_" + kind)
        st_ = fn(op)
        self.stat("op:%s:%s" % (kind if kind != "probe" else "probe." + op["what"], st_))

    def mutate(self, desc, key, call, new_rows=None, apply=None):
        """run a valid mutating call; on success apply the model change; on an exception report + re-sync"""
        self.trace.append(desc)
        try:
            call()
        except Exception as exc:  # noqa
            self.viol(key + "/raised", {"call": desc, "raised": type(exc).__name__, "msg": str(exc)[:200]})
            # the refused op must at least not have changed anything; otherwise the program is abandoned
            self.last = ("raising-" + key.split("/")[0], "raising-" + key)
            self.check_state()
            return "raised"
        if apply:
            apply()
        if new_rows is not None:
            self.m.rows = new_rows
        self.changed += 1
        self.last = (key.split("/")[0], key)
        self.check_state()
        return "ok"

    def op_append_rows(self, op):
        m = self.m
        rows = [m.row(a) for a in op["rows"]]
        if m.n + len(rows) > MAXROWS:
            return "skip"
        key = "append_rows/" + ("after-append_column" if m.rebuilt else "plain")
        desc = "append_rows(%s)" % brief([tuple(show(v) for v in r) for r in rows], 200)
        return self.mutate(desc, key, lambda: self.df.append_rows([tuple(r) for r in rows]),
                           new_rows=m.rows + rows)

    def op_append_column(self, op):
        m = self.m
        name, t, dt = op["name"], op["type"], op["dt"]
        if name in m.names:
            return self.probe_call("dup_append_column", "append_column(%d values, %r) [name exists]" % (m.n, name),
                                   lambda: self.df.append_column([val(t, a) for a in self.cyc(op["vals"], m.n)],
                                                                 name, PYT[t]))
        if m.nc >= MAXCOLS or (not dt and (m.n == 0 or t not in BASE_TYPES)):
            return "skip"
        column = [val(t, a) for a in self.cyc(op["vals"], m.n)]
        desc = "append_column(%s, %r%s)" % (brief([show(v) for v in column], 120), name,
                                            ", %s" % PYT[t].__name__ if dt else "")
        key = "append_column/%s/%s" % ("datatype" if dt else "inferred", "str" if t == "str" else "non-str")

        def call():
            if dt:
                self.df.append_column(column, name, PYT[t])
            else:
                self.df.append_column(column, name)

        def apply():
            m.cols.append([name, t, None])
            m.rebuilt = True
        return self.mutate(desc, key, call, new_rows=[r + [v] for r, v in zip(m.rows, column)], apply=apply)

    @staticmethod
    def cyc(atoms, n):
        return [atoms[i % len(atoms)] for i in range(n)]

    def op_write_rows(self, op):
        m = self.m
        if m.n == 0:
            return "skip"
        idx = sorted(set(i % m.n for i in op["idx"]))
        rows = [m.row(op["rows"][i % len(op["rows"])]) for i in range(len(idx))]
        new = [list(r) for r in m.rows]
        for i, r in zip(idx, rows):
            new[i] = r
        pidx = list(idx)
        cls = "list" if len(idx) > 1 else "single"
        if op.get("neg") and pidx[-1] == m.n - 1:
            pidx[-1] = -1
            cls += "-neg-last"
        if 0 in idx:
            self.classes.add("write_rows:first")
        if m.n - 1 in idx:
            self.classes.add("write_rows:last")
        desc = "write_rows(%s, %s)" % (brief([tuple(show(v) for v in r) for r in rows], 200), pidx)
        return self.mutate(desc, "write_rows/" + cls,
                           lambda: self.df.write_rows([tuple(r) for r in rows], pidx), new_rows=new)

    def op_write_column(self, op):
        m = self.m
        c = op["col"] % m.nc
        name, t = m.cols[c][0], m.cols[c][1]
        column = [val(t, a) for a in self.cyc(op["vals"], m.n)]
        new = [list(r) for r in m.rows]
        for r, v in zip(new, column):
            r[c] = v
        if op["by"] == "index":
            cls = "index-0" if c == 0 else "index"
            desc = "write_column(%s, index=%d)" % (brief([show(v) for v in column], 120), c)
            call = lambda: self.df.write_column(column, index=c)  # noqa
        else:
            cls = "name"
            desc = "write_column(%s, name=%r)" % (brief([show(v) for v in column], 120), name)
            call = lambda: self.df.write_column(column, name=name)  # noqa
        self.classes.add("write_column:%s%s" % (op["by"], ":first" if c == 0 else (":last" if c == m.nc - 1 else "")))
        return self.mutate(desc, "write_column/" + cls, call, new_rows=new)

    def op_write_cell(self, op):
        m = self.m
        if m.n == 0:
            return "skip"
        r, c = op["row"] % m.n, op["col"] % m.nc
        name, t = m.cols[c][0], m.cols[c][1]
        v = val(t, op["val"])
        new = [list(x) for x in m.rows]
        new[r][c] = v
        form = op["form"]
        if form == "pos":
            desc = "write_cell(%r, position=(%d, %d))" % (show(v), r, c)
            call = lambda: self.df.write_cell(v, position=(r, c))  # noqa
        elif form == "name":
            desc = "write_cell(%r, col_name=%r, row_idx=[%d])" % (show(v), name, r)
            call = lambda: self.df.write_cell(v, col_name=name, row_idx=[r])  # noqa
        else:
            desc = "write_cell(%r, col_name=%r, row_idx=%d)" % (show(v), name, r)
            call = lambda: self.df.write_cell(v, col_name=name, row_idx=r)  # noqa
        if r in (0, m.n - 1) or c in (0, m.nc - 1):
            self.classes.add("write_cell:first-or-last")
        return self.mutate(desc, "write_cell/" + form, call, new_rows=new)

    def op_units(self, op):
        m = self.m
        if op["u"] is None:
            desc = "units = None"
            value = None
        else:
            value = [UNITS[op["u"][j % len(op["u"])] % len(UNITS)] for j in range(m.nc)]
            desc = "units = %r" % (value,)
        self.trace.append(desc)
        key = "units/" + ("set-None" if value is None else "set-list")
        try:
            self.df.units = value
        except Exception as exc:  # noqa
            self.viol(key + "/raised", {"call": desc, "raised": type(exc).__name__, "msg": str(exc)[:200]})
            self.last = ("raising-units", "raising-" + key)
            self.check_state()
            return "raised"
        if value is None:
            m.units_set = False
            for c in m.cols:
                c[2] = None
        else:
            m.units_set = True
            for c, u in zip(m.cols, value):
                c[2] = u or None
        self.skip_units = False
        self.last = ("units", key)
        self.check_state()
        return "ok"

    def op_reopen(self, op):
        self.trace.append("close + reopen%s" % (" read-only, then read-write" if op.get("ro") else ""))
        self.close()
        if op.get("ro"):
            self.open("r")
            self.fetch()
            self.check_state("reopen-read-only<-")
            self.close()
        self.open("a")
        self.fetch()
        self.check_state("reopen<-")
        self.stat("reopen-after-change" if self.changed else "reopen-unchanged")
        return "ok"

    # -- reads
    def read(self, desc, key, call, compare, touches):
        self.trace.append(desc)
        try:
            got = call()
        except Exception as exc:  # noqa
            self.viol(key + "/raised", {"call": desc, "raised": type(exc).__name__, "msg": str(exc)[:200]})
            return "raised"
        self.stat("read:" + key)
        mm = compare(got)
        if mm:
            self.viol(key + "/value", {"call": desc, "mismatch": mm, "got": brief(got, 300)})
            return "wrong"
        if touches:
            self.classes.add("read:first-or-last")
            if self.changed:
                self.nontrivial = True
        return "ok"

    def op_read_all(self, op):
        m = self.m
        return self.read("df[:]", "read_all", lambda: self.df[:], lambda g: table_mismatch(m.nt, m.rows, g), False)

    def op_read_rows(self, op):
        m = self.m
        if m.n == 0:
            return "skip"
        if op["form"] == "int":
            r = op["idx"][0] % m.n
            arg = -1 if (op.get("neg") and r == m.n - 1) else r
            return self.read("read_rows(%d)" % arg, "read_rows/int" + ("-neg" if arg < 0 else ""),
                             lambda: self.df.read_rows(arg), lambda g: row_mismatch(m.nt, m.rows[r], g),
                             r in (0, m.n - 1))
        idx = sorted(set(i % m.n for i in op["idx"]))
        return self.read("read_rows(%s)" % idx, "read_rows/list", lambda: self.df.read_rows(idx),
                         lambda g: table_mismatch(m.nt, [m.rows[i] for i in idx], g),
                         0 in idx or m.n - 1 in idx)

    def op_read_columns(self, op):
        m = self.m
        cs = []
        for c in op["cols"]:
            if c % m.nc not in cs:
                cs.append(c % m.nc)
        by = op["by"]
        if by == "name_str":
            cs = cs[:1]
        kw = {}
        sl = slice(None)
        if op.get("slc") is not None:
            a, b, stp = op["slc"]
            a, b = sorted((a % (m.n + 1), b % (m.n + 1)))
            sl = slice(a, b, stp)
            kw["slc"] = sl
        group = bool(op.get("group")) and by != "name_str"
        if group:
            kw["group_by_cols"] = True
        names = [m.cols[c][0] for c in cs]
        if by == "index":
            kw["index"] = list(cs)
        elif by == "name":
            kw["name"] = list(names)
        else:
            kw["name"] = names[0]
        rows = m.rows[sl]
        sub = [m.nt[c] for c in cs]
        subrows = [[r[c] for c in cs] for r in rows]

        def compare(g):
            if len(cs) == 1:
                return col_mismatch(sub[0][1], [r[0] for r in subrows], g)
            if not group:
                return table_mismatch(sub, subrows, g)
            if not isinstance(g, np.ndarray) or g.shape != (len(cs), len(rows)):
                return "grouped result of shape %s, expected (%d, %d)" % (getattr(g, "shape", None), len(cs), len(rows))
            ts = set(t for _, t in sub)
            if len(ts) > 1 or not rows:
                return None         # coerced to a common type: unspecified, only the shape is checked
            t = sub[0][1]
            if t == "str":
                if g.dtype.kind not in "UO":
                    return "grouped text columns of numpy type %s" % g.dtype
            elif g.dtype != NPT[t]:
                return "grouped result of numpy type %s, expected %s" % (g.dtype, NPT[t])
            for j in range(len(cs)):
                for i in range(len(rows)):
                    gv = g[j][i]
                    if t == "str":
                        gv = str(gv) if isinstance(gv, str) else gv
                    if not cell_ok(t, subrows[i][j], gv):
                        return "entry [%d][%d] is %s, expected %s" % (j, i, brief(gv, 60), brief(show(subrows[i][j]), 60))
            return None

        key = "read_columns/%s%s%s%s" % (by, "-single" if len(cs) == 1 else "-multi",
                                          "-grouped" if group and len(cs) > 1 else "", "-slc" if "slc" in kw else "")
        desc = "read_columns(%s)" % ", ".join("%s=%r" % kv for kv in sorted(kw.items()))
        return self.read(desc, key, lambda: self.df.read_columns(**kw), compare,
                         0 in cs or m.nc - 1 in cs)

    def op_read_cell(self, op):
        m = self.m
        if m.n == 0:
            return "skip"
        r, c = op["row"] % m.n, op["col"] % m.nc
        name, t = m.cols[c][0], m.cols[c][1]
        form = op["form"]
        if form == "pos":
            desc = "read_cell(position=(%d, %d))" % (r, c)
            call = lambda: self.df.read_cell(position=(r, c))  # noqa
        elif form == "name":
            desc = "read_cell(col_name=%r, row_idx=[%d])" % (name, r)
            call = lambda: self.df.read_cell(col_name=name, row_idx=[r])  # noqa
        else:
            desc = "read_cell(col_name=[%r], row_idx=%d)" % (name, r)
            call = lambda: self.df.read_cell(col_name=[name], row_idx=r)  # noqa

        def compare(g):
            if t != "str" and np.asarray(g).dtype != NPT[t]:
                return "numpy type %s, expected %s" % (np.asarray(g).dtype, NPT[t])
            if not cell_ok(t, m.rows[r][c], g):
                return "%s, expected %s" % (brief(g, 60), brief(show(m.rows[r][c]), 60))
            return None
        return self.read(desc, "read_cell/" + form, call, compare, r in (0, m.n - 1) or c in (0, m.nc - 1))

    # -- refusal probes
    def probe_call(self, what, desc, call, must_raise=True):
        self.trace.append("probe: " + desc)
        before = self.observe()
        raised = None
        try:
            call()
        except Exception as exc:  # noqa
            raised = type(exc).__name__
        after = self.observe()
        if raised is None and must_raise:
            self.viol("refusal/%s/not-refused" % what, {"call": desc})
        if raised is None and not must_raise and after != before:
            self.stat("probe:%s:accepted-and-applied" % what)
            raise Abandon()             # not refused, so nothing is claimed; the model no longer applies
        if after != before:
            diff = [k for k in before if before[k] != after.get(k)]
            self.viol("refusal/%s/table-changed" % what,
                      {"call": desc, "raised": raised, "changed": diff,
                       "before": brief([before[k] for k in diff], 300), "after": brief([after[k] for k in diff], 300)})
            raise Abandon()             # the frame no longer corresponds to the model
        if what.endswith("-no-rows"):
            self.stat("probe:%s:%s" % (what, "refused" if raised else "accepted"))
        return "refused" if raised else "accepted"

    def fresh_name(self):
        n = "nope"
        while n in self.m.names:
            n += "?"
        return n

    def op_probe(self, op):
        m = self.m
        what = op["what"]
        c = op["col"] % m.nc
        name, t = m.cols[c][0], m.cols[c][1]
        d = op["d"] % 3 + 1
        k = op["k"]
        df = self.df
        if what in ("len_write_column", "len_append_column"):
            ln = m.n + d if (op["d"] % 2 == 0 or m.n - d < 0) else m.n - d
            column = [val(t, k + i) for i in range(ln)]
            if what == "len_write_column":
                by_index = op["d"] % 4 < 2 and c != 0
                return self.probe_call(what, "write_column(<%d values>, %s) on %d rows" % (
                    ln, "index=%d" % c if by_index else "name=%r" % name, m.n),
                    (lambda: df.write_column(column, index=c)) if by_index else (lambda: df.write_column(column, name=name)))
            new = self.fresh_name() + "2"
            return self.probe_call(what, "append_column(<%d values>, %r, %s) on %d rows" % (ln, new, PYT[t].__name__, m.n),
                                   lambda: df.append_column(column, new, PYT[t]))
        if what in ("unstorable_append_column", "unstorable_append_rows", "unstorable_write_rows", "unstorable_write_cell"):
            # values the storage layer cannot take (a NumPy fixed-width text type as column type, text with an embedded
            # NUL or a lone surrogate): accepted or refused - but a refusal leaves the table as it was
            bad_text = ["a\x00b", "c\ud800d"][k % 2]
            bad_cls = ["embedded-nul", "lone-surrogate"][k % 2]
            tcols = [i for i, tt in enumerate(m.types) if tt == "str"]
            if what == "unstorable_append_column":
                new = self.fresh_name() + "3"
                variant = ["numpy-U-dtype", "object-dtype", "text:" + bad_cls][op["d"] % 3]
                if variant == "numpy-U-dtype":
                    col = np.array(["t%d" % i for i in range(m.n)] or ["t"])[:m.n]
                    call = lambda: df.append_column(col, new, datatype=np.dtype("<U4"))  # noqa: E731
                elif variant == "object-dtype":
                    col = [object() for _ in range(m.n)]
                    call = lambda: df.append_column(col, new, datatype=object)  # noqa: E731
                else:
                    if m.n == 0:
                        return "skip"
                    col = ["v%d" % i for i in range(m.n)]
                    col[op["row"] % m.n] = bad_text
                    call = lambda: df.append_column(col, new, datatype=str)  # noqa: E731
                self.stat("probe:%s:%s" % (what, variant))
                return self.probe_call(what + "/" + variant, "append_column(<%d values>, %r) [%s]" % (m.n, new, variant),
                                       call, must_raise=False)
            if not tcols:
                return "skip"
            j = tcols[op["col"] % len(tcols)]
            if what == "unstorable_append_rows":
                rows = [list(m.row([k + i])) for i in range(d)]
                rows[-1][j] = bad_text
                rows = [tuple(r) for r in rows]
                return self.probe_call(what + "/" + bad_cls, "append_rows(<%d rows, the last with %s text in column %d>)" % (
                    len(rows), bad_cls, j), lambda: df.append_rows(rows), must_raise=False)
            if m.n == 0:
                return "skip"
            r = op["row"] % m.n
            if what == "unstorable_write_rows":
                row = list(m.row([k]))
                row[j] = bad_text
                return self.probe_call(what + "/" + bad_cls, "write_rows(<1 row with %s text in column %d>, [%d])" % (bad_cls, j, r),
                                       lambda: df.write_rows([tuple(row)], [r]), must_raise=False)
            return self.probe_call(what + "/" + bad_cls, "write_cell(<%s text>, position=(%d, %d))" % (bad_cls, r, j),
                                   lambda: df.write_cell(bad_text, position=(r, j)), must_raise=False)
        if what == "unknown_write_column":
            nn = self.fresh_name()
            return self.probe_call(what if m.n else what + "-no-rows", "write_column(<%d values>, name=%r)" % (m.n, nn),
                                   lambda: df.write_column([val(t, k + i) for i in range(m.n)], name=nn),
                                   must_raise=m.n > 0)
        if what == "unknown_write_cell":
            if m.n == 0:
                return "skip"
            nn = self.fresh_name()
            r = op["row"] % m.n
            return self.probe_call(what, "write_cell(%r, col_name=%r, row_idx=[%d])" % (show(val(t, k)), nn, r),
                                   lambda: df.write_cell(val(t, k), col_name=nn, row_idx=[r]))
        if what == "oob_write_rows":
            idx = sorted(set(i % m.n for i in op["idx"])) if (m.n and op["d"] % 2) else []
            idx.append(m.n + d - 1)
            rows = [tuple(m.row([k + i])) for i in range(len(idx))]
            return self.probe_call(what, "write_rows(<%d rows>, %s) on %d rows" % (len(rows), idx, m.n),
                                   lambda: df.write_rows(rows, idx))
        if what in ("badrow_write_rows", "badrow_append_rows", "text_write_rows", "count_write_rows"):
            # a call with several rows of which a LATER one is unacceptable: nothing of the call may be applied
            if what != "badrow_append_rows" and m.n < 2:
                return "skip"
            nrows = 2 + op["d"] % 2
            idx = sorted(set(i % m.n for i in op["idx"]))[:nrows] if m.n else []
            if what != "badrow_append_rows":
                if len(idx) < 2:
                    idx = [0, m.n - 1]
                nrows = len(idx)
            rows = [tuple(m.row([k + i])) for i in range(nrows)]
            bad = 1 + (op["row"] % (nrows - 1))
            if what == "count_write_rows":
                rows = rows + [tuple(m.row([k + 7]))] if op["d"] % 2 else rows[:-1]
                return self.probe_call(what, "write_rows(<%d rows>, %s)" % (len(rows), idx), lambda: df.write_rows(rows, idx))
            if what == "text_write_rows":
                numeric = [j for j, tt in enumerate(m.types) if tt not in ("str", "bool")]
                if not numeric:
                    return "skip"
                j = numeric[op["col"] % len(numeric)]
                r = list(rows[bad])
                r[j] = "not a number"
                rows[bad] = tuple(r)
                return self.probe_call(what, "write_rows(<%d rows, row %d has text in column %d>, %s)" % (nrows, bad, j, idx),
                                       lambda: df.write_rows(rows, idx), must_raise=False)
            rows[bad] = rows[bad][:-1] if op["d"] % 4 < 2 else rows[bad] + (val(t, k),)
            if what == "badrow_write_rows":
                return self.probe_call(what, "write_rows(<%d rows, row %d has %d cells>, %s) on %d columns" % (
                    nrows, bad, len(rows[bad]), idx, m.nc), lambda: df.write_rows(rows, idx))
            return self.probe_call(what, "append_rows(<%d rows, row %d has %d cells>) on %d columns" % (
                nrows, bad, len(rows[bad]), m.nc), lambda: df.append_rows(rows))
        if what == "unordered_write_rows":
            # an index list that is not strictly increasing (a permutation of a contiguous range, or with a
            # duplicate): refused with the table unchanged, or row i of the call lands in row idx[i] (later entries
            # win) - never anywhere else
            if m.n < 4:
                return "skip"
            lo = op["row"] % (m.n - 3)
            span = [lo, lo + 1, lo + 2, lo + 3]
            idx = [[span[0], span[2], span[1], span[3]], [span[0], span[1], span[1], span[3]],
                   [span[0], span[2], span[1], span[3]]][op["d"] % 3]
            rows = [tuple(m.row([k + i])) for i in range(len(idx))]
            desc = "write_rows(<%d rows>, %s)" % (len(rows), idx)
            self.trace.append("probe: " + desc)
            before = self.observe()
            try:
                df.write_rows(rows, idx)
                raised = None
            except Exception as exc:  # noqa
                raised = type(exc).__name__
            after = self.observe()
            self.stat("probe:unordered_write_rows:%s" % ("refused" if raised else "accepted"))
            if raised:
                if after != before:
                    self.viol("refusal/unordered_write_rows/table-changed", {"call": desc, "raised": raised})
                    raise Abandon()
                return "refused"
            want = [list(r) for r in m.rows]
            for i, r in zip(idx, rows):
                want[i] = list(r)
            m.rows = want
            self.last = ("write_rows", "write_rows:unordered-index")
            self.check_state()
            return "accepted"
        if what == "oob_write_cell_pos":
            r = m.n + d - 1
            return self.probe_call(what, "write_cell(%r, position=(%d, %d)) on %d rows" % (show(val(t, k)), r, c, m.n),
                                   lambda: df.write_cell(val(t, k), position=(r, c)))
        if what == "oob_write_cell_name":
            r = m.n + d - 1
            return self.probe_call(what, "write_cell(%r, col_name=%r, row_idx=[%d]) on %d rows" % (show(val(t, k)), name, r, m.n),
                                   lambda: df.write_cell(val(t, k), col_name=name, row_idx=[r]))
        if what == "dup_append_column":
            t2 = TYPES[k % len(TYPES)]
            column = [val(t2, k + i) for i in range(m.n)]
            return self.probe_call(what, "append_column(<%d values>, %r, %s) [name exists]" % (m.n, name, PYT[t2].__name__),
                                   lambda: df.append_column(column, name, PYT[t2]))
        if what == "dup_create":
            names = m.names + [name]
            tys = [PYT[x] for x in m.types] + [PYT[t]]
            rows = [tuple(r + [r[c]]) for r in m.rows]
            if op["d"] % 2 and rows:
                typed = [tuple(v if tt in BASE_TYPES else PYT[tt](v) for v, tt in zip(r, m.types + [t])) for r in rows]
                return self.probe_call(what, "create_data_frame('second', col_names=%r, data=<%d rows>)" % (names, len(rows)),
                                       lambda: self.blk.create_data_frame("second", "t", col_names=names, data=typed))
            return self.probe_call(what, "create_data_frame('second', col_names=%r, col_dtypes=...)" % (names,),
                                   lambda: self.blk.create_data_frame("second", "t", col_names=names, col_dtypes=tys,
                                                                      data=rows or None))
        raise ValueError("unknown probe " + what)


def run_case(case, ctx):
    run = Run(case, ctx)
    if os.path.exists(run.path):
        os.remove(run.path)
    abandoned = False
    try:
        try:
            run.create()
            for op in case["prog"]:
                run.step(op)
            run.trace.append("final close + reopen")
            run.close()
            run.open("r")
            run.fetch()
            run.check_state("reopen-read-only<-")
        except Abandon:
            abandoned = True
    finally:
        run.close()
        try:
            os.remove(run.path)
        except OSError:
            pass
    cols = case["cols"]
    classes = ["how:" + case["how"], "ncols:%d" % len(cols), "rows0:%d" % len(case["rows"]),
               "abandoned:%s" % abandoned, "handles:" + case.get("handles", "single")]
    classes += ["type:" + t for t in sorted(set(c[1] for c in cols))]
    if any(any(ord(ch) > 127 for ch in c[0]) for c in cols):
        classes.append("name:non-ascii")
    if any(" " in c[0] for c in cols):
        classes.append("name:blank")
    classes += sorted(run.classes)
    for k, n in run.stats.items():
        ctx.count(k, n)
    ctx.case(case, run.nontrivial and not abandoned, classes,
             sample={"cols": cols, "how": case["how"], "rows0": len(case["rows"]),
                     "prog": [o["op"] if o["op"] != "probe" else "probe." + o["what"] for o in case["prog"]]})


# ------------------------------------------------------------------ domain / generation

PROBES = ["len_write_column", "len_append_column", "unknown_write_column", "unknown_write_cell", "oob_write_rows",
          "oob_write_cell_pos", "oob_write_cell_name", "dup_append_column", "dup_create",
          "badrow_write_rows", "badrow_append_rows", "text_write_rows", "count_write_rows", "unordered_write_rows",
          "unstorable_append_column", "unstorable_append_column", "unstorable_append_rows", "unstorable_write_rows",
          "unstorable_write_cell"]


def _isint(x):
    return isinstance(x, int) and not isinstance(x, bool)


def _atoms(lst, lo=1):
    return isinstance(lst, list) and len(lst) >= lo and all(_isint(a) and 0 <= a < 100000 for a in lst)


def _name(s):
    return isinstance(s, str) and 0 < len(s) <= 40 and "\x00" not in s


def valid_op(o):
    k = o.get("op")
    if k == "append_rows":
        return isinstance(o.get("rows"), list) and 1 <= len(o["rows"]) <= 4 and all(_atoms(r) for r in o["rows"])
    if k == "append_column":
        return _name(o.get("name")) and o.get("type") in TYPES and isinstance(o.get("dt"), bool) and \
            (o["dt"] or o["type"] in BASE_TYPES) and _atoms(o.get("vals"))
    if k == "write_rows":
        return isinstance(o.get("idx"), list) and o["idx"] and all(_isint(i) for i in o["idx"]) and \
            isinstance(o.get("rows"), list) and o["rows"] and all(_atoms(r) for r in o["rows"])
    if k == "write_column":
        return o.get("by") in ("index", "name") and _isint(o.get("col")) and _atoms(o.get("vals"))
    if k == "write_cell":
        return o.get("form") in ("pos", "name", "name_int") and _isint(o.get("row")) and _isint(o.get("col")) and \
            _atoms([o.get("val")])
    if k == "units":
        return o.get("u") is None or _atoms(o.get("u"))
    if k == "reopen":
        return True
    if k == "read_all":
        return True
    if k == "read_rows":
        return o.get("form") in ("int", "list") and isinstance(o.get("idx"), list) and o["idx"] and \
            all(_isint(i) for i in o["idx"])
    if k == "read_columns":
        s = o.get("slc")
        return o.get("by") in ("index", "name", "name_str") and isinstance(o.get("cols"), list) and o["cols"] and \
            all(_isint(i) for i in o["cols"]) and \
            (s is None or (isinstance(s, list) and len(s) == 3 and _isint(s[0]) and _isint(s[1]) and s[2] in (None, 1, 2)))
    if k == "read_cell":
        return o.get("form") in ("pos", "name", "name_list") and _isint(o.get("row")) and _isint(o.get("col"))
    if k == "probe":
        return o.get("what") in PROBES and _isint(o.get("col")) and _isint(o.get("row")) and _isint(o.get("d")) and \
            o["d"] >= 0 and _atoms([o.get("k")]) and isinstance(o.get("idx"), list) and all(_isint(i) for i in o["idx"])
    return False


def valid(case):
    try:
        cols = case["cols"]
        if not (isinstance(cols, list) and 1 <= len(cols) <= 6):
            return False
        if not all(isinstance(c, list) and len(c) == 2 and _name(c[0]) and c[1] in TYPES for c in cols):
            return False
        if len(set(c[0] for c in cols)) != len(cols):
            return False
        if case["how"] not in HOWS:
            return False
        rows = case["rows"]
        if not (isinstance(rows, list) and len(rows) <= 6 and all(_atoms(r) for r in rows)):
            return False
        if case["how"] in ("names_data", "structured") and not rows:
            return False
        return isinstance(case["prog"], list) and all(isinstance(o, dict) and valid_op(o) for o in case["prog"])
    except Exception:  # noqa
        return False


ATOM = st.one_of(st.integers(0, 15), st.integers(16, 999))
ADDR = st.one_of(st.just(0), st.just(-1), st.integers(0, 11))
ROW8 = st.lists(ATOM, min_size=8, max_size=8)
NAMES = st.one_of(gen.names(max_size=8), st.sampled_from(["a", "b", "id", "a b", " ", "ü", "name", "0", "f0"]))


def op_strategy():
    append_rows = st.fixed_dictionaries({"op": st.just("append_rows"), "rows": st.lists(ROW8, min_size=1, max_size=3)})
    append_col_dt = st.fixed_dictionaries({"op": st.just("append_column"), "name": NAMES, "type": st.sampled_from(TYPES),
                                           "dt": st.just(True), "vals": st.lists(ATOM, min_size=12, max_size=12)})
    append_col_inf = st.fixed_dictionaries({"op": st.just("append_column"), "name": NAMES,
                                            "type": st.sampled_from(BASE_TYPES), "dt": st.just(False),
                                            "vals": st.lists(ATOM, min_size=12, max_size=12)})
    write_rows = st.fixed_dictionaries({"op": st.just("write_rows"), "idx": st.lists(ADDR, min_size=1, max_size=4),
                                        "neg": st.booleans(), "rows": st.lists(ROW8, min_size=1, max_size=4)})
    write_column = st.fixed_dictionaries({"op": st.just("write_column"), "by": st.sampled_from(["index", "index", "name"]),
                                          "col": ADDR, "vals": st.lists(ATOM, min_size=12, max_size=12)})
    write_cell = st.fixed_dictionaries({"op": st.just("write_cell"), "form": st.sampled_from(["pos", "pos", "name", "name_int"]),
                                        "row": ADDR, "col": ADDR, "val": ATOM})
    units = st.fixed_dictionaries({"op": st.just("units"),
                                   "u": st.tuples(st.integers(0, 6), st.lists(st.integers(0, 7), min_size=8, max_size=8)).map(
                                       lambda t: None if t[0] == 0 else t[1])})
    reopen = st.fixed_dictionaries({"op": st.just("reopen"), "ro": st.booleans()})
    read_all = st.just({"op": "read_all"})
    read_rows = st.fixed_dictionaries({"op": st.just("read_rows"), "form": st.sampled_from(["int", "list"]),
                                       "idx": st.lists(ADDR, min_size=1, max_size=4), "neg": st.booleans()})
    read_columns = st.fixed_dictionaries({
        "op": st.just("read_columns"), "by": st.sampled_from(["index", "index", "name", "name", "name_str"]),
        "cols": st.lists(ADDR, min_size=1, max_size=4),
        "slc": st.one_of(st.none(), st.tuples(st.integers(0, 12), st.integers(0, 12),
                                              st.sampled_from([None, None, 1, 2])).map(list)),
        "group": st.booleans()})
    read_cell = st.fixed_dictionaries({"op": st.just("read_cell"), "form": st.sampled_from(["pos", "pos", "name", "name_list"]),
                                       "row": ADDR, "col": ADDR})
    probe = st.fixed_dictionaries({"op": st.just("probe"), "what": st.sampled_from(PROBES), "col": ADDR, "row": ADDR,
                                   "d": st.integers(0, 7), "k": ATOM, "idx": st.lists(ADDR, min_size=1, max_size=3)})
    return st.one_of(append_rows, append_rows, append_col_dt, append_col_inf, write_rows, write_rows, write_column,
                     write_column, write_cell, write_cell, units, reopen, reopen, read_all, read_rows, read_rows,
                     read_columns, read_columns, read_columns, read_cell, read_cell, probe, probe, probe)


@st.composite
def case_strategy(draw, max_ops=16):
    ncols = draw(st.integers(1, 6))
    names = draw(st.lists(NAMES, min_size=ncols, max_size=ncols, unique=True))
    types = draw(st.lists(st.sampled_from(TYPES), min_size=ncols, max_size=ncols))
    how = draw(st.sampled_from(HOWS))
    nrows = draw(st.integers(1 if how in ("names_data", "structured") else 0, 6))
    rows = draw(st.lists(st.lists(ATOM, min_size=ncols, max_size=ncols), min_size=nrows, max_size=nrows))
    prog = draw(st.lists(op_strategy(), min_size=3, max_size=max_ops))
    return {"cols": [[n, t] for n, t in zip(names, types)], "how": how, "rows": rows, "prog": prog,
            "handles": draw(st.sampled_from(["single", "single", "fresh", "two", "two"])),
            "view": draw(st.booleans())}


def shards(tier, seed):
    n, per, mx = (32, 45, 14) if tier == "quick" else (256, 75, 16)
    return [{"n": per, "max_ops": mx, "seed": seed * 1000 + i} for i in range(n)]


def run_shard(spec, ctx):
    gen.generate(case_strategy(spec["max_ops"]), spec["n"], spec["seed"], lambda c: run_case(c, ctx))


def replay(case, ctx):
    run_case(case, ctx)
