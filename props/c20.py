# -*- coding: utf-8 -*-
"""C20 - copies are complete, independent, and keep their internal links (DESIGN 4/C20)."""
import os
import uuid

import numpy as np
from hypothesis import strategies as st

from vlib import gen, ops, walk
from vlib.interp import CONTAINER, Interp

ID = "C20"
LEVEL = "exploration"
RULE = ("Source content from generated build programs (densely linked two-block prefix + random ops: arrays with "
        "descriptors incl. self links, groups, tags, multi-tags, features, sources, metadata, section trees, "
        "properties) x copied kind in {block, array, frame, tag, multi-tag, section, property} x destination in "
        "{other parent of the same file, same parent with a new name, other file} x keep ids in {True, False} x new "
        "name in {none, given} x (sections) children in {True, False}; refusal probe: destination name already "
        "taken; then 1-5 mutations of either side. Oracle: walk(copy) == walk(source) after replacing the top-level "
        "name when one was given and applying an id map old->new that must be a function, injective and consistent "
        "at every occurrence (owned entities and references), identity for kept ids, fresh well-formed UUIDs "
        "occurring nowhere else in the destination otherwise; internal references of the copy resolve inside the "
        "copy; the returned handle denotes the copy; a refused copy leaves both files' walks unchanged; after each "
        "mutation of one side the other side's walk is unchanged. Non-trivial: source has >= 1 internal link and "
        ">= 2 nesting levels, or the destination is the same file, or ids are regenerated; distinct by case hash.")
ASSUMPTIONS = [
    "timestamps are not part of the compared content (HDF5 copies them; the statement lists attributes, data, "
    "descriptors, children)",
    "link targets outside the copied subtree (e.g. the arrays a copied tag references) are compared through the "
    "API only - HDF5 makes private copies of them, which is not observable",
    "for a non-recursive section copy the expected content is the section with its properties and no subsections",
]

KINDS = ["block", "array", "frame", "tag", "mtag", "section", "prop"]


def idlike(s):
    try:
        return isinstance(s, str) and str(uuid.UUID(s)) == s
    except ValueError:
        return False


def compare_modulo_ids(ws, wc, idmap, path=""):
    """parallel traversal; ids (values of 'id' / 'ref') are collected into idmap instead of compared.
    returns None or (path, a, b)"""
    if type(ws) is not type(wc):
        return (path, ws, wc)
    if isinstance(ws, dict):
        for k in sorted(set(ws) | set(wc)):
            if k not in ws or k not in wc:
                return ("%s/%s" % (path, k), ws.get(k, "<absent>"), wc.get(k, "<absent>"))
            if k in ("id", "ref") and isinstance(ws[k], str) and isinstance(wc[k], str):
                idmap.setdefault(ws[k], set()).add(wc[k])
                continue
            d = compare_modulo_ids(ws[k], wc[k], idmap, "%s/%s" % (path, k))
            if d:
                return d
        return None
    if isinstance(ws, list):
        if len(ws) != len(wc):
            return ("%s[len]" % path, walk._brief(ws), walk._brief(wc))
        for i, (a, b) in enumerate(zip(ws, wc)):
            d = compare_modulo_ids(a, b, idmap, "%s[%d]" % (path, i))
            if d:
                return d
        return None
    return None if ws == wc else (path, ws, wc)


def _strip_seen(node):
    if isinstance(node, dict):
        return {k: _strip_seen(v) for k, v in node.items() if k != "seen"}
    if isinstance(node, list):
        return [_strip_seen(v) for v in node]
    return node


def source_handle(it, src, spec):
    """the handle the copy is made from: from the owning container, or - provenance 'link' - through a link list
    or role link that refers to the entity (a linked handle denotes the same entity, C05)"""
    if spec.get("via") != "link" or src.kind not in ("array", "frame", "tag", "mtag"):
        return it.handle(src)
    paths = []
    for e in it.ents:
        if not e.alive or e is src:
            continue
        for role, lst in e.links.items():
            if src in lst:
                paths.append((e, role, "list"))
        for role, tgt in e.single.items():
            if tgt is src and role in ("positions", "extents"):
                paths.append((e, role, "slot"))
    if not paths:
        return it.handle(src)
    e, role, how = paths[spec.get("t", 0) % len(paths)]
    it.c20_via = "%s.%s" % (e.kind, role)
    if how == "slot":
        return getattr(it.handle(e), role)
    lst = getattr(it.handle(e), role)
    k = spec.get("d", 0) % 3
    if k == 0:
        return lst[src.id]
    if k == 1 and sum(1 for x in e.links[role] if x.name == src.name) == 1:
        return lst[src.name]
    return lst[[x.id for x in lst].index(src.id)]


def do_copy(it, dest_it, src, dest_parent, spec):
    """perform the copy through the public API; returns the handle the API returns"""
    sh = source_handle(it, src, spec)
    name = spec.get("name") or ""
    keep = spec["keep"]
    dh = dest_it.handle(dest_parent) if dest_parent is not dest_it.root else dest_it.f
    k = src.kind
    if k == "block":
        return dest_it.f.create_block(name=name, copy_from=sh, keep_copy_id=keep)
    if k == "array":
        return dh.create_data_array(name=name, copy_from=sh, keep_copy_id=keep)
    if k == "frame":
        return dh.create_data_frame(name=name, copy_from=sh, keep_copy_id=keep)
    if k == "tag":
        return dh.create_tag(name=name, copy_from=sh, keep_copy_id=keep)
    if k == "mtag":
        return dh.create_multi_tag(name=name, copy_from=sh, keep_copy_id=keep)
    if k == "section":
        return dh.copy_section(sh, children=spec.get("children", True), keep_id=keep, name=name)
    if k == "prop":
        return dh.create_property(name=name, copy_from=sh, keep_copy_id=keep)
    raise KeyError(k)


def dest_container(dest_it, dest_parent, kind):
    dh = dest_it.handle(dest_parent) if dest_parent is not dest_it.root else dest_it.f
    return getattr(dh, CONTAINER[kind])


def mutate(h, kind, n):
    """a visible change through handle h"""
    if kind == "prop":
        h.definition = "c20 mutated %d" % n
        return
    if n % 5 >= 3:
        # a change THROUGH a link of the entity (what the copy refers to is the copy's own business as well)
        tgt = None
        try:
            if kind in ("tag", "mtag") and n % 2 and len(h.references):
                tgt = h.references[0]
            elif kind == "mtag":
                tgt = h.positions
            elif kind != "section" and getattr(h, "metadata", None) is not None:
                tgt = h.metadata
        except Exception:  # noqa
            tgt = None
        if tgt is not None:
            tgt.definition = "c20 mutated through a link %d" % n
            return
    which = n % 3
    if which == 0 or kind in ("frame",):
        h.definition = "c20 mutated %d" % n
    elif which == 1:
        h.type = "c20.type.%d" % n
    else:
        if kind == "array" and np.dtype(h.dtype).kind in "if" and int(np.prod(h.shape)) and \
                not h.polynom_coefficients and not h.expansion_origin:
            # (under a calibration the values read are not the values stored: a write need not show)
            h[:] = np.asarray(h[:]) + 1
        elif kind == "block":
            h.create_data_array("c20-new-%d" % n, "t", data=np.arange(3.0))
        elif kind == "section":
            h.create_property("c20-new-%d" % n, [n])
        elif kind == "tag":
            h.position = [float(n), 2.0]
        else:
            h.definition = "c20 mutated b %d" % n


def mutate_delete(h, kind, n):
    """removes something the entity owns (or one of its links); returns False when there is nothing to remove"""
    if kind == "block":
        for cname in (("data_arrays", "tags", "multi_tags", "groups", "data_frames", "sources") * 2)[n % 6:]:
            c = getattr(h, cname)
            if len(c):
                del c[c[n % len(c)].name if n % 2 else n % len(c)]
                return True
        return False
    if kind == "section":
        if len(h.props) and (n % 2 or not len(h.sections)):
            del h.props[n % len(h.props)]
            return True
        if len(h.sections):
            del h.sections[n % len(h.sections)]
            return True
        return False
    if kind in ("tag", "mtag"):
        if len(h.features) and n % 2:
            del h.features[0]
            return True
        if len(h.references):
            del h.references[n % len(h.references)]
            return True
        if len(h.sources):
            del h.sources[0]
            return True
        return False
    if kind == "array":
        if len(h.dimensions):
            h.delete_dimensions()
            return True
        if len(h.sources):
            del h.sources[0]
            return True
        return False
    return False


def link_lists(h, kind):
    """(label, link list) for every link list found in the entity and, for a block, in what it owns"""
    out = []
    if kind == "block":
        for g in h.groups:
            for role in ("data_arrays", "data_frames", "tags", "multi_tags", "sources"):
                out.append(("group." + role, getattr(g, role)))
        for t in h.tags:
            out += [("tag.references", t.references), ("tag.sources", t.sources)]
        for t in h.multi_tags:
            out += [("mtag.references", t.references), ("mtag.sources", t.sources)]
        for a in h.data_arrays:
            out.append(("array.sources", a.sources))
    elif kind in ("tag", "mtag"):
        out += [(kind + ".references", h.references), (kind + ".sources", h.sources)]
    elif kind == "array":
        out.append(("array.sources", h.sources))
    return out


OWNED = {"block": [("data_arrays", "array"), ("data_frames", "frame"), ("tags", "tag"), ("multi_tags", "mtag"),
                   ("groups", "group"), ("sources", "source")],
         "source": [("sources", "source")], "section": [("sections", "section"), ("props", "prop")]}


def owned_containers(h, kind, depth=0):
    """(label, container) for every name-keyed container of the entity and of what it owns"""
    out = []
    for role, ck in OWNED.get(kind, []):
        try:
            cont = getattr(h, role)
            members = list(cont)
        except Exception:  # noqa (the content comparison reports unreadable containers)
            continue
        out.append(("%s.%s" % (kind, role), cont, members))
        if depth < 4:
            for m in members:
                out += owned_containers(m, ck, depth + 1)
    return out


def run_case(case, ctx):
    p1 = os.path.join(ctx.workdir, "c20a.nix")
    p2 = os.path.join(ctx.workdir, "c20b.nix")
    for p in (p1, p2):
        if os.path.exists(p):
            os.remove(p)
    it = Interp(p1)
    other = None
    flags = set()
    nontrivial = False
    try:
        for op in ops.rich_prefix() + (LINK_CHAIN if case.get("chain") else []) + case.get("idlike", []) + case.get("build", []):
            it.step(op)
        pre = case.get("precopy")
        if pre:
            # an id-keeping copy next to its original first: the tree to be copied then holds two entities of one
            # id (legal, it is what the default copy produces) - a fresh-id copy must still give each its own id
            e0 = it.pick(pre["kind"], pre["t"])
            if e0 is not None:
                try:
                    do_copy(it, it, e0, e0.parent, {"keep": True, "name": e0.name + "-dup", "children": True})
                    flags.add("source-holds-an-id-keeping-duplicate:" + pre["kind"])
                    it.positional_ok = False
                except Exception as exc:  # noqa
                    ctx.count("precopy-raised:" + type(exc).__name__)
        spec = case["copy"]
        kind = spec["kind"]
        src = it.pick(kind, spec["t"])
        if src is None:
            ctx.case(case, False, ["no-source"])
            return
        # ---------------- destination
        dest = spec["dest"]
        dest_it = it
        if dest == "other-file":
            other = Interp(p2)
            for op in [{"op": "mk_block", "name": "dest-blk", "type": "t"}, {"op": "mk_section", "p": None, "name": "dest-sec", "type": "t"},
                       {"op": "mk_block", "name": "blk0", "type": "t"}, {"op": "mk_section", "p": None, "name": "meta", "type": "t"}]:
                other.step(op)
            dest_it = other
        if kind == "block":
            dparent = dest_it.root
        elif kind in ("array", "frame", "tag", "mtag"):
            cands = dest_it.alive("block", (lambda b: b is not src.parent) if dest == "other-parent" else
                                  ((lambda b: b is src.parent) if dest == "same-parent" else None))
            dparent = cands[spec.get("d", 0) % len(cands)] if cands else None
        elif kind == "section":
            if dest == "same-parent":
                dparent = src.parent
            else:
                cands = dest_it.alive("section", lambda s: s is not src and s is not src.parent and
                                      src not in _ancestors(s)) if dest_it is it else dest_it.alive("section")
                cands = cands + ([dest_it.root] if (dest_it is not it or src.parent is not it.root) else [])
                dparent = cands[spec.get("d", 0) % len(cands)] if cands else None
        else:  # prop
            cands = dest_it.alive("section", (lambda s: s is not src.parent) if dest == "other-parent" else
                                  ((lambda s: s is src.parent) if dest == "same-parent" else None))
            dparent = cands[spec.get("d", 0) % len(cands)] if cands else None
        if dparent is None:
            ctx.case(case, False, ["no-destination"])
            return
        same_container = (dest_it is it and dparent is src.parent)
        new_name = spec.get("name") or None
        if same_container and not new_name:
            new_name = "c20-copy"          # copying into the own parent needs a new name
        spec = dict(spec, name=new_name)
        exp_name = new_name or src.name
        dcont_names = [c.name for c in dparent.children.get(CONTAINER[kind], [])]
        expect_refusal = exp_name in dcont_names
        flags.update(["kind:" + kind, "dest:" + dest, "keep-ids" if spec["keep"] else "fresh-ids",
                      "renamed" if new_name else "same-name"])
        if kind == "section":
            flags.add("children" if spec.get("children", True) else "no-children")
        it.c20_via = None
        Wsrc_file = walk.walk(it.f, timestamps=False)
        Wdst_file = walk.walk(dest_it.f, timestamps=False) if dest_it is not it else Wsrc_file
        ws = walk.walk_obj(it.handle(src), timestamps=False, seen=True)
        key_cls = "%s/%s/%s" % (kind, dest, "keep-ids" if spec["keep"] else "fresh-ids")
        try:
            ret = do_copy(it, dest_it, src, dparent, spec)
            raised = None
        except Exception as exc:  # noqa
            ret, raised = None, exc
        if getattr(it, "c20_via", None):
            flags.add("source-handle-through-link:" + it.c20_via)
            nontrivial = True
        if expect_refusal:
            flags.add("refusal-probe")
            if raised is None:
                ctx.violation("C20/existing-name-accepted/%s" % key_cls, case, {"name": exp_name})
                return
            for f_, W0, lab in ((it.f, Wsrc_file, "source-file"), (dest_it.f, Wdst_file, "destination-file")):
                d = walk.diff(W0, walk.walk(f_, timestamps=False))
                if d:
                    ctx.violation("C20/refused-copy-changed-%s/%s" % (lab, key_cls), case, {"path": d[0]})
            ctx.case(case, True, sorted(flags))
            return
        if raised is not None:
            ctx.violation("C20/copy-raised/%s" % key_cls, case,
                          {"raised": type(raised).__name__, "msg": str(raised)[:150], "source": src.path()})
            return
        # ---------------- the copy lives in the destination container under the expected name
        cont = dest_container(dest_it, dparent, kind)
        try:
            ch = cont[exp_name]
        except Exception as exc:  # noqa
            ctx.violation("C20/copy-not-found-under-expected-name/%s" % key_cls, case,
                          {"name": exp_name, "raised": type(exc).__name__, "names": [x.name for x in cont][:8]})
            return
        wc = walk.walk_obj(ch, timestamps=False, seen=True)
        # the source is walked again after the copy: what it shows THROUGH its links may legitimately have
        # changed (the destination itself can be a link target of the source and has a new child now); its own
        # content must not have
        sh_ = it.handle(src)
        wsrc = walk.Walker(False, True, True, sh_.id)
        ws_after = wsrc.obj(sh_)
        dest_is_target = dparent is not dest_it.root and dest_it is it and dparent.id in set(walk.refs(ws))
        if dest_is_target:
            # the destination is itself a link target of the source: the copy changes what the source sees
            # through that link, while the copy carries a snapshot of the target taken at some point of the copy
            ws_after, wc = _strip_seen(ws_after), _strip_seen(wc)
            flags.add("destination-is-link-target-of-source:digests-not-compared")
        if wsrc.cyclic:
            # a link chain leads back to the copied entity itself: what is seen through such links names the
            # entity (renamed in the copy) - not comparable, only the plain content is
            ws_after, wc = _strip_seen(ws_after), _strip_seen(wc)
            flags.add("link-cycle-through-source:digests-not-compared")
        d0 = walk.diff(_strip_seen(ws), _strip_seen(ws_after))
        if d0:
            ctx.violation("C20/source-changed-by-copy/%s" % key_cls, case,
                          {"path": d0[0], "before": walk.brief(d0[1], 150), "after": walk.brief(d0[2], 150)})
        ws = ws_after
        ws_exp = dict(ws)
        if new_name:
            ws_exp["name"] = new_name
        if kind == "section" and not spec.get("children", True):
            ws_exp["sections"] = []
        idmap = {}
        d = compare_modulo_ids(ws_exp, wc, idmap)
        if d:
            import re
            ctx.violation("C20/content-differs/%s%s" % (key_cls, re.sub(r"\[\d+\]", "", d[0])), case,
                          {"path": d[0], "source": walk.brief(d[1], 150), "copy": walk.brief(d[2], 150)})
        # id policy
        # the source may itself hold several entities of one id (an id-keeping copy next to its original): each
        # of them gets an id of its own, so one old id may map to as many new ids as entities carried it
        src_mult = {}
        for n_ in walk.entities(ws_exp):
            src_mult[n_["id"]] = src_mult.get(n_["id"], 0) + 1
        multi = {k: sorted(v) for k, v in idmap.items() if len(v) > max(1, src_mult.get(k, 1))}
        if multi and not any(f.startswith("source-holds-an-id-keeping-duplicate") for f in flags):
            # (with an id-keeping duplicate in the source, private copies of link targets share ids as well: which
            # new id a reference maps to then depends on whose private copy it is - only uniqueness is required)
            ctx.violation("C20/id-map-not-a-function/%s" % key_cls, case, {"ids": list(multi.items())[:3]})
        flat = {k: next(iter(v)) for k, v in idmap.items() if len(v) == 1}
        if len(set(flat.values())) != len(flat):
            ctx.violation("C20/id-map-not-injective/%s" % key_cls, case, {})
        if spec["keep"]:
            changed = {k: v for k, v in flat.items() if k != v}
            if changed:
                ctx.violation("C20/ids-not-kept/%s" % key_cls, case, {"changed": list(changed.items())[:3]})
        else:
            same = [k for k, v in flat.items() if k == v]
            if same:
                ctx.violation("C20/ids-not-regenerated/%s" % key_cls, case, {"unchanged": same[:4], "of": len(flat)})
            bad = [v for v in flat.values() if not idlike(v)]
            if bad:
                ctx.violation("C20/new-id-not-a-uuid/%s" % key_cls, case, {"ids": bad[:3]})
            # fresh ids occur nowhere else in the destination file
            Wd = walk.walk(dest_it.f, timestamps=False)
            owned = {}
            for n in walk.entities(Wd):
                owned[n["id"]] = owned.get(n["id"], 0) + 1
            copy_owned = {n["id"] for n in walk.entities(wc)}
            dup = [i for i in copy_owned if owned.get(i, 0) > 1]
            if dup:
                ctx.violation("C20/new-id-not-unique-in-destination/%s" % key_cls, case, {"ids": dup[:3]})
        # internal references resolve inside the copy
        src_owned = {n["id"] for n in walk.entities(ws_exp)}
        internal = [r for r in walk.refs(ws_exp) if r in src_owned]
        copy_owned = {n["id"] for n in walk.entities(wc)}
        for r in internal:
            m = flat.get(r)
            if m is not None and m not in copy_owned:
                ctx.violation("C20/internal-link-leaves-copy/%s" % key_cls, case, {"source_ref": r, "copy_ref": m})
        depth2 = any(isinstance(v, list) and any(isinstance(x, dict) and "id" in x for x in v) for v in ws_exp.values())
        if (internal and depth2) or dest_it is it or not spec["keep"]:
            nontrivial = True
        if internal:
            flags.add("internal-links")
        # ---------------- the link lists of the copy answer for their members like any link list (by id, by object)
        nlists = 0
        for label, lst in link_lists(ch, kind):
            try:
                members = list(lst)
            except Exception:  # noqa  (a list that cannot be iterated is the content comparison's business)
                continue
            for m in members:
                nlists += 1
                probs = []
                try:
                    if m.id not in lst:
                        probs.append("id-not-in-list")
                    if m not in lst:
                        probs.append("member-not-in-list")
                    if lst[m.id].id != m.id:
                        probs.append("lookup-by-id-gives-another")
                except KeyError:
                    probs.append("lookup-by-id-fails")
                except Exception as exc:  # noqa
                    probs.append("lookup-raised-" + type(exc).__name__)
                if probs:
                    ctx.violation("C20/copy-link-list-disagrees-with-its-members/%s/%s" % (key_cls, label), case,
                                  {"member": [m.name, m.id], "problems": probs})
                    break
        if nlists:
            flags.add("copy-link-lists-probed")
        # ---------------- ... and what the copy owns is found under its name
        for label, cont, members in owned_containers(ch, kind):
            names = [m.name for m in members]
            for m in members:
                if names.count(m.name) != 1:
                    continue
                probs = []
                try:
                    if m.name not in cont:
                        probs.append("name-not-in-container")
                    if cont[m.name].id != m.id:
                        probs.append("lookup-by-name-gives-another")
                    if cont[m.id].id != m.id:
                        probs.append("lookup-by-id-gives-another")
                except KeyError:
                    probs.append("lookup-fails")
                except Exception as exc:  # noqa
                    probs.append("lookup-raised-" + type(exc).__name__)
                if idlike(m.name):
                    flags.add("copy-holds-a-child-with-an-id-like-name")
                if probs:
                    ctx.violation("C20/copy-container-disagrees-with-its-members/%s/%s%s" % (
                        key_cls, label, "/id-like-name" if idlike(m.name) else ""), case,
                        {"member": [m.name, m.id], "problems": probs})
                    break
        # ---------------- returned handle denotes the copy
        same_parent_cls = "same-parent" if same_container else "other-container"
        try:
            rid, rname = ret.id, ret.name
        except Exception as exc:  # noqa
            rid = rname = "raised:" + type(exc).__name__
        if rname != exp_name or rid != ch.id:
            ctx.violation("C20/returned-handle/%s/%s/%s" % (kind, same_parent_cls, "keep-ids" if spec["keep"] else "fresh-ids"),
                          case, {"returned": [rname, rid], "copy": [exp_name, ch.id]})
        # ---------------- independence
        for j, side in enumerate(case.get("mutations", [])):
            Ws0 = walk.walk_obj(it.handle(src), timestamps=False, seen=True)
            Wc0 = walk.walk_obj(dest_container(dest_it, dparent, kind)[exp_name], timestamps=False, seen=True)
            n_ = j + spec.get("d", 0) + spec.get("t", 0)
            try:
                if side in ("copy-del", "source-del"):
                    hdel = dest_container(dest_it, dparent, kind)[exp_name] if side == "copy-del" else it.handle(src)
                    if not mutate_delete(hdel, kind, n_):
                        ctx.count("nothing-to-delete")
                        continue
                    it.positional_ok = False
                elif side == "copy":
                    mutate(dest_container(dest_it, dparent, kind)[exp_name], kind, j + spec.get("d", 0) + spec.get("t", 0))
                elif side == "returned":
                    mutate(ret, kind, j + spec.get("d", 0) + spec.get("t", 0))
                else:
                    mutate(it.handle(src), kind, j + spec.get("d", 0) + spec.get("t", 0))
            except Exception as exc:  # noqa
                ctx.count("mutation-raised:" + type(exc).__name__)
                continue
            Ws1 = walk.walk_obj(it.handle(src), timestamps=False, seen=True)
            Wc1 = walk.walk_obj(dest_container(dest_it, dparent, kind)[exp_name], timestamps=False, seen=True)
            flags.add("mutate:" + side)
            if side in ("source", "source-del"):
                dd = walk.diff(Wc0, Wc1)
                if dd:
                    ctx.violation("C20/not-independent/%s-visible-in-copy/%s" % ("source-change" if side == "source" else "delete-in-source", key_cls),
                                  case, {"path": dd[0]})
                if not walk.diff(Ws0, Ws1):
                    ctx.count("mutation-invisible")
            else:
                dd = walk.diff(Ws0, Ws1)
                if dd:
                    ctx.violation("C20/not-independent/%s-change-visible-in-source/%s/%s" % (side, key_cls, same_parent_cls),
                                  case, {"path": dd[0]})
                if not walk.diff(Wc0, Wc1):
                    ctx.violation("C20/mutation-through-%s-handle-not-in-copy/%s/%s" % (side, key_cls, same_parent_cls), case, {})
    finally:
        it.close()
        if other is not None:
            other.close()
        for p in (p1, p2):
            try:
                os.remove(p)
            except OSError:
                pass
    ctx.case(case, nontrivial, sorted(flags))


def _ancestors(e):
    out = []
    while e is not None:
        out.append(e)
        e = e.parent
    return out


BUILD = ["mk_section", "mk_prop", "mk_prop", "mk_group", "mk_array_ul", "mk_array", "mk_frame", "mk_tag", "mk_mtag",
         "mk_source", "mk_feature", "mk_dim_range", "mk_dim_set", "mk_dim_sampled", "mk_dim_self", "dim_link", "link",
         "link", "set_meta", "set_definition", "set_array", "set_tag", "set_prop", "sec_link", "sec_link"]


U1, U2 = "6c2b6a52-9a2f-4d4b-8a3e-0d8f6f1c2a11", "0f8fad5b-d9cb-469f-a165-70867728950e"
# children whose NAME looks like an id (legal free text), in the places copies are taken from
IDLIKE_CHILDREN = [
    {"op": "mk_array", "name": U1, "shape": [3], "fill": "ramp", "blk": 0, "seed": 1, "type": "t", "how": "name",
     "dtype": "float64", "via": "data"},
    {"op": "mk_tag", "name": U2, "blk": 0, "how": "name", "pos": [1.0], "type": "t"},
    {"op": "mk_section", "p": 0, "name": U1, "type": "t", "how": "name"},
    {"op": "mk_prop", "how": "name", "name": U2, "sec": 0, "vals": [1, 2]},
    {"op": "mk_source", "how": "name", "p": 0, "type": "t", "blk": 0, "name": U2},
]


# a chain of section links: meta/sub/subsub --link--> other/sub (rich prefix) --link--> vendor (with a property of its own)
LINK_CHAIN = [{"op": "mk_section", "p": None, "name": "vendor", "type": "t"},
              {"op": "mk_prop", "sec": 5, "name": "vp", "vals": [7, 8]},
              {"op": "sec_link", "t": 4, "target": 4}]


def case_strategy():
    copy = st.fixed_dictionaries({
        "kind": st.sampled_from(KINDS + ["block", "section", "array"]), "t": ops.IDX, "d": ops.IDX,
        "dest": st.sampled_from(["other-parent", "same-parent", "other-file"]),
        "keep": st.booleans(), "name": st.sampled_from([None, None, "copied", "ü copy", "sig", "meta", "tag", "blk0"]),
        "children": st.booleans(), "via": st.sampled_from(["owner", "owner", "link"])})
    return st.fixed_dictionaries({
        "chain": st.sampled_from([True, True, False]),
        "idlike": st.lists(st.sampled_from(IDLIKE_CHILDREN), max_size=2, unique_by=lambda o: o["op"]),
        "build": ops.program(BUILD, min_size=0, max_size=12, name_pool=["sig", "sub", "p1", "6c2b6a52-9a2f-4d4b-8a3e-0d8f6f1c2a11",
                                                                                "0f8fad5b-d9cb-469f-a165-70867728950e"]),
        "copy": copy,
        "mutations": st.lists(st.sampled_from(["copy", "source", "returned", "copy-del", "source-del"]), min_size=1, max_size=5),
        "precopy": st.one_of(st.none(), st.none(), st.fixed_dictionaries({
            "kind": st.sampled_from(["array", "tag", "frame", "section", "prop", "mtag"]), "t": ops.IDX}))})


def shards(tier, seed):
    n, per = (16, 30) if tier == "quick" else (64, 80)
    return [{"n": per, "seed": seed * 1000 + i} for i in range(n)]


def run_shard(spec, ctx):
    gen.generate(case_strategy(), spec["n"], spec["seed"], lambda c: run_case(c, ctx))


def replay(case, ctx):
    run_case(case, ctx)


def valid(case):
    try:
        c = case["copy"]
        return c["kind"] in KINDS and c["dest"] in ("other-parent", "same-parent", "other-file") and \
            isinstance(c["keep"], bool) and (c.get("name") is None or (isinstance(c["name"], str) and c["name"] and "/" not in c["name"]))
    except Exception:  # noqa
        return False
