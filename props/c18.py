# -*- coding: utf-8 -*-
"""
C18 - format upgrade preserves content, is idempotent and resumable after interruption (DESIGN 4/C18).

Pipeline of one generated *file case* ``{"recipe": ..., "down": ...}``:

  recipe --(nixio API)--> cur.nix (current format)          walk W0, checked against the recipe
         --(raw h5py downgrade, this module)--> old.nix      checked: reads back the recipe read-only
         --(file_upgrade)--> up.nix                          (2) content / version / tasks / extras
         --(file_upgrade again)-->                           (4) True, SHA-256 unchanged
  for every k in 1..n+1 and resume in {fresh, stale}:
         old.nix copy --(file_upgrade, k-th write-open raises)--> still old, read-write refused
                      --(resume)--> equal to up.nix modulo fresh ids / timestamps          (3)

One *case* (what is counted, hashed, replayed) is the file case plus ``k`` (0 = only the checks without
interruption) plus ``resume`` plus ``exc``.
"""
import contextlib
import hashlib
import io
import os
import re
import shutil
import uuid

import h5py
import numpy as np
from hypothesis import strategies as st

from vlib import gen, walk

ID = "C18"
LEVEL = "fault_enumeration"
RULE = ("Hypothesis-generated recipes (0-3 top-level sections, nesting <= 3, 0-4 properties each of value "
        "type int/float/str/bool incl. empty value lists, non-ASCII strings, int64 bounds, units, "
        "definitions; 0-2 blocks with 1-D arrays described by a self-referencing range descriptor and "
        "other 1-D/2-D arrays with range/sampled/set descriptors, a group and a tag) are built through the "
        "nixio API, then rewritten with raw h5py into the old layout: header version in {1.0.0, 1.1.0, 1.1.1, "
        "1.2.0}, below 1.1.1 every property dataset as the old compound type with generated per-value "
        "uncertainty (all zero / one common / several distinct) and reference/filename/encoder/checksum "
        "(absent / all / some), self-links as old alias hard links, file id kept / removed / invalid. "
        "Oracles: recipe model (values, units, definitions, data, ticks = data, unit/label) against the "
        "read-only walk of the old file, the walk after upgrade and raw h5py inspection; walk-to-walk "
        "equality before/after with properties as a name-keyed map; every per-value extra that was set "
        "must be retrievable as a <name>.<extra> companion property holding the generated per-value list "
        "or (one common uncertainty) as the uncertainty attribute. Interruption: the k-th write-open of "
        "nixio.cmd.upgrade raises, for EVERY k in 1..n+1 (n = write-opens of the uninterrupted run), "
        "resumed by a fresh file_upgrade (every k) and by a task list collected before the interruption "
        "(every k if n <= 6, else k in {1, 2, mid, n-1, n, n+1}); plus upgrade of the upgraded and of the "
        "never-downgraded file (True, SHA-256 unchanged). "
        "Non-trivial: >= 2 old properties or >= 1 alias descriptor, and 1 < k <= n; distinct by case hash.")
ASSUMPTIONS = [
    "the old layout is synthesised from the readers in nixio (property.py:149-172,232-244; "
    "dimensions.py:551-580) and the detectors in cmd/upgrade.py: compound property dataset (value, "
    "uncertainty f8, reference, filename, encoder, checksum as variable-length UTF-8 strings), alias "
    "range dimension = dimension group with dimension_type 'range' and one hard link <array id> to the "
    "array group; no genuine pre-1.1.1 file was available",
    "header versions 1.1.1 and 1.2.0 keep new-style properties (only alias descriptors / file id / "
    "version are old there)",
    "a file of version 1.2.0 without a valid id cannot be opened read-only (file.py:165-168), so the "
    "pre-upgrade read check is skipped for that combination",
    "property names never end in .uncertainty/.reference/.filename/.encoder/.checksum of a sibling "
    "(a clash with a companion property name is outside the generated domain)",
    "definitions are None or non-empty; units are already sanitised spellings; per-value uncertainties "
    "are finite and >= 0; no NaN/inf property values (JSON cases)",
    "interruption is modelled as an exception (file_upgrade returns False) or a BaseException (process "
    "kill; propagates) raised by the k-th h5py.File(..., mode != 'r') of nixio.cmd.upgrade, i.e. "
    "between conversion steps; interruption inside a step is not generated",
    "the state of a half-upgraded file as seen by a read-only open is unspecified and not checked",
    "upgraded properties legitimately get new ids / timestamps / position, the new dimension link a new "
    "id, a file without valid id a new one; extras that were never set (all-zero uncertainty, all-empty "
    "strings) need not be represented after the upgrade",
    "processing a task list that was collected before another run converted (part of) the file must "
    "be harmless (upgrade.py:64-68,169-173 re-check per object: 'file may have been submitted twice')",
]

VERSIONS = [[1, 0, 0], [1, 1, 0], [1, 1, 1], [1, 2, 0]]
EXTRAS = ["reference", "filename", "encoder", "checksum"]
STR = h5py.string_dtype(encoding="utf-8")
VT_NP = {"int": np.dtype("<i8"), "float": np.dtype("<f8"), "bool": np.dtype("?"), "str": STR}
UNITS = [None, "mV", "s", "uA", "Hz", "kg"]
RAW_UNITS = ["\u00b5m", "\u03bcV", "mum/s", "m V", "uV / Hz", "\u00b5V/Hz", " s"]


def _nix():
    import nixio
    return nixio


def _upg():
    from nixio.cmd import upgrade
    return upgrade


# ====================================================================== recipe helpers (model side)

def iter_sections(recipe):
    """yields (path tuple of names, section recipe), parents first"""
    def rec(lst, pre):
        for s in lst:
            p = pre + (s["name"],)
            yield p, s
            for r in rec(s.get("subs", []), p):
                yield r
    return rec(recipe.get("secs", []), ())


def cyc(pattern, n, default):
    if not pattern:
        return [default] * n
    return [pattern[i % len(pattern)] for i in range(n)]


def prop_extras(p):
    """per-value extras of an old-style property, realised from the cyclic patterns of the recipe"""
    n = len(p["vals"])
    out = {"uncertainty": [float(x) for x in cyc(p.get("unc"), n, 0.0)]}
    for e in EXTRAS:
        out[e] = cyc(p.get(e), n, "")
    return out


def unc_mode(unc):
    if len(set(unc)) > 1:
        return "distinct"
    if any(unc):
        return "common"
    return "zero"


def cvals(p, placeholder=False):
    if p["vt"] == "float":
        return [walk.cfloat(v) for v in p["vals"]]
    if placeholder and p["vt"] == "int":
        return [walk.cval(v if v < 2 ** 63 else v - 2 ** 64) for v in p["vals"]]
    return [walk.cval(v) for v in p["vals"]]


def arr_np(a):
    return np.array(a["data"], dtype=np.dtype(a["dt"]))


def mask_store(normed, recipe):
    """element type and values of old properties kept in another integer width: the never-downgraded file is no
    reference for them (the recipe model is)"""
    secs = section_nodes(normed)
    for spath, s in iter_sections(recipe):
        for p in s.get("props", []):
            if p.get("store") and p["store"] != "<i8":
                props = secs.get("/".join(spath), {}).get("props")
                if isinstance(props, dict) and p["name"] in props:
                    props[p["name"]]["data_type"] = None
                    props[p["name"]]["values"] = None
    return normed


def expect_model(recipe, placeholder=False):
    """the recipe as the projection ``project()`` extracts from a walk"""
    secs = {}
    for path, s in iter_sections(recipe):
        secs["/".join(path)] = {
            "type": s["type"], "definition": s.get("def"),
            "props": {p["name"]: {"values": cvals(p, placeholder), "unit": p.get("raw_unit", p.get("unit")), "definition": p.get("def")}
                      for p in s.get("props", [])}}
    arrays = {}
    for b in recipe.get("blocks", []):
        for a in b.get("arrays", []):
            data = arr_np(a)
            flat = [walk.cval(x) for x in data.ravel().tolist()]
            dims = []
            if a["dims"] == "self":
                dims.append({"t": "range", "ticks": flat, "unit": a.get("unit"), "label": a.get("label")})
            else:
                for d in a["dims"]:
                    if d["t"] == "range":
                        dims.append({"t": "range", "ticks": [walk.cfloat(x) for x in d["ticks"]],
                                     "unit": d.get("unit"), "label": d.get("label")})
                    elif d["t"] == "sample":
                        dims.append({"t": "sample", "interval": walk.cfloat(d["interval"]),
                                     "offset": None if d.get("offset") is None else walk.cfloat(d["offset"]),
                                     "unit": d.get("unit"), "label": d.get("label")})
                    else:
                        dims.append({"t": "set", "labels": list(d["labels"])})
            arrays[b["name"] + "/" + a["name"]] = {
                "shape": list(data.shape), "data": flat, "unit": a.get("unit"), "label": a.get("label"),
                "type": a["type"], "dims": dims}
    return {"secs": secs, "arrays": arrays,
            "blocks": [b["name"] for b in recipe.get("blocks", [])]}


def project(W, companions=()):
    """the same projection taken from a canonical walk (companion property names are left out)"""
    secs = {}

    def rec(lst, pre):
        for s in lst:
            p = pre + (s["name"],)
            secs["/".join(p)] = {
                "type": s.get("type"), "definition": s.get("definition"),
                "props": {q["name"]: {"values": q.get("values"), "unit": q.get("unit"),
                                      "definition": q.get("definition")}
                          for q in s.get("props", []) if ("/".join(p), q["name"]) not in companions}}
            rec(s.get("sections", []), p)
    rec(W.get("sections", []), ())
    arrays = {}
    for b in W.get("blocks", []):
        for a in b.get("data_arrays", []):
            dims = []
            for d in a.get("dimensions", []):
                t = d.get("dimension_type")
                if t == "range":
                    dims.append({"t": "range", "ticks": d.get("ticks"), "unit": d.get("unit"),
                                 "label": d.get("label")})
                elif t == "sample":
                    dims.append({"t": "sample", "interval": d.get("sampling_interval"),
                                 "offset": d.get("offset"), "unit": d.get("unit"), "label": d.get("label")})
                else:
                    dims.append({"t": "set", "labels": d.get("labels")})
            pl = a.get("payload", {})
            arrays[b["name"] + "/" + a["name"]] = {
                "shape": pl.get("shape"), "data": pl.get("values"), "unit": a.get("unit"),
                "label": a.get("label"), "type": a.get("type"), "dims": dims}
    return {"secs": secs, "arrays": arrays, "blocks": [b["name"] for b in W.get("blocks", [])]}


def keyify(path):
    path = re.sub(r"/props/[^/]*", "/props", path)       # name-keyed map: the name is not a class
    return re.sub(r"\[\d+\]", "", path) or "/"


def vt_of_prop(recipe, secpath, name):
    for path, s in iter_sections(recipe):
        if "/".join(path) == secpath:
            for p in s.get("props", []):
                if p["name"] == name:
                    return p["vt"] + (":empty" if not p["vals"] else "")
    return "?"


def model_diff_key(recipe, d):
    """finding-key suffix for a difference found by walk.diff between two projections"""
    path = d[0]
    m = re.match(r"^/secs/(.*)/props/([^/]*)(?:/(values|unit|definition))?", path)
    if m:
        field = m.group(3) or "presence"
        return "prop.%s/%s" % (field, vt_of_prop(recipe, m.group(1), m.group(2)))
    if path.startswith("/secs/"):
        return "section"
    m = re.match(r"^/arrays/(.*?)/(dims|data|shape|unit|label|type)", path)
    if m:
        return "array." + m.group(2)
    return keyify(path).strip("/").split("/")[0] or "root"


# ====================================================================== build (nixio API)

def build(path, recipe):
    nixio = _nix()
    DT = nixio.DataType
    empty_dt = {"int": DT.Int64, "float": DT.Double, "str": DT.String, "bool": DT.Bool}
    f = nixio.File.open(path, nixio.FileMode.Overwrite)
    try:
        flat = []

        def mk(parent, s):
            sec = parent.create_section(s["name"], s["type"])
            if s.get("def") is not None:
                sec.definition = s["def"]
            flat.append(sec)
            for p in s.get("props", []):
                if p["vals"]:
                    vals = [float(v) for v in p["vals"]] if p["vt"] == "float" else list(p["vals"])
                    if p["vt"] == "int":
                        vals = [v if v < 2 ** 63 else v - 2 ** 64 for v in vals]   # placeholder, see store_range()
                    prop = sec.create_property(p["name"], vals)
                else:
                    prop = sec.create_property(p["name"], empty_dt[p["vt"]])
                if p.get("unit") is not None:
                    prop.unit = p["unit"]
                if p.get("def") is not None:
                    prop.definition = p["def"]
            for sub in s.get("subs", []):
                mk(sec, sub)
        for s in recipe.get("secs", []):
            mk(f, s)
        for b in recipe.get("blocks", []):
            blk = f.create_block(b["name"], b["type"])
            if b.get("md") is not None and flat:
                blk.metadata = flat[b["md"] % len(flat)]
            das = []
            for a in b.get("arrays", []):
                da = blk.create_data_array(a["name"], a["type"], data=arr_np(a))
                if a.get("unit") is not None:
                    da.unit = a["unit"]
                if a.get("label") is not None:
                    da.label = a["label"]
                if a["dims"] == "self":
                    da.append_range_dimension_using_self()
                else:
                    for d in a["dims"]:
                        if d["t"] == "range":
                            da.append_range_dimension(ticks=[float(x) for x in d["ticks"]],
                                                      label=d.get("label"), unit=d.get("unit"))
                        elif d["t"] == "sample":
                            da.append_sampled_dimension(float(d["interval"]), label=d.get("label"),
                                                        unit=d.get("unit"), offset=d.get("offset"))
                        else:
                            da.append_set_dimension(labels=list(d["labels"]))
                if a.get("md") is not None and flat:
                    da.metadata = flat[a["md"] % len(flat)]
                das.append(da)
            if b.get("group") and das:
                g = blk.create_group("grp", "t")
                for da in das[::2]:
                    g.data_arrays.append(da)
            if b.get("tag") and das:
                t = blk.create_tag("tag", "t", [0.0])
                t.references.append(das[-1])
    finally:
        f.close()


# ====================================================================== downgrade (raw h5py)

def sec_h5path(path):
    return "/metadata/" + "/sections/".join(path)


STORE_INT = {"<i8": (-2 ** 63, 2 ** 63 - 1), "<i4": (-2 ** 31, 2 ** 31 - 1), "<i2": (-2 ** 15, 2 ** 15 - 1),
             "<i1": (-128, 127), "<u1": (0, 255), "<u2": (0, 2 ** 16 - 1), "<u4": (0, 2 ** 32 - 1), "<u8": (0, 2 ** 64 - 1)}


def store_range(p):
    """value range of the element type an OLD file holds the values in (other writers used every integer width)"""
    return STORE_INT.get(p.get("store") or "<i8")


def old_dtype(vt, store=None):
    if vt == "int" and store:
        return np.dtype([("value", np.dtype(store)), ("uncertainty", "<f8"), ("reference", STR),
                         ("filename", STR), ("encoder", STR), ("checksum", STR)])
    return np.dtype([("value", VT_NP[vt]), ("uncertainty", "<f8"), ("reference", STR),
                     ("filename", STR), ("encoder", STR), ("checksum", STR)])


def alias_arrays(recipe):
    return [(b["name"], a["name"]) for b in recipe.get("blocks", []) for a in b.get("arrays", [])
            if a["dims"] == "self"]


def old_props(recipe, down):
    if tuple(down["ver"]) >= (1, 1, 1):
        return []
    return [(path, p) for path, s in iter_sections(recipe) for p in s.get("props", [])]


def apply_raw_units(path, recipe):
    """units as other writers spelled them (micro signs, blanks, 'mu'): this library's setter would clean them up,
    a file may hold them all the same - they have to read as they are, before and after an upgrade"""
    with h5py.File(path, "a") as h:
        for spath, s_ in iter_sections(recipe):
            for p in s_.get("props", []):
                if p.get("raw_unit"):
                    h[sec_h5path(spath) + "/properties"][p["name"]].attrs["unit"] = p["raw_unit"]


def downgrade(path, recipe, down):
    """rewrite a current-format file in place into the old layout described by ``down``"""
    ver = tuple(down["ver"])
    with h5py.File(path, "a") as h:
        for spath, p in old_props(recipe, down):
            grp = h[sec_h5path(spath) + "/properties"]
            dset = grp[p["name"]]
            attrs = [(k, dset.attrs[k]) for k in dset.attrs]
            del grp[p["name"]]
            n = len(p["vals"])
            ex = prop_extras(p)
            dt = old_dtype(p["vt"], p.get("store"))
            new = grp.create_dataset(p["name"], shape=(n,), maxshape=(None,), chunks=True, dtype=dt)
            if n:
                vals = [float(v) for v in p["vals"]] if p["vt"] == "float" else p["vals"]
                rows = np.empty(n, dtype=dt)
                for i in range(n):
                    rows[i] = (vals[i], ex["uncertainty"][i], ex["reference"][i], ex["filename"][i],
                               ex["encoder"][i], ex["checksum"][i])
                new[:] = rows
            for k, v in attrs:
                new.attrs[k] = v
        for bname, aname in alias_arrays(recipe):
            da = h["/data/%s/data_arrays/%s" % (bname, aname)]
            dim = da["dimensions"]["1"]
            del dim["link"]
            dim[da.attrs["entity_id"]] = da          # hard link = old alias
        h.attrs["version"] = np.array(ver, dtype=np.int32)
        if down["id"] == "remove":
            del h.attrs["id"]
        elif down["id"] == "invalid":
            h.attrs["id"] = down.get("badid", "")


# ====================================================================== raw inspection (h5py only)

def raw_state(path):
    """what is still old in the file, by raw h5py: version, id validity, compound props, alias dims"""
    out = {"compound": [], "alias": []}
    with h5py.File(path, "r") as h:
        out["version"] = [int(x) for x in h.attrs["version"]]
        fid = h.attrs.get("id")
        if isinstance(fid, bytes):
            fid = fid.decode()
        out["id"] = fid
        try:
            uuid.UUID(str(fid))
            out["id_valid"] = bool(fid)
        except (ValueError, TypeError):
            out["id_valid"] = False

        def visit(name, obj):
            if isinstance(obj, h5py.Dataset) and obj.dtype.names:
                out["compound"].append(obj.name)
        if "metadata" in h:
            h["metadata"].visititems(visit)
        for blk in h["data"].values() if "data" in h else []:
            if "data_arrays" not in blk:
                continue
            for da in blk["data_arrays"].values():
                if "dimensions" not in da:
                    continue
                for dim in da["dimensions"].values():
                    if "link" not in dim and "ticks" not in dim and da.attrs["entity_id"] in dim:
                        out["alias"].append(dim.name)
    out["compound"].sort()
    out["alias"].sort()
    return out


def stuck_class(recipe, state, lib_ver):
    """input class of the first object an upgrade did not get past (derived from file state)"""
    if state["compound"]:
        m = re.match(r"^/metadata/(.*)/properties/([^/]*)$", state["compound"][0])
        if m:
            sp = m.group(1).replace("/sections/", "/")
            return "prop/" + vt_of_prop(recipe, sp, m.group(2))
        return "prop/?"
    if state["alias"]:
        return "alias"
    if not state["id_valid"]:
        return "file-id"
    if state["version"] != list(lib_ver):
        return "version"
    return "nothing-left"


def sha256(path):
    h = hashlib.sha256()
    with open(path, "rb") as fh:
        for chunk in iter(lambda: fh.read(1 << 20), b""):
            h.update(chunk)
    return h.hexdigest()


# ====================================================================== interruption shim

class Interrupt(Exception):
    """simulated failure of a write-open (file_upgrade documents: returns False)"""


class Kill(BaseException):
    """simulated process kill at a write-open (not caught by ``except Exception``)"""


class H5Shim:
    """stands in for the ``h5py`` module inside nixio.cmd.upgrade; counts write-opens"""

    def __init__(self, real, raise_at=None, exc=Interrupt):
        self._real = real
        self.raise_at = raise_at
        self.exc = exc
        self.writes = 0

    def File(self, *args, **kwargs):
        mode = kwargs.get("mode", args[1] if len(args) > 1 else "r")
        if mode != "r":
            self.writes += 1
            if self.raise_at is not None and self.writes == self.raise_at:
                raise self.exc("simulated interruption at write-open %d" % self.writes)
        return self._real.File(*args, **kwargs)

    def __getattr__(self, name):
        return getattr(self._real, name)


@contextlib.contextmanager
def shimmed(raise_at=None, exc=Interrupt):
    upg = _upg()
    real = upg.h5py
    shim = H5Shim(real, raise_at, exc)
    upg.h5py = shim
    try:
        yield shim
    finally:
        upg.h5py = real


def run_upgrade(path, raise_at=None, exc=Interrupt):
    """-> (return value | 'killed' | 'raised:<cls>', write-opens seen, captured stdout)"""
    upg = _upg()
    buf = io.StringIO()
    with shimmed(raise_at, exc) as shim:
        with contextlib.redirect_stdout(buf):
            try:
                ret = upg.file_upgrade(path, quiet=True)
            except Kill:
                ret = "killed"
            except Exception as e:                      # noqa: BLE001 - documented: returns False instead
                ret = "raised:" + type(e).__name__
    return ret, shim.writes, buf.getvalue()[:300]


# ====================================================================== walking / normalising

def open_walk(path, mode):
    nixio = _nix()
    f = nixio.File.open(path, mode)
    try:
        return walk.walk(f)
    finally:
        f.close()


def try_open(path, mode):
    nixio = _nix()
    try:
        f = nixio.File.open(path, mode)
    except Exception as e:                              # noqa: BLE001 - "refused" = any exception
        return type(e).__name__ + ": " + str(e)[:120]
    f.close()
    return None


def norm(node, keep_file_id=True, old_reader=False):
    """
    walk with everything the upgrade legitimately renews masked: property id/timestamps/order, dimension
    link id, (file id when it was not kept).  ``old_reader`` additionally masks what the old layout
    cannot express the same way (property data_type / extras, has_link / dimension_link, version).
    """
    if isinstance(node, list):
        return [norm(x, keep_file_id, old_reader) for x in node]
    if not isinstance(node, dict):
        return node
    kind = node.get("kind")
    out = {}
    for k, v in node.items():
        if kind == "Property" and k in ("id", "created_at", "updated_at"):
            continue
        if kind == "Property" and old_reader and k in ("data_type", "uncertainty", "reference"):
            continue
        if kind == "DimensionLink" and k == "id":
            continue
        if kind == "RangeDimension" and old_reader and k in ("has_link", "dimension_link"):
            continue
        if kind == "File" and k == "id" and not keep_file_id:
            continue
        if kind == "File" and old_reader and k == "version":
            continue
        if kind == "Section" and k == "props":
            out[k] = {p.get("name"): norm(p, keep_file_id, old_reader) for p in v} \
                if isinstance(v, list) else v
            continue
        out[k] = norm(v, keep_file_id, old_reader)
    return out


def section_nodes(W):
    out = {}

    def rec(lst, pre):
        for s in lst:
            p = pre + (s["name"],)
            out["/".join(p)] = s
            rec(s.get("sections", []), p)
    rec(W.get("sections", []), ())
    return out


# ====================================================================== the checks

class FileCase:
    """everything that depends only on (recipe, down): built once, shared by all k"""

    def __init__(self, base, ctx, wd):
        self.base = base
        self.recipe = base["recipe"]
        self.down = base["down"]
        self.ctx = ctx
        self.wd = wd
        self.cur = os.path.join(wd, "cur.nix")
        self.old = os.path.join(wd, "old.nix")
        self.up = os.path.join(wd, "up.nix")
        self.tmp = os.path.join(wd, "ik.nix")
        self.ok = False
        self.n = None
        self.W0 = None
        self.Wup = None
        self.props = old_props(self.recipe, self.down)
        self.aliases = alias_arrays(self.recipe)
        self.keep_id = self.down["id"] == "keep"
        self.ver = tuple(self.down["ver"])
        self.lib_ver = tuple(_nix().file.HDF_FF_VERSION)

    def case(self, k=0, resume="fresh", exc="error"):
        c = dict(self.base)
        c["k"] = k
        c["resume"] = resume
        c["exc"] = exc
        return c

    def viol(self, key, detail, case=None):
        self.ctx.violation("C18/" + key, case or self.case(), detail)

    def cleanup(self):
        for p in (self.cur, self.old, self.up, self.tmp):
            try:
                os.remove(p)
            except OSError:
                pass

    # ------------------------------------------------------------------ build + downgrade + (1)
    def prepare(self):
        model = expect_model(self.recipe)
        build(self.cur, self.recipe)
        apply_raw_units(self.cur, self.recipe)
        self.W0 = open_walk(self.cur, _nix().FileMode.ReadOnly)
        d = walk.diff(expect_model(self.recipe, placeholder=True), project(self.W0))
        if d:
            # not C18's subject (creation through the API); reported so that it cannot hide, case skipped
            self.viol("build/" + model_diff_key(self.recipe, d),
                      {"path": d[0], "recipe": walk.brief(d[1]), "api-built file": walk.brief(d[2])})
            return False
        self.cur_sha = sha256(self.cur)
        shutil.copyfile(self.cur, self.old)
        downgrade(self.old, self.recipe, self.down)
        st0 = raw_state(self.old)
        assert st0["version"] == list(self.ver) and len(st0["compound"]) == len(self.props) \
            and len(st0["alias"]) == len(self.aliases), ("downgrade self-check", st0)
        self.model = model
        # (1) old-layout readers
        readable = not (self.ver >= (1, 2, 0) and not self.keep_id)
        vtag = "v" + ".".join(map(str, self.ver))
        if readable:
            err = try_open(self.old, _nix().FileMode.ReadOnly)
            if err:
                self.viol("old-read/open-refused/" + vtag, {"error": err})
            else:
                Wold = open_walk(self.old, _nix().FileMode.ReadOnly)
                dm = walk.diff(model, project(Wold))
                if dm:
                    self.viol("old-read/" + model_diff_key(self.recipe, dm),
                              {"path": dm[0], "recipe": walk.brief(dm[1]), "old file reads": walk.brief(dm[2])})
                d = None if dm else walk.diff(mask_store(norm(self.W0, self.keep_id, True), self.recipe),
                                              mask_store(norm(Wold, self.keep_id, True), self.recipe))
                if d:
                    self.viol("old-read/walk" + keyify(d[0]),
                              {"path": d[0], "current-format": walk.brief(d[1]), "old file reads": walk.brief(d[2])})
                if self.props:
                    self.old_extras(Wold)
        err = try_open(self.old, _nix().FileMode.ReadWrite)
        if err is None:
            self.viol("old-read/read-write-accepted/" + vtag, {"version": list(self.ver)})
        self.ok = True
        return True

    def old_extras(self, Wold):
        """property.py:149-172: uncertainty / reference of an old property = those of its first value"""
        secs = section_nodes(Wold)
        for spath, p in self.props:
            if not p["vals"]:
                continue
            node = {q["name"]: q for q in secs.get("/".join(spath), {}).get("props", [])}.get(p["name"])
            if node is None:
                continue
            ex = prop_extras(p)
            if node.get("uncertainty") != walk.cfloat(ex["uncertainty"][0]):
                self.viol("old-read/prop.uncertainty", {"prop": p["name"], "want": ex["uncertainty"][0],
                                                        "got": node.get("uncertainty")})
            if node.get("reference") != ex["reference"][0]:
                self.viol("old-read/prop.reference", {"prop": p["name"], "want": ex["reference"][0],
                                                      "got": node.get("reference")})

    # ------------------------------------------------------------------ (2) + (4)
    def uninterrupted(self):
        nixio = _nix()
        upg = _upg()
        shutil.copyfile(self.old, self.up)
        tasks = upg.collect_tasks(self.up)[0]
        if not tasks:
            self.viol("upgrade/no-tasks-for-old-file", {"version": list(self.ver)})
        ret, writes, out = run_upgrade(self.up)
        self.n = writes
        state = raw_state(self.up)
        if ret is not True:
            self.viol("upgrade/failed/" + stuck_class(self.recipe, state, self.lib_ver),
                      {"returned": ret, "output": out, "left": _brief_state(state)})
            return False
        good = True
        raw_bad = False
        if state["version"] != list(self.lib_ver):
            self.viol("upgrade/version-not-current", {"version": state["version"]})
            good = False
            raw_bad = True
        if state["compound"]:
            self.viol("upgrade/old-property-left/" + stuck_class(self.recipe, state, self.lib_ver),
                      {"left": state["compound"][:4]})
            raw_bad = True
        if state["alias"]:
            self.viol("upgrade/alias-left", {"left": state["alias"][:4]})
            raw_bad = True
        if not state["id_valid"]:
            self.viol("upgrade/file-id-invalid/" + self.down["id"], {"id": state["id"]})
            raw_bad = True
        elif self.keep_id and state["id"] != self.W0["id"]:
            self.viol("upgrade/file-id-changed", {"was": self.W0["id"], "now": state["id"]})
        left = upg.collect_tasks(self.up)[0]
        if left and not raw_bad:
            self.viol("upgrade/tasks-left", {"tasks": [t.__doc__ for t in left]})
        err = try_open(self.up, nixio.FileMode.ReadWrite)
        if err:
            if not raw_bad:
                self.viol("upgrade/read-write-refused", {"error": err})
            err2 = try_open(self.up, nixio.FileMode.ReadOnly)
            if err2:
                return False
            self.Wup = open_walk(self.up, nixio.FileMode.ReadOnly)
            good = False
        else:
            self.Wup = open_walk(self.up, nixio.FileMode.ReadWrite)
        if tuple(self.Wup.get("version") or ()) != self.lib_ver:
            self.viol("upgrade/File.version", {"got": self.Wup.get("version")})
        self.content(self.Wup, "content", self.case())
        # (4) upgrading the upgraded file and the never-downgraded file
        for tag, path in (("upgraded", self.up), ("native", self.cur)):
            before = sha256(path)
            ret, writes, out = run_upgrade(path)
            if ret is not True:
                self.viol("uptodate/%s/returned" % tag, {"returned": ret, "output": out})
            if sha256(path) != before:
                self.viol("uptodate/%s/bytes-changed" % tag, {"write-opens": writes})
        return good

    def content(self, W, sub, case):
        """(2): model + walk-to-walk + extras on an upgraded file's walk"""
        old_style = bool(self.props)
        cand = {}                 # (section path, companion name) -> (per-value list, prop, extra)
        for spath, s in iter_sections(self.recipe):
            for p in s.get("props", []):
                if not old_style:
                    continue
                ex = prop_extras(p)
                for extra in ["uncertainty"] + EXTRAS:
                    vals = [walk.cfloat(x) for x in ex[extra]] if extra == "uncertainty" else list(ex[extra])
                    cand[("/".join(spath), p["name"] + "." + extra)] = (vals, p, extra)
        # model: recipe values / units / definitions / data / ticks
        dm = walk.diff(self.model, project(W, cand))
        if dm:
            self.viol("%s/%s" % (sub, model_diff_key(self.recipe, dm)),
                      {"path": dm[0], "recipe": walk.brief(dm[1]), "upgraded": walk.brief(dm[2])}, case)
        # per-value extras must remain retrievable: a companion property <name>.<extra> holding the
        # per-value list, or (a single common uncertainty) the uncertainty attribute; extras that were
        # never set (all zero / all empty) need not be represented
        A = norm(self.W0, self.keep_id)
        B = norm(W, self.keep_id)
        secsA = section_nodes(A)
        secsB = section_nodes(B)
        if old_style:
            # an old property held in another integer width than this library writes: the never-downgraded file is
            # no reference for its element type (and cannot hold values beyond int64 at all) - the upgraded
            # property must have an integer type that holds the recipe's values (compared by the model above)
            for spath, s in iter_sections(self.recipe):
                for p in s.get("props", []):
                    if p.get("store") and p["store"] != "<i8":
                        sp = "/".join(spath)
                        nb = secsB.get(sp, {}).get("props")
                        if isinstance(nb, dict) and p["name"] in nb:
                            dtb = str(nb[p["name"]].get("data_type"))
                            if not re.match(r"^u?int(8|16|32|64)$", dtb):
                                self.viol("%s/stored-integer-width/data_type-after-upgrade" % sub,
                                          {"section": sp, "prop": p["name"], "stored as": p["store"], "data_type": dtb}, case)
                            nb[p["name"]]["data_type"] = None
                            nb[p["name"]]["values"] = None
                        na = secsA.get(sp, {}).get("props")
                        if isinstance(na, dict) and p["name"] in na:
                            na[p["name"]]["data_type"] = None
                            na[p["name"]]["values"] = None
        for (sp, cname), (vals, p, extra) in sorted(cand.items()):
            props = secsB.get(sp, {}).get("props")
            if not isinstance(props, dict) or p["name"] not in props:
                continue                                  # reported by the model comparison
            ex = prop_extras(p)
            if extra == "uncertainty":
                mode = unc_mode(ex[extra])
                is_set = mode != "zero"
            else:
                is_set = any(ex[extra])
                mode = "unset" if not is_set else ("all" if all(ex[extra]) else "some")
            node = props.pop(cname, None)
            attr = props[p["name"]].get("uncertainty") if extra == "uncertainty" else None
            if node is not None:
                if node.get("values") != vals:
                    self.viol("extras/%s/%s/companion-values" % (extra, mode),
                              {"section": sp, "name": cname, "want": vals, "got": node.get("values")}, case)
            elif is_set and not (mode == "common" and attr == vals[0]):
                self.viol("extras/%s/%s/not-retrievable" % (extra, mode),
                          {"section": sp, "prop": p["name"], "generated": vals[:6], "companion": None,
                           "attribute": attr}, case)
            if extra == "uncertainty":
                if (node is not None or not is_set) and attr is not None and not (
                        set(map(repr, vals)) == {repr(attr)} or (not vals and attr == walk.cfloat(0.0))):
                    self.viol("extras/uncertainty/%s/attribute-wrong" % mode,
                              {"section": sp, "prop": p["name"], "generated": vals[:6], "attribute": attr}, case)
                props[p["name"]]["uncertainty"] = None
                if sp in secsA and p["name"] in secsA[sp].get("props", {}):
                    secsA[sp]["props"][p["name"]]["uncertainty"] = None
        # walk-to-walk: everything else the API shows must be as in the never-downgraded file
        d = None if dm else walk.diff(A, B)
        if d:
            self.viol("%s/walk%s" % (sub, keyify(d[0])),
                      {"path": d[0], "before downgrade": walk.brief(d[1]), "after upgrade": walk.brief(d[2])}, case)

    # ------------------------------------------------------------------ (3)
    def interrupted(self, k, resume, exc):
        nixio = _nix()
        upg = _upg()
        case = self.case(k, resume, exc)
        n = self.n
        if k < 1 or k > n + 1 or self.Wup is None:
            return None
        shutil.copyfile(self.old, self.tmp)
        stale = upg.collect_tasks(self.tmp)[0] if resume == "stale" else None
        ret, writes, out = run_upgrade(self.tmp, raise_at=k,
                                       exc={"kill": Kill, "oserror": OSError}.get(exc, Interrupt))
        kcls = "first" if k == 1 else ("last" if k == n else "middle")
        if k <= n:
            want = "killed" if exc == "kill" else False
            if ret != want:
                self.viol("interrupt/return-value/" + exc, {"k": k, "n": n, "want": want, "got": ret, "output": out}, case)
            state = raw_state(self.tmp)
            if state["version"] != list(self.ver):
                self.viol("interrupt/version-raised-early",
                          {"k": k, "n": n, "at": kcls, "version": state["version"], "left": _brief_state(state)}, case)
                return False                # what a re-run does with such a file says nothing more
            elif try_open(self.tmp, nixio.FileMode.ReadWrite) is None:
                self.viol("interrupt/read-write-accepted", {"k": k, "n": n, "at": kcls}, case)
            elif not upg.collect_tasks(self.tmp)[0]:
                self.viol("interrupt/not-recognised-as-old", {"k": k, "n": n, "at": kcls}, case)
        else:
            if ret is not True:
                self.viol("interrupt/no-interruption-yet-failed", {"k": k, "n": n, "got": ret, "output": out}, case)
        # resume
        if resume == "stale":
            buf = io.StringIO()
            try:
                with contextlib.redirect_stdout(buf):
                    upg.process_tasks(self.tmp, stale, quiet=True)
                ret2 = True
            except Exception as e:                      # noqa: BLE001
                ret2 = "raised:%s: %s" % (type(e).__name__, str(e)[:160])
        else:
            ret2, _, out2 = run_upgrade(self.tmp)
        state = raw_state(self.tmp)
        if ret2 is not True:
            # a fresh run works through the file in order: class = first object not converted; a stale
            # list trips over what is already done: class = dominant kind of step of the file
            cls = stuck_class(self.recipe, state, self.lib_ver) if resume == "fresh" else \
                ("props" if self.props else ("alias" if self.aliases else "header"))
            self.viol("resume/%s/failed/%s" % (resume, cls),
                      {"k": k, "n": n, "returned": ret2, "left": _brief_state(state)}, case)
            return False
        if state["version"] != list(self.lib_ver) or state["compound"] or state["alias"] or not state["id_valid"]:
            self.viol("resume/%s/incomplete/%s" % (resume, stuck_class(self.recipe, state, self.lib_ver)),
                      {"k": k, "n": n, "left": _brief_state(state)}, case)
        if upg.collect_tasks(self.tmp)[0]:
            self.viol("resume/%s/tasks-left" % resume, {"k": k, "n": n}, case)
        try:
            Wk = open_walk(self.tmp, nixio.FileMode.ReadWrite)
        except Exception as e:                          # noqa: BLE001 - "refused" = any exception
            self.viol("resume/%s/read-write-refused" % resume,
                      {"k": k, "n": n, "error": type(e).__name__ + ": " + str(e)[:120]}, case)
            return False
        d = walk.diff(norm(self.Wup, self.keep_id), norm(Wk, self.keep_id))
        if d:
            self.viol("resume/%s/differs%s" % (resume, keyify(d[0])),
                      {"k": k, "n": n, "path": d[0], "uninterrupted": walk.brief(d[1]), "resumed": walk.brief(d[2])}, case)
        return True


def _brief_state(state):
    return {"version": state["version"], "id_valid": state["id_valid"],
            "compound": len(state["compound"]), "first_compound": (state["compound"] or [None])[0],
            "alias": len(state["alias"])}


def file_classes(fc):
    rec = fc.recipe
    cl = ["ver:" + ".".join(map(str, fc.ver)), "id:" + fc.down["id"],
          "old-props:" + _bucket(len(fc.props)), "alias:" + _bucket(len(fc.aliases))]
    for _, p in fc.props:
        ex = prop_extras(p)
        cl.append("prop:%s:%s" % (p["vt"], "empty" if not p["vals"] else ("1" if len(p["vals"]) == 1 else "n")))
        if p.get("store"):
            cl.append("old-prop-stored-as:" + p["store"] + (":beyond-int64" if any(v >= 2 ** 63 for v in p["vals"]) else ""))
        cl.append("unc:" + unc_mode(ex["uncertainty"]))
        for e in EXTRAS:
            if any(ex[e]):
                cl.append("%s:%s" % (e, "all" if all(ex[e]) else "some"))
        if p["vt"] == "str" and any(ord(c) > 127 for v in p["vals"] for c in v):
            cl.append("prop:str:non-ascii")
    depth = max([len(path) for path, _ in iter_sections(rec)] or [0])
    cl.append("section-depth:%d" % depth)
    return sorted(set(cl)), cl


def _bucket(n):
    return "0" if n == 0 else ("1" if n == 1 else ("2-5" if n <= 5 else "6+"))


def run_file(base, ctx, ks="all", resumes=("fresh", "stale"), exc=None):
    """runs one file case; ``ks`` = 'all' or a list of k; counts one ctx.case per (k, resume)"""
    wd = os.path.join(ctx.workdir, "c18")
    os.makedirs(wd, exist_ok=True)
    fc = FileCase(base, ctx, wd)
    try:
        uniq, allc = file_classes(fc)
        if not fc.prepare():
            ctx.case(fc.case(), False, uniq + ["build-mismatch"])
            return
        good = fc.uninterrupted()
        big = len(fc.props) >= 2 or len(fc.aliases) >= 1
        ctx.case(fc.case(), False, uniq + ["k:none"], sample=_sample(fc.case()))
        for c in allc:
            if c.startswith(("prop:", "unc:", "reference", "filename", "encoder", "checksum")):
                ctx.count("per-prop " + c)
        if fc.n is None or fc.Wup is None:
            ctx.count("interruption-skipped(upgrade failed)")
            return
        n = fc.n
        ctx.add("write_opens_total", n)
        klist = list(range(1, n + 2)) if ks == "all" else [k for k in ks if 1 <= k <= n + 1]
        some = {1, 2, (n + 1) // 2, n - 1, n, n + 1}
        for k in klist:
            for resume in resumes:
                if ks == "all" and resume == "stale" and n > 6 and k not in some:
                    continue                # every k is resumed afresh; a stale list at 6 spread points
                # three ways a write-open can fail: an error, the process being killed, an I/O error (OSError)
                e = exc or ("kill", "error", "oserror")[(k + len(fc.props)) % 3]
                fc.interrupted(k, resume, e)
                kc = "k:first" if k == 1 else ("k:none(n+1)" if k == n + 1 else ("k:last" if k == n else "k:middle"))
                case = fc.case(k, resume, e)
                ctx.case(case, big and 1 < k <= n, [kc, "resume:" + resume, "exc:" + e,
                                                     "steps:" + _bucket(n)], sample=_sample(case))
        if not good:
            ctx.count("upgrade-not-good")
    finally:
        fc.cleanup()


def _sample(case):
    r = case["recipe"]
    return {"down": case["down"], "k": case["k"], "resume": case["resume"], "exc": case["exc"],
            "sections": [p for p, _ in map(lambda t: ("/".join(t[0]), 0), iter_sections(r))][:6],
            "props": [[p["name"], p["vt"], p["vals"][:3]] for _, s in iter_sections(r) for p in s.get("props", [])][:5],
            "arrays": [[a["name"], a["dims"] if a["dims"] == "self" else [d["t"] for d in a["dims"]]]
                       for b in r.get("blocks", []) for a in b.get("arrays", [])][:4]}


# ====================================================================== generators

NAMES = gen.names(8)
TEXT = st.text(alphabet=gen.NAME_ALPHA, min_size=1, max_size=8)
SMALL_F = st.sampled_from([0.5, 0.25, 1.0, 2.0, 0.1, 1e-3, 3.75, 1e6])
FLOATS = st.one_of(st.sampled_from([0.0, -0.0, 1.5, -2.25, 0.1, 1e-300, 1.7976931348623157e308, -1e10]),
                   st.floats(allow_nan=False, allow_infinity=False, width=64))
INTS = st.one_of(st.sampled_from([0, 1, -1, 2 ** 63 - 1, -2 ** 63, 255, 65536]),
                 st.integers(min_value=-2 ** 63, max_value=2 ** 63 - 1))
STRS = st.one_of(st.just(""), st.text(alphabet=gen.NAME_ALPHA, max_size=10),
                 st.sampled_from(["plain ascii", "µV", "日本語", "a/b", "tab\there", "😀", "ünï"]))


@st.composite
def prop_st(draw, name):
    vt = draw(st.sampled_from(["int", "float", "str", "bool", "str", "float", "int"]))
    elem = {"int": INTS, "float": FLOATS, "str": STRS, "bool": st.booleans()}[vt]
    vals = draw(st.one_of(st.lists(elem, min_size=1, max_size=4), st.lists(elem, min_size=0, max_size=1),
                          st.lists(elem, min_size=2, max_size=6)))
    p = {"name": name, "vt": vt, "vals": vals,
         "unit": draw(st.sampled_from(UNITS)), "def": draw(st.one_of(st.none(), TEXT))}
    if vt == "int" and draw(st.integers(0, 1)) == 0:
        # the old file holds the values in another integer type than this library would choose
        p["store"] = draw(st.sampled_from(sorted(STORE_INT) + ["<u8", "<u8"]))
        lo, hi = STORE_INT[p["store"]]
        p["vals"] = draw(st.lists(st.one_of(st.sampled_from([lo, hi, 0, hi - 1, (hi + 1) // 2]), st.integers(lo, hi)),
                                  min_size=1, max_size=4))
    if p["unit"] is not None and draw(st.integers(0, 3)) == 0:
        p["raw_unit"] = draw(st.sampled_from(RAW_UNITS))
    um = draw(st.sampled_from(["zero", "zero", "common", "distinct", "distinct2", "close"]))
    if um == "close":
        # distinct per-value uncertainties that differ by very little (nano-scaled quantities, or in the 6th digit):
        # still per-value extras that must stay retrievable one by one
        p["unc"] = draw(st.sampled_from([[1e-9, 5e-9, 2e-9], [2.5, 2.50001], [3e-10, 1e-10], [1.0, 1.000001, 1.000002]]))
    if um == "common":
        p["unc"] = [draw(SMALL_F)]
    elif um == "distinct":
        p["unc"] = draw(st.lists(SMALL_F, min_size=2, max_size=3, unique=True))
    elif um == "distinct2":
        p["unc"] = [0.0, draw(SMALL_F)]
    for e in EXTRAS:
        m = draw(st.sampled_from(["none", "none", "none", "all", "some"] if e != "reference"
                                 else ["none", "all", "some", "some"]))
        if m == "all":
            p[e] = draw(st.lists(TEXT, min_size=1, max_size=2))
        elif m == "some":
            p[e] = draw(st.sampled_from([["", "x"], ["r", ""], ["", "", "µ"]]))
    return p


@st.composite
def section_st(draw, name, depth):
    npr = draw(st.sampled_from([1, 2, 3, 4, 0, 2] if depth == 1 else [0, 1, 2, 1]))
    pnames = draw(st.lists(NAMES, min_size=npr, max_size=npr, unique=True))
    s = {"name": name, "type": draw(st.sampled_from(["t", "recording", "ü"])),
         "def": draw(st.one_of(st.none(), TEXT)),
         "props": [draw(prop_st(n)) for n in pnames], "subs": []}
    if depth < 3:
        nsub = draw(st.sampled_from([0, 1, 0, 2] if depth == 1 else [0, 1]))
        snames = draw(st.lists(NAMES, min_size=nsub, max_size=nsub, unique=True))
        s["subs"] = [draw(section_st(n, depth + 1)) for n in snames]
    return s


@st.composite
def dim_st(draw, n):
    t = draw(st.sampled_from(["range", "sample", "set"]))
    if t == "range":
        ticks = sorted(draw(st.lists(st.integers(-50, 50), min_size=n, max_size=n, unique=True)))
        return {"t": "range", "ticks": [x / 4.0 for x in ticks], "unit": draw(st.sampled_from(UNITS)),
                "label": draw(st.one_of(st.none(), TEXT))}
    if t == "sample":
        return {"t": "sample", "interval": draw(SMALL_F), "offset": draw(st.sampled_from([None, 0.5, -1.0])),
                "unit": draw(st.sampled_from(UNITS)), "label": draw(st.one_of(st.none(), TEXT))}
    return {"t": "set", "labels": draw(st.lists(TEXT, min_size=0, max_size=n))}


@st.composite
def array_st(draw, name):
    selfdim = draw(st.sampled_from([True, True, False]))
    a = {"name": name, "type": draw(st.sampled_from(["t", "nix.sampled", "é"])),
         "unit": draw(st.sampled_from(UNITS)), "label": draw(st.one_of(st.none(), TEXT)),
         "md": draw(st.one_of(st.none(), st.integers(0, 5)))}
    if selfdim:
        a["dt"] = draw(st.sampled_from(["<f8", "<f8", "<f4", "<i8", "<i4"]))
        n = draw(st.integers(1, 8))
        base = sorted(draw(st.lists(st.integers(-100, 100), min_size=n, max_size=n)))
        a["data"] = [x / 4.0 for x in base] if a["dt"][1] == "f" else base
        a["dims"] = "self"
    else:
        a["dt"] = draw(st.sampled_from(["<f8", "<i8", "<f4"]))
        shape = draw(st.sampled_from([[3], [1], [2, 3], [4, 1], [5]]))
        cnt = int(np.prod(shape))
        flat = draw(st.lists(st.integers(-1000, 1000), min_size=cnt, max_size=cnt))
        flat = [x / 8.0 for x in flat] if a["dt"][1] == "f" else flat
        a["data"] = np.array(flat).reshape(shape).tolist()
        a["dims"] = [draw(dim_st(m)) for m in shape] if draw(st.booleans()) else []
    return a


@st.composite
def block_st(draw, name):
    na = draw(st.sampled_from([1, 2, 3, 2]))
    anames = draw(st.lists(NAMES, min_size=na, max_size=na, unique=True))
    return {"name": name, "type": draw(st.sampled_from(["t", "session"])),
            "md": draw(st.one_of(st.none(), st.integers(0, 5))),
            "arrays": [draw(array_st(n)) for n in anames],
            "group": draw(st.booleans()), "tag": draw(st.booleans())}


@st.composite
def file_case_st(draw):
    ns = draw(st.sampled_from([1, 2, 1, 3, 0, 2]))
    snames = draw(st.lists(NAMES, min_size=ns, max_size=ns, unique=True))
    nb = draw(st.sampled_from([0, 1, 1, 1, 2]))
    bnames = draw(st.lists(NAMES, min_size=nb, max_size=nb, unique=True))
    recipe = {"secs": [draw(section_st(n, 1)) for n in snames],
              "blocks": [draw(block_st(n)) for n in bnames]}
    down = {"ver": draw(st.sampled_from([[1, 1, 0], [1, 0, 0], [1, 1, 1], [1, 2, 0], [1, 1, 0], [1, 0, 0]])),
            "id": draw(st.sampled_from(["remove", "keep", "invalid"]))}
    if down["id"] == "invalid":
        down["badid"] = draw(st.sampled_from(["", "not-a-uuid", "1234", "ü"]))
    if tuple(down["ver"]) >= (1, 1, 1):
        # properties stay in the current layout in such a file: no other storage width to speak of
        for _, s_ in iter_sections(recipe):
            for p in s_.get("props", []):
                if p.pop("store", None):
                    p["vals"] = [max(-2 ** 63, min(2 ** 63 - 1, v)) for v in p["vals"]]
    return {"recipe": recipe, "down": down}


# ====================================================================== domain

def valid(case):
    try:
        return _valid(case)
    except Exception:                                   # noqa: BLE001 - malformed shrink candidates
        return False


def _name_ok(s):
    return isinstance(s, str) and 0 < len(s) and "/" not in s and "\x00" not in s and s not in (".", "..")


def _valid(case):
    if not isinstance(case, dict) or not isinstance(case.get("recipe"), dict):
        return False
    down = case.get("down")
    if not isinstance(down, dict) or down.get("ver") not in VERSIONS or down.get("id") not in ("keep", "remove", "invalid"):
        return False
    if down["id"] == "invalid":
        bad = down.get("badid", "")
        if not isinstance(bad, str):
            return False
        try:
            uuid.UUID(bad)
            return False
        except ValueError:
            pass
    if not isinstance(case.get("k", 0), int) or case.get("k", 0) < 0:
        return False
    if case.get("resume", "fresh") not in ("fresh", "stale") or case.get("exc", "error") not in ("error", "kill", "oserror"):
        return False
    rec = case["recipe"]
    if not isinstance(rec.get("secs", []), list) or not isinstance(rec.get("blocks", []), list):
        return False

    def sec_ok(lst, depth):
        names = [s.get("name") for s in lst]
        if len(set(names)) != len(names) or (lst and depth > 3):
            return False
        for s in lst:
            if not _name_ok(s["name"]) or not _name_ok(s.get("type")):
                return False
            if s.get("def") is not None and not (isinstance(s["def"], str) and s["def"]):
                return False
            pn = [p.get("name") for p in s.get("props", [])]
            if len(set(pn)) != len(pn):
                return False
            for p in s.get("props", []):
                if not _name_ok(p["name"]) or p.get("vt") not in VT_NP:
                    return False
                if any(p["name"] + "." + e in pn for e in EXTRAS + ["uncertainty"]):
                    return False
                ty = {"int": int, "float": (int, float), "str": str, "bool": bool}[p["vt"]]
                for v in p["vals"]:
                    if not isinstance(v, ty) or (p["vt"] != "bool" and isinstance(v, bool)):
                        return False
                    if p["vt"] == "int":
                        if p.get("store") is not None and p["store"] not in STORE_INT:
                            return False
                        lo, hi = store_range(p)
                        if not lo <= v <= hi:
                            return False
                        if v >= 2 ** 63 and tuple(case["down"]["ver"]) >= (1, 1, 1):
                            return False        # not an old property in such a file: the API cannot hold the value
                    if p["vt"] == "float" and (v != v or v in (float("inf"), float("-inf"))):
                        return False
                    if p["vt"] == "str" and "\x00" in v:
                        return False
                if p.get("unit") not in UNITS:
                    return False
                if p.get("raw_unit") is not None and (p["raw_unit"] not in RAW_UNITS or p.get("unit") is None):
                    return False
                if p.get("def") is not None and not (isinstance(p["def"], str) and p["def"]):
                    return False
                for u in p.get("unc", []) or []:
                    if not isinstance(u, (int, float)) or isinstance(u, bool) or not 0 <= u < 1e300:
                        return False
                for e in EXTRAS:
                    if not all(isinstance(x, str) and "\x00" not in x for x in p.get(e, []) or []):
                        return False
            if not sec_ok(s.get("subs", []), depth + 1):
                return False
        return True
    if not sec_ok(rec.get("secs", []), 1):
        return False
    bn = [b.get("name") for b in rec.get("blocks", [])]
    if len(set(bn)) != len(bn):
        return False
    for b in rec.get("blocks", []):
        if not _name_ok(b["name"]) or not _name_ok(b.get("type")):
            return False
        an = [a.get("name") for a in b.get("arrays", [])]
        if len(set(an)) != len(an) or "grp" in an or "tag" in an:
            return False
        for a in b.get("arrays", []):
            if not _name_ok(a["name"]) or not _name_ok(a.get("type")) or a.get("dt") not in ("<f8", "<f4", "<i8", "<i4"):
                return False
            if a.get("unit") not in UNITS:
                return False
            if a.get("label") is not None and not (isinstance(a["label"], str) and a["label"]):
                return False
            data = np.array(a["data"])
            if data.dtype.kind not in "if" or data.size == 0 or data.ndim not in (1, 2):
                return False
            if a["dt"][1] == "i" and data.dtype.kind != "i":
                return False
            if a["dims"] == "self":
                if data.ndim != 1 or np.any(np.diff(data) < 0):
                    return False
            else:
                if len(a["dims"]) not in (0, data.ndim):
                    return False
                for d, m in zip(a["dims"], data.shape):
                    if d.get("t") == "range":
                        if len(d["ticks"]) != m or any(y <= x for x, y in zip(d["ticks"], d["ticks"][1:])):
                            return False
                        if d.get("unit") not in UNITS:
                            return False
                    elif d.get("t") == "sample":
                        if not d["interval"] > 0 or d.get("unit") not in UNITS:
                            return False
                    elif d.get("t") == "set":
                        if not all(isinstance(x, str) and x for x in d["labels"]):
                            return False
                    else:
                        return False
                    if d.get("label") is not None and not (isinstance(d["label"], str) and d["label"]):
                        return False
    return True


# ====================================================================== runner contract

def shards(tier, seed):
    nshards, per = (32, 4) if tier == "quick" else (192, 8)
    return [{"n": per, "seed": seed * 1000 + i} for i in range(nshards)]


def run_shard(spec, ctx):
    gen.generate(file_case_st(), spec["n"], spec["seed"], lambda c: run_file(c, ctx))


def replay(case, ctx):
    base = {"recipe": case["recipe"], "down": case["down"]}
    k = case.get("k", 0)
    if k:
        run_file(base, ctx, ks=[k], resumes=(case.get("resume", "fresh"),), exc=case.get("exc", "error"))
    elif "k" in case:
        run_file(base, ctx, ks=[])
    else:
        run_file(base, ctx)
