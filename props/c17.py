# -*- coding: utf-8 -*-
"""C17 - flush() and close() make everything written so far survive a process kill (DESIGN 4/C17)."""
import json
import os
import signal

from hypothesis import strategies as st

from vlib import gen, ops, walk
from vlib.interp import Interp

ID = "C17"
LEVEL = "fault_enumeration"
RULE = ("Hypothesis-generated op programs (entities of all kinds, arrays grown by appends, compressed and "
        "uncompressed data, deletes, attribute changes) with flush ops at generated positions and a final close; "
        "EVERY flush/close point of every program is a crash point: a forked writer process executes the program up "
        "to that point, records the canonical walk in a side file (fsync), calls flush() or close() and immediately "
        "SIGKILLs itself. The parent checks the child died by SIGKILL, then opens the file read-only and read-write "
        "(fresh handles) and requires both walks to equal the recorded one. A control sub-run kills WITHOUT the "
        "flush and measures how often the file then differs or cannot be opened (sensitivity of the harness). "
        "Non-trivial: >= 3 entity creations or >= 1 append before the crash point and >= 1 mutating op between the "
        "previous flush and the crash point; distinct by (program, crash point) hash.")
ASSUMPTIONS = [
    "process-kill durability (the OS page cache survives), as the statement says; power-loss durability is not claimed",
    "the writer is the only process that has the file open",
]

BUILD = (ops.CREATE * 2 + ops.SETTERS + ops.LINKS + ["write", "append", "append", "append", "resize", "prop_set",
                                                     "prop_ext", "prop_clear", "del", "del_dims"] + ["append"] * 4 + ["flush"] * 16)


ISOLATED = sorted(set(BUILD) - {"flush", "overwrite", "relink", "multi_append"})


def child_run(path, side, prog, upto, do_flush, final, record=True, kill=True):
    """runs in the forked child; never returns.  record=False: the writer does NOT read its file back before the
    flush (a read may itself push buffered data out); kill=False: the reference writer, which closes normally"""
    try:
        # the writer runs under a harness-owned clock that advances with every op, so that timestamps written
        # by later ops differ from the ones of creation (a timestamp that misses the flush is a lost write too)
        from props.c19 import _CLOCK, install_clock
        install_clock()
        if final.get("pre"):
            # the path already holds a (closed) file of an earlier recording, which the writer overwrites
            import nixio
            f0 = nixio.File.open(path, nixio.FileMode.Overwrite)
            f0.create_block("previous recording", "t").create_data_array("old", "t", data=list(range(50)))
            f0.close()
        if final.get("app"):
            # the application holds the file open for writing for as long as it runs; the history is written by a
            # helper that opens the same path again, and it is the helper's flush() / close() that returns before
            # the kill
            import nixio
            app = nixio.File.open(path, nixio.FileMode.Overwrite)
            app.create_block("application", "t")
            app.flush()
            it = Interp(path, compression="DeflateNormal" if final.get("compress") else None, clock=_CLOCK, mode="a")
            it.positional_ok = False
        else:
            it = Interp(path, compression="DeflateNormal" if final.get("compress") else None, clock=_CLOCK)
        for i, op in enumerate(prog[:upto]):
            _CLOCK.advance(1 + i % 3)
            if op["op"] == "flush":
                it.f.flush()
            else:
                it.step(op)
        W = walk.walk(it.f) if record else {"not-recorded": True}
        with open(side, "w") as fh:
            json.dump(W, fh)
            fh.flush()
            os.fsync(fh.fileno())
        if not kill:
            it.f.close()
            os._exit(0)
        if do_flush:
            if final["kind"] == "close":
                it.f.close()
            else:
                it.f.flush()
    except BaseException as exc:  # harness trouble inside the child: signal it distinctly
        try:
            with open(side + ".err", "w") as fh:
                fh.write("%s: %s" % (type(exc).__name__, exc))
        finally:
            os._exit(3)
    os.kill(os.getpid(), signal.SIGKILL)
    os._exit(4)


def crash_once(ctx, path, prog, upto, do_flush, final, record=True, kill=True):
    side = path + ".walk.json"
    # a clean directory for every writer: nothing a killed writer left next to its file (lock or temporary
    # files) may influence the next case
    d = os.path.dirname(path)
    for fn in os.listdir(d):
        if fn.startswith(os.path.basename(path)):
            try:
                os.remove(os.path.join(d, fn))
            except OSError:
                pass
    pid = os.fork()
    if pid == 0:
        child_run(path, side, prog, upto, do_flush, final, record, kill)
    _, status = os.waitpid(pid, 0)
    if not kill:
        if not (os.WIFEXITED(status) and os.WEXITSTATUS(status) == 0):
            msg = open(side + ".err").read() if os.path.exists(side + ".err") else "status=%r" % status
            raise RuntimeError("reference writer failed: " + msg)
        with open(side) as fh:
            return json.load(fh)
    if not (os.WIFSIGNALED(status) and os.WTERMSIG(status) == signal.SIGKILL):
        msg = open(side + ".err").read() if os.path.exists(side + ".err") else "status=%r" % status
        raise RuntimeError("writer child did not die by SIGKILL: " + msg)
    with open(side) as fh:
        return json.load(fh)


def reopen_walks(path):
    import gc

    import nixio
    out = {}
    for mode, label in ((nixio.FileMode.ReadOnly, "read-only"), (nixio.FileMode.ReadWrite, "read-write")):
        try:
            f = nixio.File.open(path, mode)
        except Exception as exc:  # noqa
            gc.collect()
            out[label] = {"open-failed": type(exc).__name__, "msg": str(exc)[:120]}
            continue
        try:
            out[label] = json.loads(json.dumps(walk.walk(f)))
        except Exception as exc:  # noqa
            out[label] = {"walk-failed": type(exc).__name__, "msg": str(exc)[:120]}
        finally:
            try:
                f.close()
            except Exception:  # noqa
                pass
    return out


def run_case(case, ctx):
    prog = case["prog"]
    upto = case["upto"]
    final = case["final"]
    path = os.path.join(ctx.workdir, "c17.nix")
    blind = case.get("observe") == "reference"
    if blind:
        # the killed writer never reads its file back; what it should hold is taken from a second writer that
        # runs the same history (same clock) and closes normally - equal up to the (random) ids
        recorded = crash_once(ctx, os.path.join(ctx.workdir, "c17-ref.nix"), prog, upto, True, final, True, False)
        crash_once(ctx, path, prog, upto, True, final, False, True)
        try:
            os.remove(os.path.join(ctx.workdir, "c17-ref.nix"))
        except OSError:
            pass
    else:
        recorded = crash_once(ctx, path, prog, upto, True, final)
    got = reopen_walks(path)
    kind = final["kind"] + ("(writer-did-not-read-back)" if blind else "")
    for label, W in got.items():
        if "open-failed" in W or "walk-failed" in W:
            ctx.violation("C17/%s/%s/cannot-open" % (kind, label), case, W)
            continue
        if blind:
            from props.c20 import compare_modulo_ids
            idmap = {}
            d = compare_modulo_ids(recorded, W, idmap)
            if not d and any(len(v) > 1 for v in idmap.values()):
                d = ("/ids", "one entity of the reference run", "several ids after the kill")
        else:
            d = walk.diff(recorded, W)
        if d:
            import re
            ctx.violation("C17/%s/%s/state-differs%s" % (kind, label, re.sub(r"\[\d+\]", "", d[0])), case,
                          {"path": d[0], "recorded": walk.brief(d[1], 150), "after-kill": walk.brief(d[2], 150)})
    # control: same history, killed without the flush - measures that the harness can see a loss
    if case.get("control"):
        try:
            rec2 = crash_once(ctx, path, prog, upto, False, final)
            got2 = reopen_walks(path)
            lost = any(("open-failed" in W or "walk-failed" in W or walk.diff(rec2, W)) for W in got2.values())
            ctx.add("control_runs", 1)
            if lost:
                ctx.add("control_divergences", 1)
        except RuntimeError:
            ctx.add("control_harness_errors", 1)
    done = prog[:upto]
    creations = sum(1 for o in done if o["op"].startswith("mk_"))
    appends = sum(1 for o in done if o["op"] == "append")
    since = 0
    for o in reversed(done):
        if o["op"] == "flush":
            break
        if o["op"] not in ("tick",):
            since += 1
    nt = (creations >= 3 or appends >= 1) and since >= 1
    classes = ["point:" + final["kind"], "writer:" + ("second-handle-of-the-process" if final.get("app") else "only-handle"), "path:" + ("held-a-file-before" if final.get("pre") else "new"), "expected-from:" + ("reference-run" if blind else "walk-before-flush"),
               "compress" if final.get("compress") else "plain",
               "appends:%d" % min(appends, 3), "since-last-flush:%d" % min(since, 5)]
    between = []
    for o in reversed(done):
        if o["op"] == "flush":
            break
        between.append(o["op"])
    if between and len(set(between)) == 1 and any(o["op"] == "flush" for o in done):
        classes.append("only-since-previous-flush:" + between[0])
    for p in (path, path + ".walk.json"):
        try:
            os.remove(p)
        except OSError:
            pass
    ctx.case({"prog": prog, "upto": upto, "final": final, "observe": case.get("observe", "walk")}, nt, classes,
             sample={"upto": upto, "final": final, "prog": prog[:8], "len": len(prog)})


def points(prog):
    return [i for i, o in enumerate(prog) if o["op"] == "flush"]


@st.composite
def program_strategy(draw, max_ops):
    prog = draw(ops.program(BUILD, min_size=max(5, max_ops // 2), max_size=max_ops, name_pool=["a", "b", "sig"]))
    if draw(st.booleans()):
        prog = ops.rich_prefix()[:draw(st.integers(10, 75))] + prog
    arrs = draw(st.lists(st.fixed_dictionaries({
        "op": st.just("mk_array"), "blk": st.integers(0, 2), "name": st.sampled_from(["big1", "big2", "cz"]),
        "type": st.just("t"), "dtype": st.sampled_from(["float64", "int16", "str"]),
        "shape": st.sampled_from([[50, 40], [3000], [20, 5, 5]]),
        "compression": st.sampled_from(["DeflateNormal", "No"])}), max_size=2))
    for a in arrs:
        prog.insert(draw(st.integers(0, len(prog))), a)
    # isolated intervals: between two flushes only ops of ONE kind happen (a write path that forgets to
    # mark the file dirty / a buffer that only one kind of op fills shows only when nothing else is written)
    S = ops.op_strategies(["a", "b", "sig"])
    for _ in range(draw(st.integers(0, 3))):
        kind = draw(st.sampled_from(ISOLATED))
        body = [draw(S[kind]) for _ in range(draw(st.integers(1, 3)))]
        at = draw(st.integers(min(len(prog), 8), len(prog)))
        prog[at:at] = [{"op": "flush"}] + body + [{"op": "flush"}]
    return {"prog": prog, "compress": draw(st.booleans()), "pre": draw(st.sampled_from([False, False, True])),
            "app": draw(st.sampled_from([False, False, False, True]))}


def run_program(pc, ctx, control_every):
    prog = pc["prog"]
    pts = points(prog)
    n = 0
    for i in pts:
        n += 1
        run_case({"prog": prog, "upto": i, "final": {"kind": "flush", "compress": pc["compress"], "pre": pc.get("pre", False), "app": pc.get("app", False)},
                  "control": (n % control_every == 0), "observe": "reference" if (n + len(prog)) % 3 == 0 else "walk"}, ctx)
    run_case({"prog": prog, "upto": len(prog), "final": {"kind": "close", "compress": pc["compress"], "pre": pc.get("pre", False), "app": pc.get("app", False)},
              "control": False, "observe": "reference" if len(prog) % 2 else "walk"}, ctx)


def shards(tier, seed):
    n, per, mx = (16, 8, 24) if tier == "quick" else (64, 25, 40)
    return [{"n": per, "max_ops": mx, "seed": seed * 1000 + i} for i in range(n)]


def run_shard(spec, ctx):
    gen.generate(program_strategy(spec["max_ops"]), spec["n"], spec["seed"], lambda pc: run_program(pc, ctx, 2))
    runs = ctx.extra.get("control_runs", 0)
    if runs:
        ctx.note("control_note", "control = same history killed without the flush; divergences show the harness can "
                                 "observe a lost write")


def replay(case, ctx):
    c = dict(case)
    c["control"] = False
    run_case(c, ctx)


def valid(case):
    try:
        return (0 <= case["upto"] <= len(case["prog"]) and case["final"]["kind"] in ("flush", "close") and
                (case["final"]["kind"] == "close" or case["upto"] == len(case["prog"]) or True) and
                all("op" in o for o in case["prog"]))
    except Exception:  # noqa
        return False
