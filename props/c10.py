# -*- coding: utf-8 -*-
"""C10 - metadata properties hold typed value lists; sections behave like ordered dicts (DESIGN 4/C10).

A case is a JSON op program over one section tree in a fresh file.  Entity references are small
integers resolved modulo the current population of the *model*, so every op of every generated or
shrunk program is applicable.  The oracle is a plain Python model (type tag, value list, attribute
dict per property; ordered properties + subsections per section) that shares no code with nixio.

Value encoding (JSON):  true/false -> boolean, JSON int -> integer, JSON float -> floating point,
{"f": "nan"|"inf"|"-inf"} -> non-finite floating point, JSON string -> text.
"""
import gc
import math
import os
import struct

import numpy as np
from hypothesis import strategies as st

from vlib import gen

ID = "C10"
LEVEL = "exploration"
RULE = ("JSON op programs over one section tree in a fresh file: create property (list / tuple / single value / "
        "NumPy scalars / DataType / section[key]=list / section[key]=single), assign / extend_values (list, tuple, "
        "single, ndarray of the canonical dtype, 2-D ndarray for extend, NumPy scalars, section[key]=...), clear "
        "([], (), None, delete_values, section[key]=[]), the eight optional attributes, del section[key], "
        "sub-section create (create_section / section[key]=S(..)) and delete, dict-style probes (in / [] for names that "
        "are a property, a sub-section, both or neither; len; iteration; items), close+reopen (read-only and "
        "read-write); handles by cached object, name, id, index, negative index. Values: bool, int (int64 extremes), "
        "float (NaN, +-inf, -0.0, denormal), text ('' / non-ASCII / astral), lengths 1-6; candidate lists of the same "
        "type, of another type, and mixed with the odd element at every position (bool-in-int, int-in-float, ...). "
        "Part A enumerates the grid {property type} x {odd type} x {length 2-6} x {odd position} x {create, assign, "
        "extend, section[key]=} x {list, tuple, NumPy scalars} and the single-value / whole-list type confusions "
        "exhaustively; part B are Hypothesis-generated programs (3-28 ops) whose candidates are steered by a "
        "generation-time copy of the model. Oracle: Python model; values element-wise with the creation type "
        "(NaN-aware, sign of zero kept) after every op and after reopen; mismatching / mixed candidates must raise "
        "TypeError and leave values unchanged; dict-style access must agree with the ordered property / sub-section "
        "lists. Non-trivial: >= 2 successful value-changing ops on one property, or a refused typed op followed by a "
        "read, or a clear followed by an extend; distinct by program hash.")
ASSUMPTIONS = [
    "the four property types are Bool, Int64, Double and String (what create_property infers from values); "
    "DataType creation is exercised with exactly these four",
    "integers stay inside int64 (overflow handling is C12's subject); text has no NUL and no lone surrogates "
    "(HDF5 variable-length strings cannot hold them)",
    "NumPy arrays count as 'the same type' only with the canonical dtype (bool_, int64, float64); int32 arrays and "
    "text arrays (dtype U / object) are an unspecified cell: either accepted with exactly these values or refused "
    "with the values unchanged",
    "unit strings come from already sanitised spellings (clean-up is C09's subject); unit '' reads back as None",
    "section[key]=tuple/ndarray, create with an empty list, section[newkey]=[] and extend_values([]) are outside the "
    "documented domain and not generated; names are plain (no '/', not UUID-like: C03's subject)",
    "`del section[key]` for a key that only names a sub-section may either raise (nothing changes) or delete the "
    "sub-section",
    "a refused create must not leave a property behind (reported under its own key, overlaps C12)",
    "the bare empty string handed over as a *single* value (prop.values = '', create_property(name, ''), "
    "extend_values('')) is the library's 'no value' (test_property.py::test_empties asserts that it clears) and is not "
    "generated; [''] and section[key] = '' are generated and must store one empty text value",
    "odml_type on a property that currently has no values is an unspecified cell (the setter inspects values[0]): "
    "a compatible type may be accepted or refused; incompatible types must be refused; odml_type is never reset",
]

NAMES = ["a", "b", "k", "ü", "sub", "x y"]
TAGS = ["b", "i", "f", "t"]
I64MAX, I64MIN = 2 ** 63 - 1, -2 ** 63
STR_ATTRS = ["definition", "reference", "dependency", "dependency_value", "value_origin"]
ATTRS = ["unit", "uncertainty", "odml_type"] + STR_ATTRS
ODML = ["boolean", "int", "float", "string", "text", "url", "person", "datetime", "date", "time"]
ODML_OK = {"b": {"boolean"}, "i": {"int"}, "f": {"float"},
           "t": {"string", "text", "url", "person", "datetime", "date", "time"}}
CREATE_HOWS = ["list", "tuple", "single", "npscalars", "dtype", "setitem", "setitem_single"]
ASSIGN_HOWS = ["list", "tuple", "single", "npscalars", "ndarray", "ndarray_alt", "ndarray_u64", "setitem", "setitem_single"]
EXTEND_HOWS = ["list", "tuple", "single", "npscalars", "ndarray", "ndarray2d", "ndarray_alt", "ndarray_u64"]


def u64big(d):
    """unsigned 64-bit values no signed 64-bit integer can hold"""
    return [2 ** 63 + (abs(int(x)) % 997) for x in d]
CLEAR_HOWS = ["list", "tuple", "none", "delete", "setitem"]
VIAS = ["cached", "name", "id", "index", "negindex"]
MAX_PROPS, MAX_SECS = 6, 6


def _nix():
    import nixio
    return nixio


# ------------------------------------------------------------------ values

def tag_of(e):
    if isinstance(e, bool):
        return "b"
    if isinstance(e, int):
        return "i"
    if isinstance(e, (float, dict)):
        return "f"
    if isinstance(e, str):
        return "t"
    raise ValueError("not a value: %r" % (e,))


def dec(e):
    return float(e["f"]) if isinstance(e, dict) else e


def enc(v):
    if isinstance(v, float) and not math.isfinite(v):
        return {"f": "nan" if v != v else ("inf" if v > 0 else "-inf")}
    return v


def valid_elem(e):
    if isinstance(e, bool):
        return True
    if isinstance(e, int):
        return I64MIN <= e <= I64MAX
    if isinstance(e, float):
        return math.isfinite(e)
    if isinstance(e, dict):
        return set(e) == {"f"} and e["f"] in ("nan", "inf", "-inf")
    if isinstance(e, str):
        if "\x00" in e:
            return False
        try:
            e.encode("utf-8")
        except UnicodeError:
            return False
        return True
    return False


def jval(v):
    """observed value -> JSON-able"""
    if isinstance(v, (bool, np.bool_)):
        return bool(v)
    if isinstance(v, (int, np.integer)):
        return int(v)
    if isinstance(v, (float, np.floating)):
        return enc(float(v))
    if isinstance(v, str):
        return str(v)
    if isinstance(v, (list, tuple)):
        return [jval(x) for x in v]
    return repr(v)[:80]


def family(v):
    """reference classification of an observed value (independent of nixio.DataType)"""
    if isinstance(v, (bool, np.bool_)):
        return "b"
    if isinstance(v, np.integer):
        return "i" if v.dtype == np.dtype("int64") else "i?"
    if isinstance(v, int):
        return "i"
    if isinstance(v, np.floating):
        return "f" if v.dtype == np.dtype("float64") else "f?"
    if isinstance(v, float):
        return "f"
    if isinstance(v, str):
        return "t"
    return "?"


def same_value(tag, want, got):
    if family(got) != tag:
        return False
    if tag == "f":
        w, g = float(want), float(got)
        if w != w:
            return g != g
        return struct.pack("<d", w) == struct.pack("<d", g)
    if tag == "b":
        return bool(got) == want
    if tag == "i":
        return int(got) == want
    return str(got) == want


def diff_values(tag, want, got):
    """None if the observed tuple equals the model list element-wise with the property's type"""
    if not isinstance(got, tuple):
        return {"want": jval(want), "got": jval(got), "why": "values is not a tuple"}
    if len(got) != len(want):
        return {"want": jval(want)[:12], "got": jval(got)[:12], "why": "length %d != %d" % (len(got), len(want))}
    for k, (w, g) in enumerate(zip(want, got)):
        if not same_value(tag, w, g):
            return {"want": jval(want)[:12], "got": jval(got)[:12], "why": "element %d: %r (%s) != %r" % (
                k, jval(g), type(g).__name__, jval(w))}
    return None


def dtype_ok(tag, dt):
    try:
        if tag == "t":
            return dt is np.str_ or (isinstance(dt, type) and issubclass(dt, np.str_))
        want = {"b": "bool", "i": "int64", "f": "float64"}[tag]
        return not isinstance(dt, type) and np.dtype(dt) == np.dtype(want)
    except Exception:  # noqa
        return False


def cand_class(tag, vals, how):
    """input class of a candidate list against a property of type ``tag`` (for finding keys / coverage)"""
    tags = [tag_of(e) for e in vals]
    if all(t == tag for t in tags):
        return "same"
    if len(set(tags)) == 1:
        return "other:%s-into-%s" % (tags[0], tag)
    odd = [k for k, t in enumerate(tags) if t != tag]
    pos = "pos0" if odd[0] == 0 else "pos+"
    if len(odd) == 1:
        return "mixed:%s-in-%s/%s" % (tags[odd[0]], tag, pos)
    return "mixed:multi-in-%s/%s" % (tag, pos)


def majority_tag(vals):
    tags = [tag_of(e) for e in vals]
    best = max(TAGS, key=lambda t: (tags.count(t), -tags.index(t) if t in tags else -99))
    return best


def build_arg(vals, how, alt=None):
    """the Python object handed to nixio"""
    d = [dec(e) for e in vals]
    if how in ("list", "setitem"):
        return d
    if how == "tuple":
        return tuple(d)
    if how in ("single", "setitem_single"):
        return d[0]
    if how == "npscalars":
        wrap = {"b": np.bool_, "i": np.int64, "f": np.float64, "t": np.str_}
        return [wrap[tag_of(e)](x) for e, x in zip(vals, d)]
    t = tag_of(vals[0])
    npd = {"b": np.bool_, "i": np.int64, "f": np.float64}
    if how == "ndarray":
        return np.array(d, dtype=npd[t])
    if how == "ndarray2d":
        return np.array(d, dtype=npd[t]).reshape(2, -1)
    if how == "ndarray_u64":
        return np.array(u64big(d), dtype=np.uint64)
    if how == "ndarray_alt":
        if t == "i":
            return np.array(d, dtype=np.int32)
        return np.array(d, dtype=object) if alt == "O" else np.array(d)
    raise ValueError(how)


def how_ok(how, vals, kind):
    """domain restrictions of a (how, vals) pair; kind in create/assign/extend"""
    if not isinstance(vals, list) or not all(valid_elem(e) for e in vals):
        return False
    if len(vals) > 8:
        return False
    if how == "single":
        # the bare empty string is the library's "no value" (nixio/test/test_property.py::test_empties asserts that
        # `prop.values = ""` clears, create_property(name, "") asks for a non-empty value): not a text value here
        return len(vals) == 1 and vals != [""]
    if how == "setitem_single":
        return len(vals) == 1
    if how == "setitem":
        return len(vals) >= (0 if kind == "assign" else 1)
    if len(vals) < 1:
        return False
    tags = {tag_of(e) for e in vals}
    if how in ("ndarray", "ndarray2d"):
        if len(tags) != 1 or "t" in tags:
            return False
        return how == "ndarray" or (len(vals) % 2 == 0)
    if how == "ndarray_u64":
        return tags == {"i"}
    if how == "ndarray_alt":
        if len(tags) != 1:
            return False
        if tags == {"i"}:
            return all(-2 ** 31 <= e < 2 ** 31 for e in vals)
        return tags == {"t"}
    return True


# ------------------------------------------------------------------ model

class MProp:
    def __init__(self, name, tag, vals):
        self.name, self.tag, self.vals = name, tag, list(vals)
        self.attrs = {a: None for a in ATTRS}
        self.id = None
        self.handle = None
        self.cleared = not vals
        self.changes = 0


class MSec:
    def __init__(self, name, parent):
        self.name, self.parent = name, parent
        self.props, self.secs = [], []
        self.id = None
        self.handle = None

    def prop(self, name):
        for p in self.props:
            if p.name == name:
                return p
        return None

    def sec(self, name):
        for s in self.secs:
            if s.name == name:
                return s
        return None

    def path(self):
        p, s = [], self
        while s is not None:
            p.append(s.name)
            s = s.parent
        return list(reversed(p))

    def subtree(self):
        out = [self]
        for s in self.secs:
            out.extend(s.subtree())
        return out


class Model:
    def __init__(self):
        self.root = MSec("root", None)
        self.order = [self.root]       # live sections in creation order

    def rsec(self, i):
        return self.order[int(i) % len(self.order)]

    @staticmethod
    def rprop(ms, j):
        return ms.props[int(j) % len(ms.props)] if ms.props else None


def plan(model, op):
    """
    The oracle for one op as a function of the model only: what must happen.
    -> dict(want = accept | refuse (any exception) | refuse-type (TypeError) | lenient | skip,
            sec, prop, cls (input class), new (model value list after acceptance), tag, why)
    """
    kind = op["op"]
    ms = model.rsec(op.get("sec", 0))
    out = {"want": "skip", "sec": ms, "prop": None, "cls": "", "why": ""}
    if kind in ("reopen", "probe"):
        out["want"] = "accept"
        return out
    if kind == "mk_sec":
        if len(model.order) >= MAX_SECS:
            out["why"] = "section cap"
        elif ms.sec(op["name"]) is not None:
            out.update(want="refuse", cls="duplicate-name")
        else:
            out.update(want="accept", cls="new")
        return out
    if kind == "del_sec":
        if ms.parent is None:
            out["why"] = "root"
        else:
            out.update(want="accept")
        return out
    if kind == "mk_prop":
        how, name = op["how"], op["name"]
        mp = ms.prop(name)
        if mp is not None:
            if how in ("setitem", "setitem_single"):
                return plan_typed(out, mp, "assign", how, op["vals"])
            out.update(want="refuse", cls="duplicate-name", prop=mp)
            return out
        if len(ms.props) >= MAX_PROPS:
            out["why"] = "property cap"
            return out
        if how == "dtype":
            out.update(want="accept", cls=op["t"], tag=op["t"], new=[])
            return out
        vals = op["vals"]
        if not vals:
            out["why"] = "empty create"
            return out
        tags = {tag_of(e) for e in vals}
        if len(tags) == 1:
            tag = tags.pop()
            out.update(want="accept", cls="same", tag=tag, new=[dec(e) for e in vals])
        else:
            out.update(want="refuse-type", cls=cand_class(majority_tag(vals), vals, how))
        return out
    # ops on an existing property
    mp = model.rprop(ms, op.get("prop", 0))
    if mp is None:
        out["why"] = "no property"
        return out
    out["prop"] = mp
    if kind in ("assign", "extend"):
        return plan_typed(out, mp, kind, op["how"], op["vals"])
    if kind == "clear":
        out.update(want="accept", cls=op["how"], new=[])
        return out
    if kind == "del_prop":
        out.update(want="accept", cls=op.get("by", "delitem"))
        return out
    if kind == "set_attr":
        attr, val = op["attr"], op["val"]
        if attr == "odml_type":
            if val in ODML_OK[mp.tag]:
                # the setter tests values[0]; without values it raises IndexError although the docstring speaks of
                # "the value data type of the property" - unspecified cell: accepted or refused (unchanged)
                out.update(want="accept" if mp.vals else "lenient",
                           cls="compatible" + ("" if mp.vals else "/empty-values"), new=val)
            else:
                out.update(want="refuse", cls="incompatible" + ("" if mp.vals else "/empty-values"))
        elif attr == "unit":
            out.update(want="accept", cls=aclass(val), new=(val or None))
        elif attr == "uncertainty":
            out.update(want="accept", cls=aclass(val), new=(None if val is None else float(val)))
        else:
            out.update(want="accept", cls=aclass(val), new=val)
        return out
    raise ValueError("unknown op %r" % kind)


def aclass(val):
    if val is None:
        return "none"
    if isinstance(val, str):
        if val == "":
            return "empty"
        return "ascii" if all(ord(c) < 128 for c in val) else "non-ascii"
    return "int" if isinstance(val, int) else "float"


def plan_typed(out, mp, kind, how, vals):
    out["prop"] = mp
    out["kind"] = kind
    if not vals:                     # section[key] = [] on an existing property
        out.update(want="accept", cls="setitem-empty", new=[], kind="clear")
        return out
    cls = cand_class(mp.tag, vals, how)
    d = [dec(e) for e in vals]
    new = (mp.vals + d) if kind == "extend" else d
    if how == "ndarray_u64":
        # an integer array of another width whose values the property's type cannot hold: refused (values
        # unchanged), or - if accepted - stored as given; never wrapped into other numbers
        big = u64big(d)
        if mp.tag == "i":
            out.update(want="lenient", cls="uint64-beyond-int64", new=(mp.vals + big) if kind == "extend" else big)
        else:
            out.update(want="refuse-type", cls="uint64-into-%s" % mp.tag)
        return out
    if how == "ndarray_alt":
        if tag_of(vals[0]) == mp.tag:
            out.update(want="lenient", cls="alt-dtype:" + mp.tag, new=new)
        else:
            out.update(want="refuse-type", cls="alt-dtype:%s-into-%s" % (tag_of(vals[0]), mp.tag))
        return out
    if cls == "same":
        out.update(want="accept", cls=cls, new=new)
    else:
        out.update(want="refuse-type", cls=cls)
    return out


def apply_plan(model, op, pl):
    """model transition for an op that was (expected to be / observed to be) accepted"""
    kind = op["op"]
    ms, mp = pl["sec"], pl["prop"]
    if kind == "mk_sec":
        s = MSec(op["name"], ms)
        ms.secs.append(s)
        model.order.append(s)
        return s
    if kind == "del_sec":
        ms.parent.secs.remove(ms)
        dead = set(id(s) for s in ms.subtree())
        model.order = [s for s in model.order if id(s) not in dead]
        return None
    if kind == "mk_prop" and pl.get("kind") is None:
        p = MProp(op["name"], pl["tag"], pl["new"])
        ms.props.append(p)
        return p
    if kind == "del_prop":
        ms.props.remove(mp)
        return None
    if kind == "set_attr":
        mp.attrs[op["attr"]] = pl["new"]
        return mp
    if kind in ("assign", "extend", "clear", "mk_prop"):
        k2 = pl.get("kind", kind)
        if k2 == "extend" and mp.cleared:
            mp.flag_clear_extend = True
        mp.vals = list(pl["new"])
        mp.cleared = not mp.vals
        mp.changes += 1
        return mp
    return None


# ------------------------------------------------------------------ interpreter

class Run:
    def __init__(self, ctx, case):
        self.nix = _nix()
        self.ctx, self.case = ctx, case
        self.path = os.path.join(ctx.workdir, "c10.nix")
        if os.path.exists(self.path):
            os.remove(self.path)
        self.model = Model()
        self.f = self.nix.File.open(self.path, self.nix.FileMode.Overwrite)
        self.model.root.handle = self.f.create_section("root", "t")
        self.model.root.id = self.model.root.handle.id
        self.classes = set()
        self.refused_typed = 0
        self.clear_extend = 0
        self.skips = 0
        self.opi = -1
        self.reopens = 0

    # -- plumbing
    def v(self, key, detail):
        d = dict(detail)
        d["op_index"] = self.opi
        self.ctx.violation("C10/" + key, self.case, d)

    def close(self):
        try:
            self.f.close()
        except Exception:  # noqa
            pass
        try:
            os.remove(self.path)
        except OSError:
            pass

    def resolve(self, ms):
        sec = self.f.sections[ms.path()[0]]
        for name in ms.path()[1:]:
            sec = sec.sections[name]
        return sec

    def rebind(self):
        for ms in self.model.order:
            ms.handle = self.resolve(ms)
            for mp in ms.props:
                mp.handle = ms.handle.props[mp.name]

    def hsec(self, ms, fresh=False):
        if fresh or ms.handle is None:
            ms.handle = self.resolve(ms)
        return ms.handle

    def hprop(self, ms, mp, via):
        sec = self.hsec(ms)
        try:
            if via == "cached" and mp.handle is not None:
                return mp.handle
            if via == "id":
                return sec.props[mp.id]
            if via == "index":
                return sec.props[ms.props.index(mp)]
            if via == "negindex":
                return sec.props[ms.props.index(mp) - len(ms.props)]
            return sec.props[mp.name]
        except Exception as exc:  # noqa
            self.v("lookup/props-by-%s" % via, {"property": mp.name, "raised": type(exc).__name__,
                                                 "message": str(exc)[:120]})
            return self.resolve(ms).props[mp.name]

    def read_values(self, ms, mp):
        """values through a fresh lookup by name; (status, tuple)"""
        try:
            return "ok", self.resolve(ms).props[mp.name].values
        except Exception as exc:  # noqa
            return "raised:" + type(exc).__name__, str(exc)[:120]

    def resync(self, mp, got):
        """after a reported value mismatch: continue from what is really stored"""
        if isinstance(got, tuple):
            vals = []
            for g in got:
                f = family(g)[0]
                vals.append({"b": bool, "i": int, "f": float, "t": str}.get(f, lambda x: x)(g))
            mp.vals = vals
            mp.cleared = not vals

    # -- ops
    def step(self, op):
        self.opi += 1
        kind = op["op"]
        pl = plan(self.model, op)
        ms, mp = pl["sec"], pl["prop"]
        if pl["want"] == "skip":
            self.skips += 1
            self.classes.add("skip:" + kind)
            return
        if op.get("fs"):
            self.hsec(ms, fresh=True)
        if kind == "reopen":
            self.reopen()
            return
        if kind == "probe":
            self.classes.add("probe:" + self.keyclass(ms, op["key"]))
            self.check_section(ms, "state", keys=[op["key"]])
            return
        getattr(self, "do_" + kind)(op, pl, ms, mp)
        # light check after every op (through the long-lived section handle): structure, the touched key and the
        # touched property; everything else is compared by probe ops, at every reopen and at the end
        tgt = ms.parent if kind == "del_sec" else ms
        name = op.get("name") or (mp.name if mp is not None else None)
        if kind in ("mk_sec", "del_sec"):
            name = op.get("name", ms.name)
        self.check_section(tgt, "state", keys=[name] if name else [], srcs=("cached",), only=name)

    def do_mk_sec(self, op, pl, ms, mp):
        sec = self.hsec(ms)
        via = op.get("via", "create")
        self.classes.add("mk_sec:%s:%s" % (via, pl["cls"]))
        try:
            if via == "S":
                holder = self.nix.S("t")
                sec[op["name"]] = holder
                new = holder.section
            else:
                new = sec.create_section(op["name"], "t")
            status = "ok"
        except Exception as exc:  # noqa
            status, new = "raised:" + type(exc).__name__, None
        if pl["want"] == "accept":
            if status != "ok":
                self.v("mk_sec/%s/refused" % via, {"name": op["name"], "status": status})
                return
            s = apply_plan(self.model, op, pl)
            s.handle, s.id = new, new.id
        elif status == "ok":
            self.v("mk_sec/%s/duplicate-name-accepted" % via, {"name": op["name"]})

    def do_del_sec(self, op, pl, ms, mp):
        parent = self.hsec(ms.parent)
        self.classes.add("del_sec")
        try:
            del parent.sections[ms.name]
        except Exception as exc:  # noqa
            self.v("del_sec/refused", {"name": ms.name, "raised": type(exc).__name__, "message": str(exc)[:120]})
            return
        apply_plan(self.model, op, pl)

    def do_mk_prop(self, op, pl, ms, mp):
        if pl.get("kind") is not None:         # section[key] = ... on an existing property
            self.typed(op, pl, ms, mp, pl["kind"], op["how"], "name")
            return
        sec = self.hsec(ms)
        how, name = op["how"], op["name"]
        nix = self.nix
        self.classes.add("create:%s:%s" % (how, pl["cls"].split("/")[0]))
        try:
            if how == "dtype":
                dt = {"b": nix.DataType.Bool, "i": nix.DataType.Int64, "f": nix.DataType.Double,
                      "t": nix.DataType.String}[op["t"]]
                h = sec.create_property(name, dt)
            elif how in ("setitem", "setitem_single"):
                sec[name] = build_arg(op["vals"], how)
                h = None
            else:
                h = sec.create_property(name, build_arg(op["vals"], how))
            status, msg = "ok", ""
        except Exception as exc:  # noqa
            status, msg, h = "raised:" + type(exc).__name__, str(exc)[:120], None
            exc_is_type = isinstance(exc, TypeError)
        key = "create/%s/%s" % ("list-like" if how in ("list", "tuple", "npscalars") else how, pl["cls"])
        want = pl["want"]
        if want == "accept":
            if status != "ok":
                self.v(key + "/refused", {"name": name, "vals": op.get("vals"), "status": status, "message": msg})
                self.leftover(ms, name, key)
                return
            p = apply_plan(self.model, op, pl)
            try:
                if h is None:
                    h = self.resolve(ms).props[name]
                p.handle, p.id = h, h.id
            except Exception as exc:  # noqa
                self.v(key + "/not-created", {"name": name, "raised": type(exc).__name__})
                ms.props.remove(p)
                return
            self.classes.add("tag:" + p.tag)
            st_, got = self.read_values(ms, p)
            d = diff_values(p.tag, p.vals, got) if st_ == "ok" else {"status": st_, "message": got}
            if d:
                self.v(key + "/values-wrong/" + p.tag, d)
                self.resync(p, got)
            if how not in ("setitem", "setitem_single"):
                st2, got2 = self.safe(lambda: h.values)
                d = diff_values(p.tag, p.vals, got2) if st2 == "ok" else {"status": st2}
                if d:
                    self.v(key + "/returned-handle-values-wrong/" + p.tag, d)
            return
        # refusals
        if mp is not None:                      # duplicate name through create_property
            if status == "ok":
                self.v(key + "/accepted", {"name": name})
            st_, got = self.read_values(ms, mp)
            d = diff_values(mp.tag, mp.vals, got) if st_ == "ok" else {"status": st_, "message": got}
            if d:
                self.v(key + "/existing-values-changed", d)
                self.resync(mp, got)
            return
        self.refused_typed += 1
        if status == "ok":
            self.v(key + "/accepted", {"name": name, "vals": op["vals"]})
        elif want == "refuse-type" and not exc_is_type:
            self.v(key + "/wrong-exception-kind", {"name": name, "vals": op["vals"], "status": status, "message": msg})
        self.leftover(ms, name, key)

    def leftover(self, ms, name, key):
        """a refused create must not have created anything; if it did, adopt it so that the run can go on"""
        try:
            h = self.resolve(ms).props[name]
        except Exception:  # noqa
            return
        st_, got = self.safe(lambda: h.values)
        self.v(key + "/property-left-behind", {"name": name, "values": jval(got) if st_ == "ok" else st_})
        tag = None
        for t in TAGS:
            if dtype_ok(t, self.safe(lambda: h.data_type)[1]):
                tag = t
        if tag is None:
            try:
                del self.resolve(ms).props[name]
            except Exception:  # noqa
                pass
            return
        p = MProp(name, tag, [])
        p.handle, p.id = h, h.id
        ms.props.append(p)
        self.resync(p, got if st_ == "ok" else ())

    @staticmethod
    def safe(fn):
        try:
            return "ok", fn()
        except Exception as exc:  # noqa
            return "raised:" + type(exc).__name__, str(exc)[:120]

    def do_assign(self, op, pl, ms, mp):
        self.typed(op, pl, ms, mp, pl.get("kind", "assign"), op["how"], op.get("via", "name"))

    def do_extend(self, op, pl, ms, mp):
        self.typed(op, pl, ms, mp, "extend", op["how"], op.get("via", "name"))

    def typed(self, op, pl, ms, mp, kind, how, via):
        vals = op["vals"]
        arg = build_arg(vals, how, op.get("alt")) if vals else []
        before = list(mp.vals)
        state = "/after-clear" if (kind == "extend" and mp.cleared) else ""
        self.classes.add("%s:%s" % (kind if op["op"] != "mk_prop" else "setitem-existing", how))
        self.classes.add("cand:" + pl["cls"].split("/")[0])
        if "/" in pl["cls"]:
            self.classes.add("odd-" + pl["cls"].split("/")[1])
        if state:
            self.classes.add("extend-after-clear")
        exc_is_type = False
        try:
            if how in ("setitem", "setitem_single"):
                self.hsec(ms)[mp.name] = arg
            elif kind == "extend":
                self.hprop(ms, mp, via).extend_values(arg)
            else:
                self.hprop(ms, mp, via).values = arg
            status, msg = "ok", ""
        except Exception as exc:  # noqa
            status, msg = "raised:" + type(exc).__name__, str(exc)[:120]
            exc_is_type = isinstance(exc, TypeError)
        # list, tuple and lists of NumPy scalars go through the same branch of the same call site
        site = "list-like" if how in ("list", "tuple", "npscalars") else how
        key = "%s/%s/%s%s" % (kind, site, pl["cls"], state)

        def sym(suffix):
            return key + suffix
        want = pl["want"]
        det = {"property": mp.name, "type": mp.tag, "before": jval(before)[:12], "candidate": vals, "status": status}
        if msg:
            det["message"] = msg
        if want == "lenient":
            want = "accept" if status == "ok" else "refuse"
            self.classes.add("lenient:%s:%s" % (pl["cls"], "accepted" if status == "ok" else "refused"))
        if want == "accept":
            if status != "ok":
                self.v(sym("/refused"), det)
                expect = before
            else:
                apply_plan(self.model, op, pl)
                expect = mp.vals
                if state:
                    self.clear_extend += 1
        else:
            self.refused_typed += 1
            expect = before
            if status == "ok":
                self.v(sym("/accepted"), det)
            elif want == "refuse-type" and not exc_is_type:
                self.v(sym("/wrong-exception-kind"), det)
        st_, got = self.read_values(ms, mp)
        d = diff_values(mp.tag, expect, got) if st_ == "ok" else {"status": st_, "message": got}
        if d:
            d.update(det)
            if want != "accept" and status == "ok":
                pass        # already reported as "accepted"; that the values changed is its consequence
            else:
                self.v(sym("/values-wrong" if (want == "accept" and status == "ok") else "/values-changed"), d)
            self.resync(mp, got)

    def do_clear(self, op, pl, ms, mp):
        how, via = op["how"], op.get("via", "name")
        self.classes.add("clear:" + how)
        try:
            if how == "setitem":
                self.hsec(ms)[mp.name] = []
            else:
                h = self.hprop(ms, mp, via)
                if how == "delete":
                    h.delete_values()
                else:
                    h.values = {"list": [], "tuple": (), "none": None}[how]
            status = "ok"
        except Exception as exc:  # noqa
            status = "raised:%s %s" % (type(exc).__name__, str(exc)[:100])
        if status != "ok":
            self.v("clear/%s/refused" % how, {"property": mp.name, "type": mp.tag, "status": status})
        else:
            apply_plan(self.model, op, pl)
        st_, got = self.read_values(ms, mp)
        d = diff_values(mp.tag, mp.vals, got) if st_ == "ok" else {"status": st_, "message": got}
        if d:
            self.v("clear/%s/values-wrong" % how, d)
            self.resync(mp, got)

    def do_del_prop(self, op, pl, ms, mp):
        by = op.get("by", "delitem")
        self.classes.add("del_prop:" + by)
        sec = self.hsec(ms)
        try:
            if by == "props":
                del sec.props[mp.name]
            else:
                del sec[mp.name]
            status = "ok"
        except Exception as exc:  # noqa
            status = "raised:%s %s" % (type(exc).__name__, str(exc)[:100])
        if status != "ok":
            self.v("del/%s/refused" % by, {"property": mp.name, "status": status})
            return
        apply_plan(self.model, op, pl)

    def do_set_attr(self, op, pl, ms, mp):
        attr, val, via = op["attr"], op["val"], op.get("via", "name")
        self.classes.add("attr:%s:%s" % (attr, pl["cls"].split("/")[0]))
        h = self.hprop(ms, mp, via)
        try:
            if attr == "odml_type":
                setattr(h, attr, self.nix.OdmlType(val))
            else:
                setattr(h, attr, val)
            status = "ok"
        except Exception as exc:  # noqa
            status = "raised:%s %s" % (type(exc).__name__, str(exc)[:100])
        key = "attr/%s/%s" % (attr, pl["cls"])
        want = pl["want"]
        if want == "lenient":
            want = "accept" if status == "ok" else "refuse"
            self.classes.add("lenient:odml_type/empty-values:" + ("accepted" if status == "ok" else "refused"))
        if want == "accept":
            if status != "ok":
                self.v(key + "/refused", {"property": mp.name, "type": mp.tag, "value": val, "status": status})
            else:
                apply_plan(self.model, op, pl)
        elif status == "ok":
            self.v(key + "/accepted", {"property": mp.name, "type": mp.tag, "value": val})
            mp.attrs[attr] = val
        # the read-back is part of check_section (attribute comparison of every property)

    # -- observation
    def keyclass(self, ms, key):
        p, s = ms.prop(key) is not None, ms.sec(key) is not None
        return "prop+subsection" if (p and s) else ("prop" if p else ("subsection" if s else "missing"))

    def check_prop(self, ms, mp, h, prefix, src):
        st_, got = self.safe(lambda: h.values)
        d = diff_values(mp.tag, mp.vals, got) if st_ == "ok" else {"status": st_, "message": got}
        if d:
            d["property"] = mp.name
            self.v("%s/values/%s/%s" % (prefix, src, mp.tag), d)
            if src == "by-name":
                self.resync(mp, got)
        st_, dt = self.safe(lambda: h.data_type)
        if st_ != "ok" or not dtype_ok(mp.tag, dt):
            self.v("%s/data_type/%s" % (prefix, mp.tag), {"property": mp.name, "got": repr(dt)[:60], "status": st_})
        st_, nm = self.safe(lambda: h.name)
        if st_ != "ok" or nm != mp.name:
            self.v("%s/name" % prefix, {"property": mp.name, "got": jval(nm)})
        st_, pid = self.safe(lambda: h.id)
        if st_ != "ok" or pid != mp.id:
            self.v("%s/id" % prefix, {"property": mp.name, "got": jval(pid), "want": mp.id})
        for a in ATTRS:
            want = mp.attrs[a]
            st_, g = self.safe(lambda: getattr(h, a))
            ok = st_ == "ok"
            if ok:
                if a == "odml_type":
                    ok = (g is None and want is None) or (g is not None and getattr(g, "value", None) == want)
                    g = getattr(g, "value", g)
                elif a == "uncertainty":
                    ok = (g is None and want is None) or (g is not None and want is not None and
                                                          isinstance(g, (float, np.floating)) and float(g) == want)
                else:
                    ok = (g is None and want is None) or (isinstance(g, str) and g == want)
            if not ok:
                self.v("%s/attr/%s/%s" % (prefix, a, aclass(want) if a != "odml_type" else "any"),
                       {"property": mp.name, "want": want, "got": jval(g), "status": st_})
                if st_ == "ok":
                    mp.attrs[a] = g if not isinstance(g, np.floating) else float(g)

    def check_section(self, ms, prefix, keys=None, srcs=("fresh", "cached"), only=None):
        """``only``: compare the stored state of just that property (None: of every property)"""
        nix = self.nix
        try:
            sec = self.resolve(ms)
        except Exception as exc:  # noqa
            self.v(prefix + "/section-lost", {"section": ms.path(), "raised": type(exc).__name__})
            return
        cached = ms.handle
        want_names = [p.name for p in ms.props] + [s.name for s in ms.secs]
        if cached is None:
            srcs = ("fresh",)
        for src, h in (("fresh", sec), ("cached", cached)):
            if src not in srcs:
                continue
            st_, n = self.safe(lambda: len(h))
            if st_ != "ok" or n != len(ms.props):
                self.v("%s/len/%s" % (prefix, src), {"want": len(ms.props), "got": jval(n), "status": st_})
            st_, items = self.safe(lambda: [(k, type(x).__name__, x.name) for k, x in h.items()])
            want_items = [(p.name, "Property", p.name) for p in ms.props] + \
                         [(s.name, "Section", s.name) for s in ms.secs]
            if st_ != "ok" or items != want_items:
                self.v("%s/items/%s" % (prefix, src), {"want": want_names, "got": jval(items), "status": st_})
            if only is not None:
                light = True        # per-op check: len, items and the touched key only
            else:
                light = False
            st_, it = ("ok", [(k, nm) for (_, k, nm) in want_items]) if light else \
                self.safe(lambda: [(type(x).__name__, x.name) for x in h])
            if st_ != "ok" or it != [(k, nm) for (_, k, nm) in want_items]:
                self.v("%s/iter/%s" % (prefix, src), {"want": want_names, "got": jval(it), "status": st_})
            st_, pn = ("ok", [p.name for p in ms.props]) if light else self.safe(lambda: [p.name for p in h.props])
            if st_ != "ok" or pn != [p.name for p in ms.props]:
                self.v("%s/props-list/%s" % (prefix, src), {"want": [p.name for p in ms.props], "got": jval(pn)})
            st_, sn = ("ok", [(s.name, s.id) for s in ms.secs]) if light else \
                self.safe(lambda: [(s.name, s.id) for s in h.sections])
            if st_ != "ok" or sn != [(s.name, s.id) for s in ms.secs]:
                self.v("%s/sections-list/%s" % (prefix, src), {"want": [s.name for s in ms.secs], "got": jval(sn)})
            for key in (keys if keys is not None else sorted(set(NAMES) | set(want_names))):
                kc = self.keyclass(ms, key)
                st_, isin = self.safe(lambda: key in h)
                if st_ != "ok" or isin is not (kc != "missing"):
                    self.v("%s/contains/%s/%s" % (prefix, kc, src), {"key": key, "got": jval(isin), "status": st_})
                st_, val = self.safe(lambda: h[key])
                mp = ms.prop(key)
                if mp is not None:
                    lc = "empty" if not mp.vals else ("single" if len(mp.vals) == 1 else "multi")
                    kk = "%s/getitem/%s/%s/%s/%s" % (prefix, kc, mp.tag, lc, src)
                    if st_ != "ok":
                        self.v(kk, {"key": key, "status": st_, "message": val})
                    elif len(mp.vals) == 1:
                        if isinstance(val, (list, tuple)) or not same_value(mp.tag, mp.vals[0], val):
                            self.v(kk, {"key": key, "want": jval(mp.vals[0]), "got": jval(val),
                                        "got_type": type(val).__name__})
                    else:
                        d = diff_values(mp.tag, mp.vals, tuple(val)) if isinstance(val, list) else \
                            {"why": "not a list", "got": jval(val), "got_type": type(val).__name__}
                        if d:
                            d["key"] = key
                            self.v(kk, d)
                elif kc == "subsection":
                    if st_ != "ok" or not isinstance(val, nix.Section) or val.name != key or \
                            val.id != ms.sec(key).id:
                        self.v("%s/getitem/subsection/%s" % (prefix, src), {"key": key, "status": st_,
                                                                            "got": jval(val)})
                elif st_ == "ok":
                    self.v("%s/getitem/missing/%s" % (prefix, src), {"key": key, "got": jval(val)})
        for mp in list(ms.props):
            if only is not None and mp.name != only:
                continue
            st_, h = self.safe(lambda: sec.props[mp.name])
            if st_ != "ok":
                self.v("%s/props-by-name" % prefix, {"property": mp.name, "status": st_})
                continue
            self.check_prop(ms, mp, h, prefix, "by-name")
            if mp.handle is not None:
                st_, got = self.safe(lambda: mp.handle.values)
                d = diff_values(mp.tag, mp.vals, got) if st_ == "ok" else {"status": st_, "message": got}
                if d:
                    d["property"] = mp.name
                    self.v("%s/values/cached-handle/%s" % (prefix, mp.tag), d)

    def check_all(self, prefix, srcs=("fresh", "cached")):
        for ms in list(self.model.order):
            self.check_section(ms, prefix, srcs=srcs)

    def reopen(self, final=False):
        """close; reopen read-only and compare everything; (unless final) reopen read-write, compare, go on"""
        nix = self.nix
        self.reopens += 1
        self.f.close()
        for ms in self.model.order:
            ms.handle = None
            for mp in ms.props:
                mp.handle = None
        self.f = nix.File.open(self.path, nix.FileMode.ReadOnly)
        self.check_all("reopen")
        if final:
            return
        self.f.close()
        self.f = nix.File.open(self.path, nix.FileMode.ReadWrite)
        self.check_all("reopen")
        self.rebind()


def run_case(case, ctx):
    prog = case["prog"]
    run = Run(ctx, case)
    try:
        for op in prog:
            run.step(op)
        run.check_all("state", srcs=("cached",))
        run.reopen(final=True)
    finally:
        run.close()
    model = run.model
    allprops = [p for s in model.order for p in s.props]
    nt = run.refused_typed > 0 or run.clear_extend > 0 or any(p.changes >= 2 for p in allprops)
    classes = set(run.classes)
    classes.add("part:" + case.get("part", "random"))
    classes.add("refused-typed:%s" % ("0" if not run.refused_typed else "1+"))
    classes.add("reopens-in-program:%d" % min(run.reopens - 1, 3))
    if any(p.changes >= 2 for p in allprops):
        classes.add("nt:>=2-value-changes-on-one-property")
    if run.clear_extend:
        classes.add("nt:clear-then-extend")
    if any(len(p.vals) > 8 for p in allprops):
        classes.add("final:property-longer-than-8")
    if any(s.prop(x.name) for s in model.order for x in s.secs):
        classes.add("final:name-is-prop-and-subsection")
    ctx.count("ops", len(prog))
    ctx.count("ops-skipped", run.skips)
    sample = case if len(prog) <= 14 else {"part": case.get("part", "random"), "prog": prog[:14], "len": len(prog)}
    ctx.case(case, nt, sorted(classes), sample=sample)


# ------------------------------------------------------------------ generation

INT_EDGE = [0, 1, -1, 2, 255, I64MAX, I64MIN, 2 ** 53 + 1, -2 ** 31 - 1, 2 ** 31]
FLOAT_EDGE = [0.0, -0.0, 1.0, 2.0, -1.5, 0.1, 1e308, 5e-324, 2.5, 1e16, {"f": "nan"}, {"f": "inf"}, {"f": "-inf"}]
TEXT_EDGE = ["", "a", "ü", "日本", "x y", "😀", "True", "1", "1.5", "nan", "long" * 12, " ", "a\nb", "Ω µ"]
TEXT_ALPHA = st.characters(blacklist_categories=("Cs",), blacklist_characters="\x00")


def elem(tag):
    if tag == "b":
        return st.booleans()
    if tag == "i":
        return st.one_of(st.sampled_from(INT_EDGE), st.integers(-100, 100), st.integers(I64MIN, I64MAX))
    if tag == "f":
        return st.one_of(st.sampled_from(FLOAT_EDGE), st.integers(-5, 5).map(float),
                         st.floats(allow_nan=False, allow_infinity=False, width=64))
    return st.one_of(st.sampled_from(TEXT_EDGE), st.text(alphabet=TEXT_ALPHA, max_size=6))


def confusable(odd, tag):
    """an element of type ``odd`` that is easily mistaken for type ``tag``"""
    if odd == "b":
        return st.booleans()
    if odd == "i":
        return st.sampled_from([0, 1, 2, -3])
    if odd == "f":
        return st.sampled_from([1.0, 0.0, 2.0, {"f": "nan"}, 2.5])
    return st.sampled_from(["1", "True", "", "2.0", "ü"])


@st.composite
def candidate(draw, tag, how):
    """(vals, alt) for a typed op on a property of type ``tag`` - same type, another type, or mixed"""
    if how in ("single", "setitem_single"):
        t = tag if draw(st.integers(0, 9)) < 6 else draw(st.sampled_from([x for x in TAGS if x != tag]))
        pool = elem(t) if t == tag else st.one_of(elem(t), confusable(t, tag))
        if how == "single":
            pool = pool.filter(lambda e: e != "")
        return [draw(pool)], None
    if how in ("ndarray", "ndarray2d"):
        t = tag if (tag != "t" and draw(st.integers(0, 9)) < 6) else draw(
            st.sampled_from([x for x in "bif" if x != tag]))
        n = draw(st.integers(1, 6)) if how == "ndarray" else draw(st.sampled_from([2, 4, 6]))
        return [draw(elem(t)) for _ in range(n)], None
    if how == "ndarray_u64":
        return [draw(st.integers(-1000, 1000)) for _ in range(draw(st.integers(1, 4)))], None
    if how == "ndarray_alt":
        t = draw(st.sampled_from(["i", "t"]))
        n = draw(st.integers(1, 4))
        if t == "i":
            return [draw(st.integers(-2 ** 31, 2 ** 31 - 1)) for _ in range(n)], None
        return [draw(elem("t")) for _ in range(n)], draw(st.sampled_from(["U", "O"]))
    n = draw(st.integers(1, 6))
    r = draw(st.integers(0, 9))
    if r < 5:
        return [draw(elem(tag)) for _ in range(n)], None
    others = [x for x in TAGS if x != tag]
    if r < 7:
        t = draw(st.sampled_from(others))
        return [draw(st.one_of(elem(t), confusable(t, tag))) for _ in range(n)], None
    n = max(n, 2)
    vals = [draw(elem(tag)) for _ in range(n)]
    odd = draw(st.sampled_from(others))
    k = draw(st.integers(0, n - 1))
    vals[k] = draw(st.one_of(confusable(odd, tag), elem(odd)))
    if draw(st.integers(0, 5)) == 0:       # a second odd element
        vals[draw(st.integers(0, n - 1))] = draw(elem(draw(st.sampled_from(others))))
    return vals, None


UNITS = [None, "", "mV", "s", "kHz", "m/s", "V", "uA"]
ATTR_TEXT = [None, "", "a", "ü日本", "x y", "definition text", "😀"]
UNCERT = [None, 0, 1, 3, 0.0, 0.5, 1e-9, 12.25]


@st.composite
def program(draw, max_ops):
    model = Model()
    prog = []
    n = draw(st.integers(3, max_ops))
    weights = (["mk_prop"] * 4 + ["assign"] * 6 + ["extend"] * 6 + ["clear"] * 3 + ["set_attr"] * 3 +
               ["mk_sec"] * 2 + ["del_prop", "del_sec", "probe", "probe", "reopen", "reopen"])
    while len(prog) < n:
        allp = [p for s in model.order for p in s.props]
        kind = "mk_prop" if not allp and len(prog) < 2 else draw(st.sampled_from(weights))
        op = {"op": kind}
        if kind != "reopen":
            # prefer sections that have properties for property ops
            op["sec"] = draw(st.integers(0, 7))
            if draw(st.integers(0, 5)) == 0:
                op["fs"] = True
        ms = model.rsec(op.get("sec", 0))
        if kind == "mk_sec":
            op["name"] = draw(st.sampled_from(NAMES))
            op["via"] = draw(st.sampled_from(["create", "create", "S"]))
        elif kind == "probe":
            op["key"] = draw(st.sampled_from(NAMES))
        elif kind == "mk_prop":
            op["name"] = draw(st.sampled_from(NAMES))
            how = draw(st.sampled_from(CREATE_HOWS))
            op["how"] = how
            existing = ms.prop(op["name"])
            if how == "dtype":
                op["t"] = draw(st.sampled_from(TAGS))
            elif existing is not None and how in ("setitem", "setitem_single"):
                op["vals"], _ = draw(candidate(existing.tag, how))
            else:
                tag = draw(st.sampled_from(TAGS))
                vals, _ = draw(candidate(tag, "list" if how not in ("single", "setitem_single") else "single"))
                if how in ("single", "setitem_single"):
                    vals = [draw(elem(tag).filter(lambda e: how != "single" or e != ""))]
                op["vals"] = vals
        elif kind in ("assign", "extend", "clear", "set_attr", "del_prop"):
            if not ms.props:
                withp = [i for i, s in enumerate(model.order) if s.props]
                if withp:
                    op["sec"] = draw(st.sampled_from(withp))
                    ms = model.rsec(op["sec"])
            op["prop"] = draw(st.integers(0, 5))
            mp = model.rprop(ms, op["prop"])
            tag = mp.tag if mp is not None else "i"
            if kind in ("assign", "extend"):
                how = draw(st.sampled_from(ASSIGN_HOWS if kind == "assign" else EXTEND_HOWS))
                op["how"] = how
                vals, alt = draw(candidate(tag, how))
                op["vals"] = vals
                if alt:
                    op["alt"] = alt
                op["via"] = draw(st.sampled_from(VIAS))
            elif kind == "clear":
                op["how"] = draw(st.sampled_from(CLEAR_HOWS))
                op["via"] = draw(st.sampled_from(VIAS))
            elif kind == "del_prop":
                op["by"] = draw(st.sampled_from(["delitem", "delitem", "props"]))
            else:
                attr = draw(st.sampled_from(ATTRS))
                op["attr"] = attr
                if attr == "odml_type":
                    good = sorted(ODML_OK[tag])
                    op["val"] = draw(st.sampled_from(good if draw(st.integers(0, 2)) else ODML))
                elif attr == "unit":
                    op["val"] = draw(st.sampled_from(UNITS))
                elif attr == "uncertainty":
                    op["val"] = draw(st.sampled_from(UNCERT))
                else:
                    op["val"] = draw(st.sampled_from(ATTR_TEXT))
                op["via"] = draw(st.sampled_from(VIAS))
        if not valid_op(op):
            continue
        prog.append(op)
        pl = plan(model, op)
        if pl["want"] == "accept":
            apply_plan(model, op, pl)
    return {"part": "random", "prog": prog}


# -- part A: systematic programs -----------------------------------------------------------------

BASE = {"b": [True, False, True, True, False, False], "i": [3, -1, I64MAX, 0, I64MIN, 7],
        "f": [1.5, 2.0, {"f": "nan"}, -0.0, {"f": "inf"}, 1e308], "t": ["a", "", "ü日本", "1", "x y", "😀"]}
ODD = {"b": True, "i": 1, "f": 2.0, "t": "1"}
ODD_IN = {("i", "b"): 0, ("b", "i"): True, ("i", "f"): 2, ("f", "i"): 2.0}


def grid_mixed():
    """{type} x {odd type} x {length} x {odd position} x {call site} x {container}: exhaustive"""
    for tag in TAGS:
        for odd in TAGS:
            if odd == tag:
                continue
            oddval = ODD_IN.get((odd, tag), ODD[odd])
            for n in range(2, 7):
                for k in range(n):
                    vals = list(BASE[tag][:n])
                    vals[k] = oddval
                    prog = [{"op": "mk_prop", "sec": 0, "name": "k", "how": "list", "vals": BASE[tag][:3]}]
                    for how, via in (("list", "cached"), ("tuple", "name"), ("npscalars", "index")):
                        prog.append({"op": "assign", "sec": 0, "prop": 0, "how": how, "vals": vals, "via": via})
                        prog.append({"op": "extend", "sec": 0, "prop": 0, "how": how, "vals": vals, "via": via})
                    prog += [{"op": "mk_prop", "sec": 0, "name": "k", "how": "setitem", "vals": vals},
                             {"op": "clear", "sec": 0, "prop": 0, "how": "list", "via": "name"},
                             {"op": "extend", "sec": 0, "prop": 0, "how": "list", "vals": vals, "via": "id"}]
                    yield {"part": "grid-mixed", "prog": prog}
                    yield {"part": "grid-mixed", "prog": [
                        {"op": "mk_prop", "sec": 0, "name": nm, "how": how, "vals": vals}
                        for nm, how in (("a", "list"), ("b", "tuple"), ("k", "npscalars"), ("ü", "setitem"))]}


def grid_whole():
    """whole-candidate confusions: every (property type, candidate type) pair x container x call site, and the
    same-type round trip of every container for every length 1-6 incl. clear / extend-after-clear / reopen"""
    for tag in TAGS:
        for how in ("list", "tuple", "single", "npscalars", "setitem", "setitem_single"):
            for n in ((1,) if "single" in how else range(1, 7)):
                vals = BASE[tag][:n]
                if how in ("single", "setitem_single"):
                    for v in BASE[tag]:
                        if how == "single" and v == "":
                            continue
                        yield {"part": "grid-roundtrip", "prog": [
                            {"op": "mk_prop", "sec": 0, "name": "a", "how": how, "vals": [v]},
                            {"op": "mk_prop", "sec": 0, "name": "b", "how": "dtype", "t": tag},
                            {"op": "assign" if how == "single" else "mk_prop", "sec": 0, "prop": 1, "name": "b",
                             "how": how, "vals": [v], "via": "cached"},
                            {"op": "reopen"}] + ([{"op": "extend", "sec": 0, "prop": 1, "how": "single", "vals": [v],
                                                   "via": "name"}] if how == "single" else [])}
                    continue
                hows2 = [h for h in ("list", "tuple", "npscalars", "ndarray") if not (h == "ndarray" and tag == "t")]
                h2 = hows2[n % len(hows2)]
                yield {"part": "grid-roundtrip", "prog": [
                    {"op": "mk_prop", "sec": 0, "name": "a", "how": how, "vals": vals},
                    {"op": "reopen"},
                    {"op": "extend", "sec": 0, "prop": 0, "how": h2, "vals": BASE[tag][n - 1:], "via": "name"},
                    {"op": "clear", "sec": 0, "prop": 0, "how": CLEAR_HOWS[n % len(CLEAR_HOWS)], "via": "cached"},
                    {"op": "extend", "sec": 0, "prop": 0, "how": h2, "vals": vals, "via": "index"},
                    {"op": "reopen"},
                    {"op": "assign", "sec": 0, "prop": 0, "how": h2, "vals": list(reversed(BASE[tag]))[:n],
                     "via": "negindex"},
                    {"op": "mk_prop", "sec": 0, "name": "b", "how": "dtype", "t": tag},
                    {"op": "extend", "sec": 0, "prop": 1, "how": h2, "vals": vals, "via": "cached"}]}
        for other in TAGS:
            if other == tag:
                continue
            for how in ("list", "tuple", "single", "npscalars", "setitem", "setitem_single", "ndarray"):
                if how == "ndarray" and "t" in (tag, other):
                    continue
                cands = [[ODD_IN.get((other, tag), ODD[other])]] + \
                    ([] if "single" in how else [BASE[other][:3], BASE[other][:6]])
                for vals in cands:
                    prog = [{"op": "mk_prop", "sec": 0, "name": "a", "how": "list", "vals": BASE[tag][:2]}]
                    if how in ("setitem", "setitem_single"):
                        prog.append({"op": "mk_prop", "sec": 0, "name": "a", "how": how, "vals": vals})
                    else:
                        prog.append({"op": "assign", "sec": 0, "prop": 0, "how": how, "vals": vals, "via": "name"})
                        prog.append({"op": "extend", "sec": 0, "prop": 0, "how": how, "vals": vals, "via": "cached"})
                        prog.append({"op": "clear", "sec": 0, "prop": 0, "how": "delete", "via": "name"})
                        prog.append({"op": "extend", "sec": 0, "prop": 0, "how": how, "vals": vals, "via": "name"})
                    prog.append({"op": "reopen"})
                    yield {"part": "grid-other-type", "prog": prog}


def grid_attrs():
    for tag in TAGS:
        for via in ("cached", "name"):
            for empty in (False, True):
                mk = ({"op": "mk_prop", "sec": 0, "name": "a", "how": "dtype", "t": tag} if empty else
                      {"op": "mk_prop", "sec": 0, "name": "a", "how": "list", "vals": BASE[tag][:2]})
                for rnd in range(3):
                    prog = [mk]
                    for a in ATTRS:
                        pool = (ODML if a == "odml_type" else UNITS if a == "unit" else
                                UNCERT if a == "uncertainty" else ATTR_TEXT)
                        if a == "odml_type":
                            vals = [sorted(ODML_OK[tag])[rnd % len(ODML_OK[tag])], ODML[(rnd * 3 + 1) % len(ODML)]]
                        else:
                            vals = [pool[(rnd * 2 + 2) % len(pool)], pool[(rnd * 2 + 3) % len(pool)]]
                        for val in vals:
                            prog.append({"op": "set_attr", "sec": 0, "prop": 0, "attr": a, "val": val, "via": via})
                    prog.append({"op": "reopen"})
                    for a in ATTRS:
                        if a != "odml_type":
                            prog.append({"op": "set_attr", "sec": 0, "prop": 0, "attr": a, "val": None, "via": via})
                    prog.append({"op": "assign", "sec": 0, "prop": 0, "how": "list", "vals": BASE[tag][2:5],
                                 "via": via})
                    yield {"part": "grid-attrs", "prog": prog}


def grid_dict():
    """dict-style access: every arrangement of one name being a property / a sub-section / both / neither"""
    for tag in TAGS:
        for n in (0, 1, 3):
            mkp = ({"op": "mk_prop", "sec": 0, "name": "k", "how": "dtype", "t": tag} if n == 0 else
                   {"op": "mk_prop", "sec": 0, "name": "k", "how": "setitem", "vals": BASE[tag][:n]})
            mks = {"op": "mk_sec", "sec": 0, "name": "k", "via": "create"}
            mks2 = {"op": "mk_sec", "sec": 0, "name": "sub", "via": "S"}
            other = {"op": "mk_prop", "sec": 0, "name": "a", "how": "list", "vals": [1]}
            probe = {"op": "probe", "sec": 0, "key": "k"}
            dele = {"op": "del_prop", "sec": 0, "prop": 0, "by": "delitem"}
            for order in ([mkp, mks], [mks, mkp], [other, mks2, mkp, mks], [mks, mks2, other, mkp]):
                prog = list(order) + [probe, {"op": "reopen"}, probe]
                pidx = [o for o in order if o["op"] == "mk_prop"].index(mkp)
                prog += [dict(dele, prop=pidx), probe, {"op": "reopen"}, mkp, probe,
                         {"op": "mk_prop", "sec": 1, "name": "k", "how": "setitem_single", "vals": BASE[tag][:1]},
                         {"op": "probe", "sec": 1, "key": "k"}, {"op": "del_sec", "sec": 1}, probe]
                yield {"part": "grid-dict", "prog": prog}


def grid_all():
    out = []
    for g in (grid_mixed, grid_whole, grid_attrs, grid_dict):
        out.extend(g())
    return out


# ------------------------------------------------------------------ domain

def valid_op(op):
    try:
        kind = op["op"]
        if kind == "reopen":
            return True
        if not isinstance(op.get("sec", 0), int) or isinstance(op.get("sec", 0), bool):
            return False
        if kind == "mk_sec":
            return op["name"] in NAMES and op.get("via", "create") in ("create", "S")
        if kind == "del_sec":
            return True
        if kind == "probe":
            return op["key"] in NAMES
        if kind == "mk_prop":
            if op["name"] not in NAMES or op["how"] not in CREATE_HOWS:
                return False
            if op["how"] == "dtype":
                return op["t"] in TAGS
            return how_ok(op["how"], op["vals"], "assign" if op["how"] == "setitem" else "create")
        if not isinstance(op.get("prop", 0), int) or isinstance(op.get("prop", 0), bool):
            return False
        if op.get("via", "name") not in VIAS:
            return False
        if kind == "assign":
            return op["how"] in ASSIGN_HOWS and how_ok(op["how"], op["vals"], "assign") and \
                op.get("alt") in (None, "U", "O")
        if kind == "extend":
            return op["how"] in EXTEND_HOWS and how_ok(op["how"], op["vals"], "extend") and \
                op.get("alt") in (None, "U", "O")
        if kind == "clear":
            return op["how"] in CLEAR_HOWS
        if kind == "del_prop":
            return op.get("by", "delitem") in ("delitem", "props")
        if kind == "set_attr":
            a, v = op["attr"], op["val"]
            if a == "odml_type":
                return v in ODML
            if a == "unit":
                return v in UNITS
            if a == "uncertainty":
                return v is None or (isinstance(v, (int, float)) and not isinstance(v, bool) and math.isfinite(v))
            return a in STR_ATTRS and (v is None or (isinstance(v, str) and valid_elem(v)))
        return False
    except Exception:  # noqa
        return False


def valid(case):
    return isinstance(case, dict) and isinstance(case.get("prog"), list) and \
        all(isinstance(o, dict) and "op" in o and valid_op(o) for o in case["prog"])


# ------------------------------------------------------------------ runner interface

def shards(tier, seed):
    nshard, per, mx = (16, 25, 28) if tier == "quick" else (64, 160, 40)
    specs = [{"part": "random", "n": per, "max_ops": mx, "seed": seed * 1000 + i} for i in range(nshard)]
    specs += [{"part": "grid", "i": i, "of": 16, "seed": seed} for i in range(16)]
    return specs


def _freeze():
    # File.close() runs gc.collect(); with Hypothesis loaded that costs ~15 ms per call unless the objects
    # that exist at start-up are moved out of the collector's sight
    gc.collect()
    gc.freeze()


def run_shard(spec, ctx):
    _freeze()
    if spec["part"] == "grid":
        for j, case in enumerate(grid_all()):
            if j % spec["of"] == spec["i"]:
                run_case(case, ctx)
        ctx.exhaustive = True
    else:
        gen.generate(program(spec["max_ops"]), spec["n"], spec["seed"], lambda c: run_case(c, ctx))


def replay(case, ctx):
    _freeze()
    run_case(case, ctx)
