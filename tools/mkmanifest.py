#!/venv/bin/python
# -*- coding: utf-8 -*-
"""Regenerates MANIFEST.json from the table below (keeps it schema-valid at all times)."""
import json
import os

HERE = os.path.dirname(os.path.dirname(os.path.abspath(__file__)))

# id -> (technique, level text, level note, design ref)
CHECKS = {
 "C09": ("exhaustive enumeration + Hypothesis-generated strings vs. independent reference grammar (exact rationals)",
         "Every prefix x unit x power string, every prefix pair per (unit, power) and every triple on a "
         "7-prefix subset is enumerated and compared with a reference grammar that shares no code with the "
         "library; compounds, non-unit strings and clean-up inputs are generated. Exhaustive on the finite "
         "tables, sampled beyond.",
         "Reference grammar and prefix table in vlib/ref/units_ref.py are trusted; floating-point factors "
         "compared at 1e-12 relative.", "DESIGN.md 4/C09"),
 "C06": ("generated + exhaustive rank-1 index expressions, differential against NumPy on an in-memory copy",
         "Every int/slice expression on every window of rank-1 arrays up to length 4 (quick) / 5 (thorough) is "
         "enumerated; ranks 2-4 with ellipsis, negative ints, stepped and out-of-range slices are Hypothesis-"
         "generated; reads and writes through DataArray and DataView are compared with NumPy, whole array after "
         "each write.", "NumPy basic indexing is the reference; h5py/libhdf5 trusted as substrate.", "DESIGN.md 4/C06"),
 "C07": ("exhaustive dyadic grid + Hypothesis sampling vs. exact rational model of sample coordinates",
         "index_of / range_indices / position_at / tick_at / axis of all three descriptor kinds are compared with "
         "a Fraction-arithmetic model on an exhaustively enumerated dyadic grid (intervals x offsets x positions "
         "x modes) and on sampled decimal intervals and indices up to 2e6.",
         "positions are symbolic (offset+(k+f)*interval) so floating-point rounding cannot flip the expected answer.",
         "DESIGN.md 4/C07"),
 "C02": ("Hypothesis-generated operation programs (stateful), round-trip oracle on a canonical introspective walk + skeleton reference model",
         "Generated histories over all entity kinds with reopen checkpoints: the walk before close must equal the walk "
         "after read-only and read-write reopen, and a reference model of the calls (existence, order, links, last-"
         "written attributes, property values, shapes) must agree with the walk; an attribute sweep writes every "
         "(kind, attribute) several times through independent handles.",
         "The walk enumerates public properties by introspection; model comparison is suspended after a refused op "
         "(C12's subject).", "DESIGN.md 4/C02"),
 "C03": ("Hypothesis-generated create/delete/link programs vs. ordered (name, id) model per container",
         "Every container of every kind is compared after (almost) every step with an ordered model: len, iteration, "
         "positive/negative indexing, out-of-range, lookup by name and id, membership, items(); duplicate attempts "
         "must raise DuplicateName, legal names (long, non-ASCII, id-like) must be accepted; ids are well-formed, "
         "unique and stable across handles and reopen.",
         "A name equal to the id of a sibling in the same container is treated as out of domain (ambiguous key).",
         "DESIGN.md 4/C03"),
 "C04": ("Hypothesis-generated build+delete programs, metamorphic prune oracle on the canonical walk + raw HDF5 scan",
         "On densely cross-linked generated files every delete (by name, id, index, negative index, object; every "
         "entity kind) must turn the observed walk W0 into exactly prune(W0, ids of the victim's subtree): nothing "
         "else changes, no list or slot yields a deleted id, and a raw h5py scan finds no object with a deleted "
         "entity_id; unlink ops remove exactly one reference and no entity.",
         "Dimension links are generated inside one block (no documented use links across blocks); timestamps are "
         "ignored here (C19).", "DESIGN.md 4/C04"),
 "C05": ("Hypothesis-generated link topologies + alias / dimension-link / acceptance probes, all-paths-agree oracle",
         "On generated cross-linked files a mutation through any access path (owning container, every link list, role "
         "links, found handles) must be visible with identical walk through all other paths and after reopen; "
         "linked range/set dimensions must report target[index vector], unit and label live, explicit ticks and links "
         "replace each other; every link list must accept same-block entities of the right kind and refuse everything "
         "else (wrong kind, other block incl. same-named) leaving the list unchanged.",
         "The model of 'which path denotes which entity' is the harness' own record of its calls.", "DESIGN.md 4/C05"),
 "C12": ("fault injection into generated histories: catalogue call-site x fault-class, walk-before == walk-after oracle",
         "Every public creating/mutating call is paired with every class of invalid argument it can receive (about "
         "230 site x class pairs, enumerated completely on every run after a fixed history, and injected at random "
         "positions of generated histories); when the call raises, the canonical walk of the whole file must be "
         "unchanged and the valid retry must succeed.",
         "A call that does not raise is not 'refused' and only counted; invisible HDF5 leftovers (empty container "
         "groups) are not observable state.", "DESIGN.md 4/C12"),
 "C15": ("Hypothesis-generated calibration set/clear sequences x read paths vs. NumPy raw model + independent Horner evaluation; raw h5py read-back",
         "Element types x shapes x coefficient lists (0-5, zeros) x origins x every read path (whole, expressions, "
         "elements, views incl. views created before the change, tag.tagged_data, reopen) are compared with an "
         "independent float64 Horner evaluation of the raw model under a condition-aware tolerance; inactive "
         "calibration must return the stored dtype bitwise; after every attribute op the HDF5 dataset is read with "
         "h5py and must equal the raw model.", "NumPy float64 arithmetic as reference; +-inf / overflowing elements masked.",
         "DESIGN.md 4/C15"),
 "C01": ("Hypothesis-generated write/assign/append/resize/reopen histories x 12 element types x compression triples vs. NumPy model with a 'defined' mask",
         "Each step is applied to the real array and to a NumPy model of the same dtype; after every step and after "
         "RW / RO reopen shape, len, size, dtype, data_type and all defined elements are compared bitwise (NaN-aware, "
         "sign of zero) / exactly for text; all 27 file x block x array compression triples are enumerated per element "
         "type and creation path.", "Cells exposed by growing an array are undefined and masked; Auto compression "
         "resolution is only counted.", "DESIGN.md 4/C01"),
 "C10": ("exhaustive type-confusion grids + Hypothesis-generated property/section programs vs. Python list/dict model",
         "Typed value lists (create / assign / extend / clear / extend-after-clear, list / tuple / ndarray forms) with the "
         "odd element at every position for every ordered type pair are enumerated exhaustively; generated programs over a "
         "section tree with reopen compare values, types, optional attributes and dict-style access with a Python model.",
         "A bare empty string as single value is the library's documented 'no value' and is not generated.", "DESIGN.md 4/C10"),
 "C13": ("Hypothesis-generated section/source trees with repeated names and link assignments vs. tree model (BFS, parents, inverse links)",
         "find_* from every start with every limit and filter, parent / parent_source / parent_block through creation, "
         "lookup, found, metadata-link and link-list handles, and all referring_* lists are compared with a tree model, "
         "in session and after read-only reopen.", "find_*(limit=0) on File/Block is unspecified and not asked.",
         "DESIGN.md 4/C13"),
 "C14": ("Hypothesis-generated well-formed recipes + single/pairwise catalogue injections vs. reference validator over the recipe",
         "Well-formed files of every entity kind must validate without errors; every catalogue inconsistency injected "
         "through the public API must be reported for exactly the objects a reference validator (written from the English "
         "catalogue, working on the recipe, not the file) computes, dependants included; the CLI validator is compared too.",
         "Documented co-reports are allowed rather than required; compound-unit convertibility is unspecified.",
         "DESIGN.md 4/C14"),
 "C16": ("Hypothesis-generated data-frame programs (4 creation variants, append/overwrite by every index and name, refusal probes, reopen) vs. Python table model",
         "Every read path (df[:], read_rows, read_columns in all variants, read_cell both forms, counts, names, types, "
         "units) is compared with an ordered-columns + row-tuples model after every op and after reopen; refused writes "
         "must leave the table unchanged.", "Cell values come from per-type boundary tables; (row, column) order for both "
         "cell forms as documented by write_cell.", "DESIGN.md 4/C16"),
 "C18": ("Hypothesis-generated recipes -> current file -> raw-h5py downgrade to old layouts -> upgrade with fault injection at every write-open",
         "Synthesised old-format files (versions 1.0.0-1.2.0, old compound properties with per-value extras, alias range "
         "dimensions, id kept/removed/invalid) must read back the recipe, upgrade to a writable file with the same walk, "
         "stay 'old' when interrupted before any of the n conversion steps (every k in 1..n+1, error and kill style), "
         "complete on re-run with the same result, and an up-to-date file must stay byte-identical.",
         "Old layouts are synthesised from nixio's own old-format readers (no genuine pre-1.1.1 file available); "
         "interruption inside a step is outside the statement.", "DESIGN.md 4/C18"),
 "C19": ("Hypothesis-generated op programs under a harness-owned clock, per-op timestamp-delta oracle",
         "The clock is replaced from outside; after every single op the (created_at, updated_at) of every entity is "
         "compared with the state before: created_at fixed, auto-off freezes everything but force calls, must-update "
         "attributes set exactly the target to the clock, other ops may only touch involved entities, forced seconds "
         "read back exactly also after reopen; an attribute sweep covers the whole must-update table.",
         "The check verifies first that the clock is under control (else exit 2).", "DESIGN.md 4/C19"),

 "C08": ("Hypothesis-generated tags / multi-tags / features over descriptor mixes vs. exact-rational region oracle",
         "For arrays of rank 1-3 with every mix of sampled / range / set descriptors, tags and multi-tags with positions "
         "on, between and outside samples, optional extents, both stop rules, every tag-unit / axis-unit prefix pair and "
         "all three feature link types, the returned view must equal ref[np.ix_(I_1..I_k)] where I_d is computed with "
         "exact Fractions from the statement, or be invalid/empty or OutOfBounds exactly when the oracle says so.",
         "Recipes whose boundaries are not exactly representable are decided under a stated tolerance (about 21 %, "
         "reported); (MultiTag, untagged, position out of range) is masked.", "DESIGN.md 4/C08"),
 "C11": ("exhaustive version x mode x id x tag lattice + differential read-write twin for read-only immutability",
         "All 4752 header combinations are enumerated against the statement written as a function (refused opens must "
         "leave the SHA-256 unchanged); on generated files every mutator of the op grammar is attempted on a read-only "
         "handle and on a read-write twin: what changes the twin must raise, the read-only walk and bytes never change; "
         "overwrite / read-write / missing-path semantics are checked on generated files.",
         "A current-layout file relabelled as pre-1.1.1 is not a genuine old file: Property nodes are masked there.",
         "DESIGN.md 4/C11"),
 "C17": ("Hypothesis-generated histories, every flush/close point a crash point: forked writer SIGKILLed after flush()/close(), walk oracle",
         "For each generated program and each of its flush points (and the final close) a forked writer replays the "
         "history, records the canonical walk, calls flush()/close() and kills itself with SIGKILL; the parent reopens "
         "read-only and read-write and requires the recorded walk. A control arm without the flush measures that losses "
         "are observable.", "Process-kill durability only (page cache survives), as the statement says.", "DESIGN.md 4/C17"),
 "C20": ("Hypothesis-generated copy scenarios (kind x destination x id policy x rename x children) + mutations, walk-modulo-id-map oracle",
         "The copy's walk must equal the source's after renaming and applying an id map that is a function, injective, "
         "the identity for kept ids and fresh / unique otherwise; internal links stay inside the copy; the returned handle "
         "is the copy; refused copies change nothing; mutations of either side are invisible on the other.",
         "Timestamps are not compared; link targets outside the copied subtree are compared through the API only.",
         "DESIGN.md 4/C20"),
}
# extensions made while strengthening the checks against independently seeded changes (DESIGN.md 9.7)
EXTRA = {
 "C01": " Two retained handles to the array are used in turn; bare / NumPy-integer index 0 and append axes outside "
        "0..rank-1 (NumPy reading or refusal, never an overwrite) are generated.",
 "C02": " Handles are obtained fresh, cached or two-in-turn; numeric attributes get int-then-fractional writes and "
        "descriptor attributes are part of the reference model. Frames get units, further columns and rows inside the histories; a type-changing property assignment is attempted (refused, or last write wins).",
 "C03": " Names that differ only by Unicode normalisation form, case or blanks, and nested sources repeating a top-level "
        "name inside link lists, are generated. A handle obtained through a link list or metadata link is a member of the container that owns the entity.",
 "C04": " Owner handles warmed by index / id / name lookups before a delete must not yield the deleted entity afterwards. The object to delete may have been obtained through a link, or be handed to the container at the top of its tree instead of its direct parent (deleted, or refused without any change - never another entity).",
 "C05": " extend([acceptable..., unacceptable]) must link nothing; re-pointing a slot or list from an entity to its "
        "id-preserving copy must denote the copy; handles kept since before a mutation are access paths too. Stale handles of deleted sources must be refused by every sources list; a feature retargeted frame -> array denotes the array. Candidates for link lists are also handed over as handles obtained through links / role slots / searches; explicit ticks equal to the linked values must still replace the link.",
 "C06": " Windows that begin before the array are read and written element by element: refused or the NumPy reading. The extent is changed through another handle while a long-lived handle stays in use.",
 "C07": " Geometry is written through a fresh descriptor handle and queried through a long-lived one.",
 "C08": " Exactness is decided per boundary and a start that is bit-identical to a reported sample coordinate is pinned "
        "to that sample; repeated tick values and calibrated positions / extents arrays are generated. The same tag object is asked again after the unit of an addressed axis changed. References and features are addressed by position, negative position, name and id while a second reference / feature with other data is present; deprecated spellings are compared with the current ones; multi-tag positions / extents kept in narrow integer types whose sum exceeds the type.",
 "C11": " Existing files that are not HDF5 at all (text, bytes, truncated NIX files) must be refused with bytes unchanged. A read-only session that follows a refused read-write open in the same process is still read-only. Invalid ids include well-formed ids followed by more text; overwrite while another handle of the process holds the file open is refused without change or yields a fresh empty file.",
 "C12": " The catalogue includes refusals that depend on prior state (derived names taken, linked descriptors, a kept "
        "handle after delete_dimensions, later-item faults). Index vectors handed over as ndarrays, multi-tag positions / extents of another block, unsupported column types and unstorable text in frames.",
 "C13": " After the first round of queries the tree is mutated (unlink, relink, add, delete, id-keeping copy) and "
        "everything is asked again in the same session.",
 "C14": " Validation is repeated before every injection in the same session (no state may survive a validation); linked "
        "tick vectors are resized. Paired injection: the same non-SI string on an axis and on the tag that addresses it.",
 "C16": " Frame handles are single, fresh or two-in-turn; calls whose later row is unacceptable must apply nothing. Record arrays whose field order differs from their byte order, and index lists that are not strictly increasing (refused, or applied in order). Values the storage layer cannot take (NumPy fixed-width text / object column types, text with an embedded NUL or a lone surrogate): accepted, or refused with the table unchanged.",
 "C17": " The writer runs under an advancing clock; generated flush intervals hold one kind of op only; for part of the "
        "crash points the expected state comes from a second, normally closing writer while the killed one never reads "
        "its file back. Paths that already hold a file are overwritten; every writer starts in a clean directory. In a quarter of the histories the writer is a second handle of a process that keeps the file open for writing.",
 "C18": " Units in spellings this library would not write (micro signs, blanks) must read unchanged after the upgrade. Nearly equal per-value extras; the interrupting fault is an error, a kill or an OSError. Old properties held in every integer width, uint64 values beyond int64 included.",
 "C19": " Handles retained since creation / reopen must report the stored timestamps after every op; forced times "
        "(second 0, ahead of the clock) are followed by descriptive changes. Change - force - change within one clock second through retained handles. Forced seconds are read back under seven POSIX time zones, placed around the zones' own daylight-saving switches (repeated and missing hours); frames get units / columns / rows with automatic timestamps on and off.",
 "C20": " Link targets are compared by an id-free content digest; sources are also taken through link lists and role "
        "links; section links inside the copied tree are generated. Sources that already hold an id-keeping duplicate; mutations through the links of either side. The link lists and owned containers of the copy must answer for their members by id, by name and by object (children with id-like names included); children are deleted on either side.",
}
PENDING = {}
LEVELS = {"C12": "fault_enumeration", "C18": "fault_enumeration", "C17": "fault_enumeration"}

def main():
    props = [json.loads(l) for l in open(os.path.join(HERE, "properties.jsonl"))]
    checks, na = [], []
    for p in props:
        pid = p["id"]
        if pid in CHECKS and os.path.exists(os.path.join(HERE, "props", pid.lower() + ".py")):
            tech, text, note, ref = CHECKS[pid]
            checks.append({
                "property_id": pid,
                "quick_cmd": "./check %s --tier quick" % pid,
                "thorough_cmd": "./check %s --tier thorough" % pid,
                "evidence_file": "evidence/%s.json" % pid,
                "replay_cmd_template": "./check %s --replay {path}" % pid,
                "engine": "pbt-runner",
                "level_claimed": {"category": LEVELS.get(pid, "exploration"), "text": text + EXTRA.get(pid, ""),
                                  "design_ref": ref},
                "level_note": note,
                "technique": tech,
            })
        else:
            na.append({"property_id": pid,
                       "reason": PENDING.get(pid, "check not built yet (work in progress; the technique applies, see DESIGN.md section 4)")})
    man = {
        "version": 1,
        "setup_cmd": "/venv/bin/python -c 'import hypothesis' 2>/dev/null || /venv/bin/pip install -q --no-index --find-links /opt/veriftools/wheels --target /verif/.deps hypothesis",
        "hooks": {
            "guard": "NIXPY_VERIF",
            "enable": "no source hooks: the checks import nixio from /repo's working tree (PYTHONPATH) and patch the clock / h5py shim from outside; NIXPY_VERIF=1 is exported by ./check but consulted by no source line",
            "baseline_off_cmd": "cd /repo && /venv/bin/python -m pytest -ra -q -p no:cacheprovider --timeout=900 --continue-on-collection-errors",
            "source_commits": [],
            "add_only": True,
        },
        "engines": [{
            "name": "pbt-runner", "path": "vlib/runner.py",
            "serves_properties": [c["property_id"] for c in checks],
            "kind_free_text": "property-based testing: Hypothesis strategies / exhaustive enumeration of finite sub-domains, 16-way sharded, explicit oracles (reference models, round trips, differential and metamorphic relations), finding-keyed collection, own JSON shrinker, replay files",
        }],
        "checks": checks,
        "not_applicable": na,
        "notes": "All checks: ./check <ID> [--tier quick|thorough] [--replay PATH]; VERIF_SEED honoured; evidence in evidence/<ID>.json; known findings in known_findings.json.",
    }
    with open(os.path.join(HERE, "MANIFEST.json"), "w") as fh:
        json.dump(man, fh, indent=1)
        fh.write("\n")
    try:
        import jsonschema
        jsonschema.validate(man, json.load(open("/root/.vp/MANIFEST.schema.json")))
        print("MANIFEST valid;", len(checks), "checks,", len(na), "not claimed")
    except ImportError:
        print("MANIFEST written (jsonschema not importable);", len(checks), "checks")

if __name__ == "__main__":
    main()
