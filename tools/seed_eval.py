#!/venv/bin/python
# -*- coding: utf-8 -*-
"""
usage: tools/seed_eval.py [--tier-only quick] [--skip-tests] [--jobs N] [--checks C02,C05] seeded/<id> ...

Confirms seeded breaking changes and runs the checks against them.  For each directory
(patch.diff, demo.py, meta.json):

  1. copy /repo to a scratch dir (/dev/shm), run demo.py there            -> must exit 0
  2. apply patch.diff, run demo.py                                        -> must exit != 0
  3. run the repository's pinned suite against the patched copy            -> must pass
  4. run ./check <ID> --tier quick (then thorough if quick is silent) with
     NIXPY_VERIF_REPO=<scratch>, evidence redirected into the scratch dir
  5. record everything under "verified" in meta.json; remove the scratch copy

Nothing is ever applied to /repo itself.
"""
import argparse
import json
import os
import re
import shutil
import subprocess
import sys
import tempfile
import time
from concurrent.futures import ThreadPoolExecutor

HERE = os.path.dirname(os.path.dirname(os.path.abspath(__file__)))
DESELECT = ["test_spike_features", "test_tagged_feature", "test_tagging_example", "test_untagged_feature"]


def sh(cmd, cwd=None, env=None, timeout=3600):
    e = dict(os.environ)
    e.update(env or {})
    t0 = time.time()
    try:
        p = subprocess.run(cmd, cwd=cwd, env=e, stdout=subprocess.PIPE, stderr=subprocess.STDOUT, timeout=timeout)
        return p.returncode, p.stdout.decode("utf-8", "replace"), time.time() - t0
    except subprocess.TimeoutExpired as exc:
        return 124, (exc.stdout or b"").decode("utf-8", "replace") + "\nTIMEOUT", time.time() - t0


def evaluate(d, args):
    d = os.path.abspath(d)
    meta_path = os.path.join(d, "meta.json")
    meta = json.load(open(meta_path))
    prop = meta.get("property") or os.path.basename(d)[:3]
    checks = args.checks.split(",") if args.checks else [prop]
    scratch = tempfile.mkdtemp(prefix="nixpy-seed-", dir="/dev/shm")
    res = {"date": time.strftime("%Y-%m-%d"), "repo_head": sh(["git", "-C", "/repo", "rev-parse", "--short", "HEAD"])[1].strip()}
    try:
        tree = os.path.join(scratch, "tree")
        sh(["rsync", "-a", "--exclude", ".git", "--exclude", "*.pyc", "--exclude", "__pycache__", "/repo/", tree + "/"])
        demo = os.path.join(d, "demo.py")
        rc, out, _ = sh(["/venv/bin/python", demo], cwd=scratch, env={"PYTHONPATH": tree})
        res["demo_clean_exit"] = rc
        rc, out, _ = sh(["patch", "-p1", "-s", "-i", os.path.join(d, "patch.diff")], cwd=tree)
        if rc != 0:
            res["patch"] = "FAILED: " + out[-300:]
            return d, res
        rc, out, _ = sh(["/venv/bin/python", demo], cwd=scratch, env={"PYTHONPATH": tree})
        res["demo_seeded_exit"] = rc
        res["demo_seeded_tail"] = out.strip().splitlines()[-1][:300] if out.strip() else ""
        if not args.skip_tests:
            cmd = ["/venv/bin/python", "-m", "pytest", "-q", "-p", "no:cacheprovider", "-n", "4", "nixio/test"]
            for t in DESELECT:
                cmd += ["--deselect", "nixio/test/test_doc_examples.py::TestDocumentationExamples::" + t]
            rc, out, _ = sh(cmd, cwd=tree, env={"PYTHONPATH": tree})
            res["tests_exit"] = rc
            res["tests_tail"] = out.strip().splitlines()[-1][:200] if out.strip() else ""
        else:
            prev = meta.get("verified", {})
            if "tests_exit" in prev:        # the suite verdict of the earlier evaluation of the same patch is kept
                res["tests_exit"], res["tests_tail"] = prev["tests_exit"], prev.get("tests_tail", "")
        res["checks"] = {}
        for cid in checks:
            for tier in (["quick", "thorough"] if not args.tier_only else [args.tier_only]):
                ev = os.path.join(scratch, "ev-%s-%s" % (cid, tier))
                os.makedirs(ev)
                rc, out, wall = sh([os.path.join(HERE, "check"), cid, "--tier", tier], cwd=HERE,
                                   env={"NIXPY_VERIF_REPO": tree, "NIXPY_VERIF_EVIDENCE_DIR": ev,
                                        "VERIF_SEED": str(args.seed)}, timeout=7200)
                keys = sorted(set(re.findall(r"^violation key=(\S+)", out, re.M)))
                if not keys:
                    keys = sorted(set(m for m in re.findall(r"key=(\S+)", out)))
                res["checks"].setdefault(cid, {})[tier] = {
                    "exit": rc, "violation": bool(re.search(r"^VIOLATION property=", out, re.M)),
                    "keys": keys[:12], "wall_s": round(wall, 1)}
                if rc == 1:
                    break
                if rc not in (0, 1):
                    res["checks"][cid][tier]["tail"] = out[-500:]
        return d, res
    finally:
        shutil.rmtree(scratch, ignore_errors=True)
        meta["verified"] = res
        with open(meta_path, "w") as fh:
            json.dump(meta, fh, indent=2, ensure_ascii=False)
            fh.write("\n")


def main():
    ap = argparse.ArgumentParser()
    ap.add_argument("dirs", nargs="+")
    ap.add_argument("--tier-only")
    ap.add_argument("--skip-tests", action="store_true")
    ap.add_argument("--jobs", type=int, default=2)
    ap.add_argument("--checks")
    ap.add_argument("--seed", type=int, default=1)
    args = ap.parse_args()
    with ThreadPoolExecutor(args.jobs) as ex:
        for d, res in ex.map(lambda d: evaluate(d, args), args.dirs):
            c = res.get("checks", {})
            verdict = {cid: next((t for t in ("quick", "thorough") if v.get(t, {}).get("exit") == 1), "MISSED")
                       for cid, v in c.items()}
            print("%s demo %s->%s tests=%s checks=%s" % (os.path.basename(d), res.get("demo_clean_exit"),
                  res.get("demo_seeded_exit"), res.get("tests_exit"), verdict), flush=True)


if __name__ == "__main__":
    main()
