#!/bin/bash
# usage: tools/sweep.sh <tier> <seed> [ids...]   -- runs checks with evidence redirected to a scratch dir; prints one line per check
TIER="$1"; SEED="$2"; shift 2
IDS="${@:-C01 C02 C03 C04 C05 C06 C07 C08 C09 C10 C11 C12 C13 C14 C15 C16 C17 C18 C19 C20}"
OUT=$(mktemp -d /dev/shm/nixpy-sweep-XXXXXX)
cd "$(dirname "$0")/.."
for c in $IDS; do
  VERIF_SEED=$SEED NIXPY_VERIF_EVIDENCE_DIR=$OUT ./check $c --tier $TIER > $OUT/$c.log 2>&1
  rc=$?
  echo "rc=$rc $(grep -E "^C[0-9]+ tier" $OUT/$c.log | tail -1) $(grep -c '^VIOLATION' $OUT/$c.log) violation-lines"
  grep -E "^violation key|^HARNESS" $OUT/$c.log | cut -c1-300
done
rm -rf "$OUT"
