#!/bin/bash
# usage: tools/try_seed.sh <dir-with patch.diff+demo.py> <ID> [tier]
# Confirms a seeded change in a scratch copy of /repo (demo fails with it, passes without, repo tests pass) and runs ./check <ID> against it.
D="$(realpath "$1")"; ID="$2"; TIER="${3:-quick}"
S=$(mktemp -d /dev/shm/nixpy-seed-XXXXXX)
trap 'rm -rf "$S"' EXIT
rsync -a --exclude .git --exclude '*.pyc' --exclude __pycache__ /repo/ "$S/"
echo "demo on clean tree: $(cd /tmp && PYTHONPATH=$S /venv/bin/python $D/demo.py 2>&1 | tail -1 | cut -c1-150) (exit $?)"
(cd /tmp && PYTHONPATH=$S /venv/bin/python $D/demo.py >/dev/null 2>&1); echo "  clean exit=$?"
if ! (cd "$S" && patch -p1 -s < "$D/patch.diff"); then echo "PATCH-FAILED"; exit 3; fi
(cd /tmp && PYTHONPATH=$S /venv/bin/python $D/demo.py > $S/demo.out 2>&1); echo "  seeded exit=$? : $(tail -1 $S/demo.out | cut -c1-200)"
if [ "${SKIP_TESTS:-0}" != "1" ]; then
  (cd "$S" && PYTHONPATH=$S /venv/bin/python -m pytest -q -p no:cacheprovider -n 8 nixio/test --deselect nixio/test/test_doc_examples.py::TestDocumentationExamples::test_spike_features --deselect nixio/test/test_doc_examples.py::TestDocumentationExamples::test_tagged_feature --deselect nixio/test/test_doc_examples.py::TestDocumentationExamples::test_tagging_example --deselect nixio/test/test_doc_examples.py::TestDocumentationExamples::test_untagged_feature 2>&1 | tail -1)
fi
cd /verif && NIXPY_VERIF_REPO="$S" NIXPY_VERIF_EVIDENCE_DIR="$S/evidence" ./check "$ID" --tier "$TIER" 2>&1 | grep -E "^(VIOLATION|violation|HARNESS|C[0-9]+ tier)" | cut -c1-300 | head -6
