#!/venv/bin/python
# -*- coding: utf-8 -*-
"""Generates seeded/README.md from seeded/*/meta.json ('verified' records written by tools/seed_eval.py) and
seeded/initial_verdicts.json (the verdict of the checks as they stood when the change was first evaluated)."""
import glob
import json
import os

HERE = os.path.dirname(os.path.dirname(os.path.abspath(__file__)))
init = json.load(open(os.path.join(HERE, "seeded", "initial_verdicts.json")))
rows = []
for d in sorted(glob.glob(os.path.join(HERE, "seeded", "C??-*"))):
    sid = os.path.basename(d)
    m = json.load(open(os.path.join(d, "meta.json")))
    v = m.get("verified", {})
    checks = v.get("checks", {})
    final = []
    for cid, tiers in sorted(checks.items()):
        hit = next((t for t in ("quick", "thorough") if tiers.get(t, {}).get("exit") == 1), None)
        keys = (tiers.get(hit, {}).get("keys") or [""])[0] if hit else ""
        final.append("%s %s%s" % (cid, hit or "MISSED", (" (`%s`)" % keys[:70]) if keys else ""))
    what = m.get("summary", "").replace("\n", " ").replace("|", "/")
    what = what if len(what) <= 260 else what[:257] + "..."
    needs = m.get("needs_to_manifest", "").replace("\n", " ").replace("|", "/")
    needs = needs if len(needs) <= 200 else needs[:197] + "..."
    rows.append((sid, m.get("property", sid[:3]), what, needs, init.get(sid, "?"),
                 "; ".join(final) or "not evaluated",
                 "demo %s->%s, suite %s" % (v.get("demo_clean_exit"), v.get("demo_seeded_exit"),
                                            {0: "passes", None: "not re-run"}.get(v.get("tests_exit"), "FAILS")),
                 "yes" if m.get("rebased") else ""))

out = ["# Independently seeded breaking changes", "",
       "Written by sub-agents that saw only the property text and a scratch worktree (brief: `tools/SEED_BRIEF.md`).",
       "Each directory holds `patch.diff` (applies to /repo HEAD with `patch -p1`), `demo.py` (exit 0 without, non-zero",
       "with the change) and `meta.json` (the agent's description plus `verified`: what `tools/seed_eval.py` observed in a",
       "scratch copy - demo exits, the repository suite, the check's verdict and finding keys). Nothing here is ever applied",
       "to /repo itself. *first verdict* = tier of the property's check that reported the change when it was first",
       "evaluated (before any strengthening for it); *now* = verdict of the committed checks (quick tier, VERIF_SEED=1).", "",
       "| id | what was changed | needs, to manifest | first verdict | now | confirmed | rebased |",
       "|---|---|---|---|---|---|---|"]
for r in rows:
    out.append("| %s | %s | %s | %s | %s | %s | %s |" % (r[0], r[2], r[3], r[4], r[5], r[6], r[7]))
n = len(rows)
first_quick = sum(1 for r in rows if r[4].startswith("quick"))
first_thorough = sum(1 for r in rows if r[4] == "thorough")
now_quick = sum(1 for r in rows if " quick" in r[5])
out += ["", "Totals: %d changes; first verdict quick %d, thorough only %d, missed %d; now reported by the quick tier: %d."
        % (n, first_quick, first_thorough, n - first_quick - first_thorough, now_quick)]
open(os.path.join(HERE, "seeded", "README.md"), "w").write("\n".join(out) + "\n")
print(out[-1])
