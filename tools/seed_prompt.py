#!/venv/bin/python
# -*- coding: utf-8 -*-
"""usage: tools/seed_prompt.py <ID> <round>  -> prints the prompt for a seeding sub-agent (SEED_BRIEF.md filled in).
The agent gets the property text and a list of ideas already taken (summaries of earlier seeds), nothing about the checks."""
import glob
import json
import os
import sys

HERE = os.path.dirname(os.path.dirname(os.path.abspath(__file__)))
pid, rnd = sys.argv[1], sys.argv[2]
prop = [json.loads(l) for l in open(os.path.join(HERE, "properties.jsonl")) if json.loads(l)["id"] == pid][0]
brief = open(os.path.join(HERE, "tools", "SEED_BRIEF.md")).read().split("\n", 5)[5]
wt = "/tmp/seed/%s" % pid
out = "/tmp/seed/%s.out%s" % (pid, rnd)
taken = []
for d in sorted(glob.glob(os.path.join(HERE, "seeded", pid + "-*"))):
    m = json.load(open(os.path.join(d, "meta.json")))
    taken.append("- " + m["summary"].split(". ")[0][:400])
text = brief.replace("WORKTREE", wt).replace("OUTDIR", out).replace("PROPID", pid)
print("PROPID = %s\nWORKTREE = %s (exists already: a clean git worktree of the library; verify with `git -C %s status`)\nOUTDIR = %s\n" % (pid, wt, wt, out))
print("Property %s: %s\nStatement: %s\nQuantified over: %s\n" % (pid, prop["title"], prop["statement"], (prop.get("quantifier") or {}).get("text", "") if isinstance(prop.get("quantifier"), dict) else prop.get("quantifier", "")))
print(text)
print("\nAlready taken (write something different in root cause AND in what it needs to manifest):\n" + ("\n".join(taken) or "- (none)"))
print("\nTime box: about 45 minutes in total. If the second change proves hard, deliver one good one.")
