#!/bin/bash
# usage: tools/mutant.sh <patch-file|-e 'sed-expr' file> <ID> [tier]   -- runs ./check <ID> against a scratch copy of /repo with the patch applied
# The scratch copy lives in /dev/shm (outside /repo and /verif) and is removed afterwards.
set -u
PATCH="$(realpath "$1")"; ID="$2"; TIER="${3:-quick}"
S=$(mktemp -d /dev/shm/nixpy-mutant-XXXXXX)
trap 'rm -rf "$S"' EXIT
rsync -a --exclude .git --exclude '*.pyc' --exclude __pycache__ /repo/ "$S/"
if ! (cd "$S" && patch -p1 -s < "$PATCH"); then echo "PATCH-FAILED $PATCH"; exit 3; fi
cd /verif && NIXPY_VERIF_REPO="$S" NIXPY_VERIF_EVIDENCE_DIR="$S/evidence" ./check "$ID" --tier "$TIER" 2>&1 | grep -E "^(VIOLATION|violation|HARNESS|C[0-9]+ tier)" | cut -c1-400 | head -12
exit 0
