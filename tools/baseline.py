#!/venv/bin/python
"""Runs the repository suite (xdist) and checks that every test of BASELINE.stable_pass passes."""
import json, subprocess, sys, tempfile, os, xml.etree.ElementTree as ET
repo = sys.argv[1] if len(sys.argv) > 1 else "/repo"
base = json.load(open("/root/.vp/BASELINE.json"))
want = set(base["stable_pass"])
with tempfile.TemporaryDirectory() as d:
    x = os.path.join(d, "j.xml")
    subprocess.call(["/venv/bin/python", "-m", "pytest", "-q", "-p", "no:cacheprovider", "--timeout=900",
                     "--continue-on-collection-errors", "-n", "12", "--junitxml", x],
                    cwd=repo, stdout=subprocess.DEVNULL, stderr=subprocess.DEVNULL,
                    env=dict(os.environ, PYTHONPATH=repo))
    ok = set()
    for tc in ET.parse(x).getroot().iter("testcase"):
        if not any(ch.tag in ("failure", "error", "skipped") for ch in tc):
            ok.add("%s::%s" % (tc.get("classname"), tc.get("name")))
missing = sorted(want - ok)
print("baseline stable tests passing: %d/%d; other passing: %d" % (len(want & ok), len(want), len(ok - want)))
for m in missing:
    print("  MISSING", m)
sys.exit(1 if missing else 0)
