#!/bin/bash
# usage: tools/seed_import.sh <ID> <round>   -- copies /tmp/seed/<ID>.out<round>/{seedN.diff,demoN.py,metaN.json} to seeded/<ID>-<2*(round-1)+N>/
ID="$1"; R="$2"; cd "$(dirname "$0")/.."
for j in 1 2; do
  src=/tmp/seed/$ID.out$R
  [ -f $src/seed$j.diff ] || continue
  n=$(( 2 * (R - 1) + j ))
  d=seeded/$ID-$n; mkdir -p $d
  cp $src/seed$j.diff $d/patch.diff; cp $src/demo$j.py $d/demo.py; cp $src/meta$j.json $d/meta.json
  echo "imported $d"
done
